
(** val negb : bool -> bool **)

let negb = function
| true -> false
| false -> true

type nat =
| O
| S of nat

(** val fst : ('a1 * 'a2) -> 'a1 **)

let fst = function
| (x, _) -> x

(** val snd : ('a1 * 'a2) -> 'a2 **)

let snd = function
| (_, y) -> y

(** val length : 'a1 list -> nat **)

let rec length = function
| [] -> O
| _ :: l' -> S (length l')

(** val app : 'a1 list -> 'a1 list -> 'a1 list **)

let rec app l m0 =
  match l with
  | [] -> m0
  | a :: l1 -> a :: (app l1 m0)

type comparison =
| Eq
| Lt
| Gt

(** val compOpp : comparison -> comparison **)

let compOpp = function
| Eq -> Eq
| Lt -> Gt
| Gt -> Lt

module Coq__1 = struct
 (** val add : nat -> nat -> nat **)
 let rec add n0 m0 =
   match n0 with
   | O -> m0
   | S p -> S (add p m0)
end
include Coq__1

(** val mul : nat -> nat -> nat **)

let rec mul n0 m0 =
  match n0 with
  | O -> O
  | S p -> add m0 (mul p m0)

(** val sub : nat -> nat -> nat **)

let rec sub n0 m0 =
  match n0 with
  | O -> n0
  | S k -> (match m0 with
            | O -> n0
            | S l -> sub k l)

(** val eqb : bool -> bool -> bool **)

let eqb b1 b2 =
  if b1 then b2 else if b2 then false else true

module Nat =
 struct
  (** val sub : nat -> nat -> nat **)

  let rec sub n0 m0 =
    match n0 with
    | O -> n0
    | S k -> (match m0 with
              | O -> n0
              | S l -> sub k l)

  (** val eqb : nat -> nat -> bool **)

  let rec eqb n0 m0 =
    match n0 with
    | O -> (match m0 with
            | O -> true
            | S _ -> false)
    | S n' -> (match m0 with
               | O -> false
               | S m' -> eqb n' m')

  (** val leb : nat -> nat -> bool **)

  let rec leb n0 m0 =
    match n0 with
    | O -> true
    | S n' -> (match m0 with
               | O -> false
               | S m' -> leb n' m')

  (** val ltb : nat -> nat -> bool **)

  let ltb n0 m0 =
    leb (S n0) m0

  (** val max : nat -> nat -> nat **)

  let rec max n0 m0 =
    match n0 with
    | O -> m0
    | S n' -> (match m0 with
               | O -> n0
               | S m' -> S (max n' m'))

  (** val min : nat -> nat -> nat **)

  let rec min n0 m0 =
    match n0 with
    | O -> O
    | S n' -> (match m0 with
               | O -> O
               | S m' -> S (min n' m'))

  (** val even : nat -> bool **)

  let rec even = function
  | O -> true
  | S n1 -> (match n1 with
             | O -> false
             | S n' -> even n')

  (** val divmod : nat -> nat -> nat -> nat -> nat * nat **)

  let rec divmod x y q u =
    match x with
    | O -> (q, u)
    | S x' ->
      (match u with
       | O -> divmod x' y (S q) y
       | S u' -> divmod x' y q u')

  (** val div : nat -> nat -> nat **)

  let div x y = match y with
  | O -> y
  | S y' -> fst (divmod x y' O y')

  (** val modulo : nat -> nat -> nat **)

  let modulo x = function
  | O -> x
  | S y' -> sub y' (snd (divmod x y' O y'))
 end

(** val tl : 'a1 list -> 'a1 list **)

let tl = function
| [] -> []
| _ :: m0 -> m0

(** val nth_error : 'a1 list -> nat -> 'a1 option **)

let rec nth_error l = function
| O -> (match l with
        | [] -> None
        | x :: _ -> Some x)
| S n1 -> (match l with
           | [] -> None
           | _ :: l0 -> nth_error l0 n1)

(** val removelast : 'a1 list -> 'a1 list **)

let rec removelast = function
| [] -> []
| a :: l0 -> (match l0 with
              | [] -> []
              | _ :: _ -> a :: (removelast l0))

(** val rev : 'a1 list -> 'a1 list **)

let rec rev = function
| [] -> []
| x :: l' -> app (rev l') (x :: [])

(** val concat : 'a1 list list -> 'a1 list **)

let rec concat = function
| [] -> []
| x :: l0 -> app x (concat l0)

(** val map : ('a1 -> 'a2) -> 'a1 list -> 'a2 list **)

let rec map f = function
| [] -> []
| a :: t -> (f a) :: (map f t)

(** val flat_map : ('a1 -> 'a2 list) -> 'a1 list -> 'a2 list **)

let rec flat_map f = function
| [] -> []
| x :: t -> app (f x) (flat_map f t)

(** val fold_left : ('a1 -> 'a2 -> 'a1) -> 'a2 list -> 'a1 -> 'a1 **)

let rec fold_left f l a0 =
  match l with
  | [] -> a0
  | b :: t -> fold_left f t (f a0 b)

(** val existsb : ('a1 -> bool) -> 'a1 list -> bool **)

let rec existsb f = function
| [] -> false
| a :: l0 -> (||) (f a) (existsb f l0)

(** val forallb : ('a1 -> bool) -> 'a1 list -> bool **)

let rec forallb f = function
| [] -> true
| a :: l0 -> (&&) (f a) (forallb f l0)

(** val filter : ('a1 -> bool) -> 'a1 list -> 'a1 list **)

let rec filter f = function
| [] -> []
| x :: l0 -> if f x then x :: (filter f l0) else filter f l0

(** val find : ('a1 -> bool) -> 'a1 list -> 'a1 option **)

let rec find f = function
| [] -> None
| x :: tl0 -> if f x then Some x else find f tl0

(** val combine : 'a1 list -> 'a2 list -> ('a1 * 'a2) list **)

let rec combine l l' =
  match l with
  | [] -> []
  | x :: tl0 ->
    (match l' with
     | [] -> []
     | y :: tl' -> (x, y) :: (combine tl0 tl'))

(** val firstn : nat -> 'a1 list -> 'a1 list **)

let rec firstn n0 l =
  match n0 with
  | O -> []
  | S n1 -> (match l with
             | [] -> []
             | a :: l0 -> a :: (firstn n1 l0))

(** val skipn : nat -> 'a1 list -> 'a1 list **)

let rec skipn n0 l =
  match n0 with
  | O -> l
  | S n1 -> (match l with
             | [] -> []
             | _ :: l0 -> skipn n1 l0)

(** val seq : nat -> nat -> nat list **)

let rec seq start = function
| O -> []
| S len0 -> start :: (seq (S start) len0)

(** val repeat : 'a1 -> nat -> 'a1 list **)

let rec repeat x = function
| O -> []
| S k -> x :: (repeat x k)

type positive =
| XI of positive
| XO of positive
| XH

type n =
| N0
| Npos of positive

type z =
| Z0
| Zpos of positive
| Zneg of positive

module Pos =
 struct
  type mask =
  | IsNul
  | IsPos of positive
  | IsNeg
 end

module Coq_Pos =
 struct
  (** val succ : positive -> positive **)

  let rec succ = function
  | XI p -> XO (succ p)
  | XO p -> XI p
  | XH -> XO XH

  (** val add : positive -> positive -> positive **)

  let rec add x y =
    match x with
    | XI p ->
      (match y with
       | XI q -> XO (add_carry p q)
       | XO q -> XI (add p q)
       | XH -> XO (succ p))
    | XO p ->
      (match y with
       | XI q -> XI (add p q)
       | XO q -> XO (add p q)
       | XH -> XI p)
    | XH -> (match y with
             | XI q -> XO (succ q)
             | XO q -> XI q
             | XH -> XO XH)

  (** val add_carry : positive -> positive -> positive **)

  and add_carry x y =
    match x with
    | XI p ->
      (match y with
       | XI q -> XI (add_carry p q)
       | XO q -> XO (add_carry p q)
       | XH -> XI (succ p))
    | XO p ->
      (match y with
       | XI q -> XO (add_carry p q)
       | XO q -> XI (add p q)
       | XH -> XO (succ p))
    | XH ->
      (match y with
       | XI q -> XI (succ q)
       | XO q -> XO (succ q)
       | XH -> XI XH)

  (** val pred_double : positive -> positive **)

  let rec pred_double = function
  | XI p -> XI (XO p)
  | XO p -> XI (pred_double p)
  | XH -> XH

  type mask = Pos.mask =
  | IsNul
  | IsPos of positive
  | IsNeg

  (** val succ_double_mask : mask -> mask **)

  let succ_double_mask = function
  | IsNul -> IsPos XH
  | IsPos p -> IsPos (XI p)
  | IsNeg -> IsNeg

  (** val double_mask : mask -> mask **)

  let double_mask = function
  | IsPos p -> IsPos (XO p)
  | x0 -> x0

  (** val double_pred_mask : positive -> mask **)

  let double_pred_mask = function
  | XI p -> IsPos (XO (XO p))
  | XO p -> IsPos (XO (pred_double p))
  | XH -> IsNul

  (** val sub_mask : positive -> positive -> mask **)

  let rec sub_mask x y =
    match x with
    | XI p ->
      (match y with
       | XI q -> double_mask (sub_mask p q)
       | XO q -> succ_double_mask (sub_mask p q)
       | XH -> IsPos (XO p))
    | XO p ->
      (match y with
       | XI q -> succ_double_mask (sub_mask_carry p q)
       | XO q -> double_mask (sub_mask p q)
       | XH -> IsPos (pred_double p))
    | XH -> (match y with
             | XH -> IsNul
             | _ -> IsNeg)

  (** val sub_mask_carry : positive -> positive -> mask **)

  and sub_mask_carry x y =
    match x with
    | XI p ->
      (match y with
       | XI q -> succ_double_mask (sub_mask_carry p q)
       | XO q -> double_mask (sub_mask p q)
       | XH -> IsPos (pred_double p))
    | XO p ->
      (match y with
       | XI q -> double_mask (sub_mask_carry p q)
       | XO q -> succ_double_mask (sub_mask_carry p q)
       | XH -> double_pred_mask p)
    | XH -> IsNeg

  (** val mul : positive -> positive -> positive **)

  let rec mul x y =
    match x with
    | XI p -> add y (XO (mul p y))
    | XO p -> XO (mul p y)
    | XH -> y

  (** val compare_cont : comparison -> positive -> positive -> comparison **)

  let rec compare_cont r x y =
    match x with
    | XI p ->
      (match y with
       | XI q -> compare_cont r p q
       | XO q -> compare_cont Gt p q
       | XH -> Gt)
    | XO p ->
      (match y with
       | XI q -> compare_cont Lt p q
       | XO q -> compare_cont r p q
       | XH -> Gt)
    | XH -> (match y with
             | XH -> r
             | _ -> Lt)

  (** val compare : positive -> positive -> comparison **)

  let compare =
    compare_cont Eq

  (** val eqb : positive -> positive -> bool **)

  let rec eqb p q =
    match p with
    | XI p1 -> (match q with
                | XI q0 -> eqb p1 q0
                | _ -> false)
    | XO p1 -> (match q with
                | XO q0 -> eqb p1 q0
                | _ -> false)
    | XH -> (match q with
             | XH -> true
             | _ -> false)

  (** val iter_op : ('a1 -> 'a1 -> 'a1) -> positive -> 'a1 -> 'a1 **)

  let rec iter_op op p a =
    match p with
    | XI p1 -> op a (iter_op op p1 (op a a))
    | XO p1 -> iter_op op p1 (op a a)
    | XH -> a

  (** val to_nat : positive -> nat **)

  let to_nat x =
    iter_op Coq__1.add x (S O)

  (** val of_succ_nat : nat -> positive **)

  let rec of_succ_nat = function
  | O -> XH
  | S x -> succ (of_succ_nat x)
 end

module N =
 struct
  (** val succ_double : n -> n **)

  let succ_double = function
  | N0 -> Npos XH
  | Npos p -> Npos (XI p)

  (** val double : n -> n **)

  let double = function
  | N0 -> N0
  | Npos p -> Npos (XO p)

  (** val add : n -> n -> n **)

  let add n0 m0 =
    match n0 with
    | N0 -> m0
    | Npos p -> (match m0 with
                 | N0 -> n0
                 | Npos q -> Npos (Coq_Pos.add p q))

  (** val sub : n -> n -> n **)

  let sub n0 m0 =
    match n0 with
    | N0 -> N0
    | Npos n' ->
      (match m0 with
       | N0 -> n0
       | Npos m' ->
         (match Coq_Pos.sub_mask n' m' with
          | Coq_Pos.IsPos p -> Npos p
          | _ -> N0))

  (** val mul : n -> n -> n **)

  let mul n0 m0 =
    match n0 with
    | N0 -> N0
    | Npos p -> (match m0 with
                 | N0 -> N0
                 | Npos q -> Npos (Coq_Pos.mul p q))

  (** val compare : n -> n -> comparison **)

  let compare n0 m0 =
    match n0 with
    | N0 -> (match m0 with
             | N0 -> Eq
             | Npos _ -> Lt)
    | Npos n' -> (match m0 with
                  | N0 -> Gt
                  | Npos m' -> Coq_Pos.compare n' m')

  (** val eqb : n -> n -> bool **)

  let eqb n0 m0 =
    match n0 with
    | N0 -> (match m0 with
             | N0 -> true
             | Npos _ -> false)
    | Npos p -> (match m0 with
                 | N0 -> false
                 | Npos q -> Coq_Pos.eqb p q)

  (** val leb : n -> n -> bool **)

  let leb x y =
    match compare x y with
    | Gt -> false
    | _ -> true

  (** val ltb : n -> n -> bool **)

  let ltb x y =
    match compare x y with
    | Lt -> true
    | _ -> false

  (** val pos_div_eucl : positive -> n -> n * n **)

  let rec pos_div_eucl a b =
    match a with
    | XI a' ->
      let (q, r) = pos_div_eucl a' b in
      let r' = succ_double r in
      if leb b r' then ((succ_double q), (sub r' b)) else ((double q), r')
    | XO a' ->
      let (q, r) = pos_div_eucl a' b in
      let r' = double r in
      if leb b r' then ((succ_double q), (sub r' b)) else ((double q), r')
    | XH ->
      (match b with
       | N0 -> (N0, (Npos XH))
       | Npos p -> (match p with
                    | XH -> ((Npos XH), N0)
                    | _ -> (N0, (Npos XH))))

  (** val div_eucl : n -> n -> n * n **)

  let div_eucl a b =
    match a with
    | N0 -> (N0, N0)
    | Npos na -> (match b with
                  | N0 -> (N0, a)
                  | Npos _ -> pos_div_eucl na b)

  (** val div : n -> n -> n **)

  let div a b =
    fst (div_eucl a b)

  (** val modulo : n -> n -> n **)

  let modulo a b =
    snd (div_eucl a b)

  (** val to_nat : n -> nat **)

  let to_nat = function
  | N0 -> O
  | Npos p -> Coq_Pos.to_nat p

  (** val of_nat : nat -> n **)

  let of_nat = function
  | O -> N0
  | S n' -> Npos (Coq_Pos.of_succ_nat n')
 end

module Z =
 struct
  (** val double : z -> z **)

  let double = function
  | Z0 -> Z0
  | Zpos p -> Zpos (XO p)
  | Zneg p -> Zneg (XO p)

  (** val succ_double : z -> z **)

  let succ_double = function
  | Z0 -> Zpos XH
  | Zpos p -> Zpos (XI p)
  | Zneg p -> Zneg (Coq_Pos.pred_double p)

  (** val pred_double : z -> z **)

  let pred_double = function
  | Z0 -> Zneg XH
  | Zpos p -> Zpos (Coq_Pos.pred_double p)
  | Zneg p -> Zneg (XI p)

  (** val pos_sub : positive -> positive -> z **)

  let rec pos_sub x y =
    match x with
    | XI p ->
      (match y with
       | XI q -> double (pos_sub p q)
       | XO q -> succ_double (pos_sub p q)
       | XH -> Zpos (XO p))
    | XO p ->
      (match y with
       | XI q -> pred_double (pos_sub p q)
       | XO q -> double (pos_sub p q)
       | XH -> Zpos (Coq_Pos.pred_double p))
    | XH ->
      (match y with
       | XI q -> Zneg (XO q)
       | XO q -> Zneg (Coq_Pos.pred_double q)
       | XH -> Z0)

  (** val add : z -> z -> z **)

  let add x y =
    match x with
    | Z0 -> y
    | Zpos x' ->
      (match y with
       | Z0 -> x
       | Zpos y' -> Zpos (Coq_Pos.add x' y')
       | Zneg y' -> pos_sub x' y')
    | Zneg x' ->
      (match y with
       | Z0 -> x
       | Zpos y' -> pos_sub y' x'
       | Zneg y' -> Zneg (Coq_Pos.add x' y'))

  (** val opp : z -> z **)

  let opp = function
  | Z0 -> Z0
  | Zpos x0 -> Zneg x0
  | Zneg x0 -> Zpos x0

  (** val sub : z -> z -> z **)

  let sub m0 n0 =
    add m0 (opp n0)

  (** val mul : z -> z -> z **)

  let mul x y =
    match x with
    | Z0 -> Z0
    | Zpos x' ->
      (match y with
       | Z0 -> Z0
       | Zpos y' -> Zpos (Coq_Pos.mul x' y')
       | Zneg y' -> Zneg (Coq_Pos.mul x' y'))
    | Zneg x' ->
      (match y with
       | Z0 -> Z0
       | Zpos y' -> Zneg (Coq_Pos.mul x' y')
       | Zneg y' -> Zpos (Coq_Pos.mul x' y'))

  (** val compare : z -> z -> comparison **)

  let compare x y =
    match x with
    | Z0 -> (match y with
             | Z0 -> Eq
             | Zpos _ -> Lt
             | Zneg _ -> Gt)
    | Zpos x' -> (match y with
                  | Zpos y' -> Coq_Pos.compare x' y'
                  | _ -> Gt)
    | Zneg x' ->
      (match y with
       | Zneg y' -> compOpp (Coq_Pos.compare x' y')
       | _ -> Lt)

  (** val leb : z -> z -> bool **)

  let leb x y =
    match compare x y with
    | Gt -> false
    | _ -> true

  (** val ltb : z -> z -> bool **)

  let ltb x y =
    match compare x y with
    | Lt -> true
    | _ -> false

  (** val eqb : z -> z -> bool **)

  let eqb x y =
    match x with
    | Z0 -> (match y with
             | Z0 -> true
             | _ -> false)
    | Zpos p -> (match y with
                 | Zpos q -> Coq_Pos.eqb p q
                 | _ -> false)
    | Zneg p -> (match y with
                 | Zneg q -> Coq_Pos.eqb p q
                 | _ -> false)

  (** val max : z -> z -> z **)

  let max n0 m0 =
    match compare n0 m0 with
    | Lt -> m0
    | _ -> n0

  (** val min : z -> z -> z **)

  let min n0 m0 =
    match compare n0 m0 with
    | Gt -> m0
    | _ -> n0

  (** val abs : z -> z **)

  let abs = function
  | Zneg p -> Zpos p
  | x -> x

  (** val to_nat : z -> nat **)

  let to_nat = function
  | Zpos p -> Coq_Pos.to_nat p
  | _ -> O

  (** val of_N : n -> z **)

  let of_N = function
  | N0 -> Z0
  | Npos p -> Zpos p
 end

type 'a res =
| Ok of 'a
| Panic

(** val omap : ('a1 -> 'a2) -> 'a1 option -> 'a2 option **)

let omap f = function
| Some a -> Some (f a)
| None -> None

type str = n list

(** val clen : n -> nat **)

let clen c =
  if N.ltb c (Npos (XO (XO (XO (XO (XO (XO (XO XH))))))))
  then S O
  else if N.ltb c (Npos (XO (XO (XO (XO (XO (XO (XO (XO (XO (XO (XO
            XH))))))))))))
       then S (S O)
       else if N.ltb c (Npos (XO (XO (XO (XO (XO (XO (XO (XO (XO (XO (XO (XO
                 (XO (XO (XO (XO XH)))))))))))))))))
            then S (S (S O))
            else S (S (S (S O)))

(** val blen : str -> nat **)

let rec blen = function
| [] -> O
| c :: t -> add (clen c) (blen t)

(** val valid_char : n -> bool **)

let valid_char c =
  (||)
    (N.ltb c (Npos (XO (XO (XO (XO (XO (XO (XO (XO (XO (XO (XO (XI (XI (XO
      (XI XH)))))))))))))))))
    ((&&)
      (N.leb (Npos (XO (XO (XO (XO (XO (XO (XO (XO (XO (XO (XO (XO (XO (XI
        (XI XH)))))))))))))))) c)
      (N.leb c (Npos (XI (XI (XI (XI (XI (XI (XI (XI (XI (XI (XI (XI (XI (XI
        (XI (XI (XO (XO (XO (XO XH)))))))))))))))))))))))

(** val bsplit : str -> nat -> (str * str) option **)

let rec bsplit s p = match p with
| O -> Some ([], s)
| S _ ->
  (match s with
   | [] -> None
   | c :: t ->
     if Nat.leb (clen c) p
     then (match bsplit t (sub p (clen c)) with
           | Some p1 -> let (l, r) = p1 in Some ((c :: l), r)
           | None -> None)
     else None)

(** val is_boundary : str -> nat -> bool **)

let is_boundary s p =
  match bsplit s p with
  | Some _ -> true
  | None -> false

(** val str_eqb : str -> str -> bool **)

let rec str_eqb a b =
  match a with
  | [] -> (match b with
           | [] -> true
           | _ :: _ -> false)
  | x :: a' ->
    (match b with
     | [] -> false
     | y :: b' -> (&&) (N.eqb x y) (str_eqb a' b'))

(** val prefix_b : str -> str -> bool **)

let rec prefix_b p s =
  match p with
  | [] -> true
  | x :: p' ->
    (match s with
     | [] -> false
     | y :: s' -> (&&) (N.eqb x y) (prefix_b p' s'))

(** val find_sub : str -> str -> nat option **)

let rec find_sub t s =
  if prefix_b t s
  then Some O
  else (match s with
        | [] -> None
        | c :: s' ->
          (match find_sub t s' with
           | Some k -> Some (add (clen c) k)
           | None -> None))

type gcat =
| GC_Any
| GC_CR
| GC_Control
| GC_Extend
| GC_ExtPict
| GC_InCBConsonant
| GC_L
| GC_LF
| GC_LV
| GC_LVT
| GC_Prepend
| GC_RI
| GC_SpacingMark
| GC_T
| GC_V
| GC_ZWJ

type uData = { u_is_whitespace : (n -> bool);
               u_is_alphanumeric : (n -> bool);
               u_is_alphabetic : (n -> bool); u_is_control : (n -> bool);
               u_is_lowercase : (n -> bool); u_is_uppercase : (n -> bool);
               u_to_upper : (n -> n list); u_to_lower : (n -> n list);
               u_width : (n -> nat); u_gcat : (n -> gcat);
               u_incb_extend : (n -> bool); u_incb_linker : (n -> bool) }

(** val gcat_eqb : gcat -> gcat -> bool **)

let gcat_eqb a b =
  match a with
  | GC_Any -> (match b with
               | GC_Any -> true
               | _ -> false)
  | GC_CR -> (match b with
              | GC_CR -> true
              | _ -> false)
  | GC_Control -> (match b with
                   | GC_Control -> true
                   | _ -> false)
  | GC_Extend -> (match b with
                  | GC_Extend -> true
                  | _ -> false)
  | GC_ExtPict -> (match b with
                   | GC_ExtPict -> true
                   | _ -> false)
  | GC_InCBConsonant -> (match b with
                         | GC_InCBConsonant -> true
                         | _ -> false)
  | GC_L -> (match b with
             | GC_L -> true
             | _ -> false)
  | GC_LF -> (match b with
              | GC_LF -> true
              | _ -> false)
  | GC_LV -> (match b with
              | GC_LV -> true
              | _ -> false)
  | GC_LVT -> (match b with
               | GC_LVT -> true
               | _ -> false)
  | GC_Prepend -> (match b with
                   | GC_Prepend -> true
                   | _ -> false)
  | GC_RI -> (match b with
              | GC_RI -> true
              | _ -> false)
  | GC_SpacingMark -> (match b with
                       | GC_SpacingMark -> true
                       | _ -> false)
  | GC_T -> (match b with
             | GC_T -> true
             | _ -> false)
  | GC_V -> (match b with
             | GC_V -> true
             | _ -> false)
  | GC_ZWJ -> (match b with
               | GC_ZWJ -> true
               | _ -> false)

(** val gcat_of : uData -> n -> gcat **)

let gcat_of u c =
  if N.leb c (Npos (XO (XI (XI (XI (XI (XI XH)))))))
  then if N.leb (Npos (XO (XO (XO (XO (XO XH)))))) c
       then GC_Any
       else if N.eqb c (Npos (XO (XI (XO XH))))
            then GC_LF
            else if N.eqb c (Npos (XI (XO (XI XH))))
                 then GC_CR
                 else GC_Control
  else u.u_gcat c

type pair_result =
| PNotBreak
| PBreak
| PExtended
| PInCb
| PRegional
| PEmoji

(** val is_ctl : gcat -> bool **)

let is_ctl = function
| GC_CR -> true
| GC_Control -> true
| GC_LF -> true
| _ -> false

(** val check_pair : gcat -> gcat -> pair_result **)

let check_pair b a =
  match b with
  | GC_CR ->
    (match a with
     | GC_LF -> PNotBreak
     | _ ->
       if is_ctl b
       then PBreak
       else if is_ctl a
            then PBreak
            else (match b with
                  | GC_L ->
                    (match a with
                     | GC_Extend -> PNotBreak
                     | GC_InCBConsonant -> PInCb
                     | GC_L -> PNotBreak
                     | GC_LV -> PNotBreak
                     | GC_LVT -> PNotBreak
                     | GC_SpacingMark -> PExtended
                     | GC_V -> PNotBreak
                     | GC_ZWJ -> PNotBreak
                     | _ -> PBreak)
                  | GC_LV ->
                    (match a with
                     | GC_Extend -> PNotBreak
                     | GC_InCBConsonant -> PInCb
                     | GC_SpacingMark -> PExtended
                     | GC_T -> PNotBreak
                     | GC_V -> PNotBreak
                     | GC_ZWJ -> PNotBreak
                     | _ -> PBreak)
                  | GC_LVT ->
                    (match a with
                     | GC_Extend -> PNotBreak
                     | GC_InCBConsonant -> PInCb
                     | GC_SpacingMark -> PExtended
                     | GC_T -> PNotBreak
                     | GC_ZWJ -> PNotBreak
                     | _ -> PBreak)
                  | GC_Prepend ->
                    (match a with
                     | GC_Extend -> PNotBreak
                     | GC_ZWJ -> PNotBreak
                     | _ -> PExtended)
                  | GC_RI ->
                    (match a with
                     | GC_Extend -> PNotBreak
                     | GC_InCBConsonant -> PInCb
                     | GC_RI -> PRegional
                     | GC_SpacingMark -> PExtended
                     | GC_ZWJ -> PNotBreak
                     | _ -> PBreak)
                  | GC_T ->
                    (match a with
                     | GC_Extend -> PNotBreak
                     | GC_InCBConsonant -> PInCb
                     | GC_SpacingMark -> PExtended
                     | GC_T -> PNotBreak
                     | GC_ZWJ -> PNotBreak
                     | _ -> PBreak)
                  | GC_V ->
                    (match a with
                     | GC_Extend -> PNotBreak
                     | GC_InCBConsonant -> PInCb
                     | GC_SpacingMark -> PExtended
                     | GC_T -> PNotBreak
                     | GC_V -> PNotBreak
                     | GC_ZWJ -> PNotBreak
                     | _ -> PBreak)
                  | GC_ZWJ ->
                    (match a with
                     | GC_Extend -> PNotBreak
                     | GC_ExtPict -> PEmoji
                     | GC_InCBConsonant -> PInCb
                     | GC_SpacingMark -> PExtended
                     | GC_ZWJ -> PNotBreak
                     | _ -> PBreak)
                  | _ ->
                    (match a with
                     | GC_Extend -> PNotBreak
                     | GC_InCBConsonant -> PInCb
                     | GC_SpacingMark -> PExtended
                     | GC_ZWJ -> PNotBreak
                     | _ -> PBreak)))
  | _ ->
    if is_ctl b
    then PBreak
    else if is_ctl a
         then PBreak
         else (match b with
               | GC_L ->
                 (match a with
                  | GC_Extend -> PNotBreak
                  | GC_InCBConsonant -> PInCb
                  | GC_L -> PNotBreak
                  | GC_LV -> PNotBreak
                  | GC_LVT -> PNotBreak
                  | GC_SpacingMark -> PExtended
                  | GC_V -> PNotBreak
                  | GC_ZWJ -> PNotBreak
                  | _ -> PBreak)
               | GC_LV ->
                 (match a with
                  | GC_Extend -> PNotBreak
                  | GC_InCBConsonant -> PInCb
                  | GC_SpacingMark -> PExtended
                  | GC_T -> PNotBreak
                  | GC_V -> PNotBreak
                  | GC_ZWJ -> PNotBreak
                  | _ -> PBreak)
               | GC_LVT ->
                 (match a with
                  | GC_Extend -> PNotBreak
                  | GC_InCBConsonant -> PInCb
                  | GC_SpacingMark -> PExtended
                  | GC_T -> PNotBreak
                  | GC_ZWJ -> PNotBreak
                  | _ -> PBreak)
               | GC_Prepend ->
                 (match a with
                  | GC_Extend -> PNotBreak
                  | GC_ZWJ -> PNotBreak
                  | _ -> PExtended)
               | GC_RI ->
                 (match a with
                  | GC_Extend -> PNotBreak
                  | GC_InCBConsonant -> PInCb
                  | GC_RI -> PRegional
                  | GC_SpacingMark -> PExtended
                  | GC_ZWJ -> PNotBreak
                  | _ -> PBreak)
               | GC_T ->
                 (match a with
                  | GC_Extend -> PNotBreak
                  | GC_InCBConsonant -> PInCb
                  | GC_SpacingMark -> PExtended
                  | GC_T -> PNotBreak
                  | GC_ZWJ -> PNotBreak
                  | _ -> PBreak)
               | GC_V ->
                 (match a with
                  | GC_Extend -> PNotBreak
                  | GC_InCBConsonant -> PInCb
                  | GC_SpacingMark -> PExtended
                  | GC_T -> PNotBreak
                  | GC_V -> PNotBreak
                  | GC_ZWJ -> PNotBreak
                  | _ -> PBreak)
               | GC_ZWJ ->
                 (match a with
                  | GC_Extend -> PNotBreak
                  | GC_ExtPict -> PEmoji
                  | GC_InCBConsonant -> PInCb
                  | GC_SpacingMark -> PExtended
                  | GC_ZWJ -> PNotBreak
                  | _ -> PBreak)
               | _ ->
                 (match a with
                  | GC_Extend -> PNotBreak
                  | GC_InCBConsonant -> PInCb
                  | GC_SpacingMark -> PExtended
                  | GC_ZWJ -> PNotBreak
                  | _ -> PBreak))

(** val incb_break : uData -> n list -> bool -> bool **)

let rec incb_break u rb seen_linker =
  match rb with
  | [] -> true
  | c :: t ->
    if u.u_incb_linker c
    then incb_break u t true
    else if u.u_incb_extend c
         then incb_break u t seen_linker
         else negb
                ((&&) seen_linker (gcat_eqb (gcat_of u c) GC_InCBConsonant))

(** val ri_run : uData -> n list -> nat **)

let rec ri_run u = function
| [] -> O
| c :: t -> if gcat_eqb (gcat_of u c) GC_RI then S (ri_run u t) else O

(** val emoji_break : uData -> n list -> bool **)

let rec emoji_break u = function
| [] -> true
| c :: t ->
  (match gcat_of u c with
   | GC_Extend -> emoji_break u t
   | GC_ExtPict -> false
   | _ -> true)

(** val is_break : uData -> n list -> n -> bool **)

let is_break u rb a =
  match rb with
  | [] -> true
  | b :: rest ->
    (match check_pair (gcat_of u b) (gcat_of u a) with
     | PBreak -> true
     | PInCb -> incb_break u rb false
     | PRegional -> Nat.even (ri_run u rb)
     | PEmoji -> emoji_break u rest
     | _ -> false)

(** val seg_go : uData -> n list -> n list -> str -> str list **)

let rec seg_go u rb cur = function
| [] -> (match cur with
         | [] -> []
         | _ :: _ -> (rev cur) :: [])
| c :: t ->
  (match cur with
   | [] -> seg_go u (c :: rb) (c :: []) t
   | _ :: _ ->
     if is_break u rb c
     then (rev cur) :: (seg_go u (c :: rb) (c :: []) t)
     else seg_go u (c :: rb) (c :: cur) t)

(** val useg : uData -> str -> str list **)

let useg u s =
  seg_go u [] [] s

(** val encode_char : n -> n list **)

let encode_char c =
  if N.ltb c (Npos (XO (XO (XO (XO (XO (XO (XO XH))))))))
  then c :: []
  else if N.ltb c (Npos (XO (XO (XO (XO (XO (XO (XO (XO (XO (XO (XO
            XH))))))))))))
       then (N.add (Npos (XO (XO (XO (XO (XO (XO (XI XH))))))))
              (N.div c (Npos (XO (XO (XO (XO (XO (XO XH))))))))) :: (
              (N.add (Npos (XO (XO (XO (XO (XO (XO (XO XH))))))))
                (N.modulo c (Npos (XO (XO (XO (XO (XO (XO XH))))))))) :: [])
       else if N.ltb c (Npos (XO (XO (XO (XO (XO (XO (XO (XO (XO (XO (XO (XO
                 (XO (XO (XO (XO XH)))))))))))))))))
            then (N.add (Npos (XO (XO (XO (XO (XO (XI (XI XH))))))))
                   (N.div c (Npos (XO (XO (XO (XO (XO (XO (XO (XO (XO (XO (XO
                     (XO XH))))))))))))))) :: ((N.add (Npos (XO (XO (XO (XO
                                                 (XO (XO (XO XH))))))))
                                                 (N.modulo
                                                   (N.div c (Npos (XO (XO (XO
                                                     (XO (XO (XO XH))))))))
                                                   (Npos (XO (XO (XO (XO (XO
                                                   (XO XH))))))))) :: (
                   (N.add (Npos (XO (XO (XO (XO (XO (XO (XO XH))))))))
                     (N.modulo c (Npos (XO (XO (XO (XO (XO (XO XH))))))))) :: []))
            else (N.add (Npos (XO (XO (XO (XO (XI (XI (XI XH))))))))
                   (N.div c (Npos (XO (XO (XO (XO (XO (XO (XO (XO (XO (XO (XO
                     (XO (XO (XO (XO (XO (XO (XO XH))))))))))))))))))))) :: (
                   (N.add (Npos (XO (XO (XO (XO (XO (XO (XO XH))))))))
                     (N.modulo
                       (N.div c (Npos (XO (XO (XO (XO (XO (XO (XO (XO (XO (XO
                         (XO (XO XH)))))))))))))) (Npos (XO (XO (XO (XO (XO
                       (XO XH))))))))) :: ((N.add (Npos (XO (XO (XO (XO (XO
                                             (XO (XO XH))))))))
                                             (N.modulo
                                               (N.div c (Npos (XO (XO (XO (XO
                                                 (XO (XO XH)))))))) (Npos (XO
                                               (XO (XO (XO (XO (XO XH))))))))) :: (
                   (N.add (Npos (XO (XO (XO (XO (XO (XO (XO XH))))))))
                     (N.modulo c (Npos (XO (XO (XO (XO (XO (XO XH))))))))) :: [])))

(** val encode : str -> n list **)

let encode s =
  flat_map encode_char s

(** val is_cont : n -> bool **)

let is_cont b =
  (&&) (N.leb (Npos (XO (XO (XO (XO (XO (XO (XO XH)))))))) b)
    (N.ltb b (Npos (XO (XO (XO (XO (XO (XO (XI XH)))))))))

(** val decode1 : n list -> (n * n list) option **)

let decode1 = function
| [] -> None
| b0 :: t0 ->
  if N.ltb b0 (Npos (XO (XO (XO (XO (XO (XO (XO XH))))))))
  then Some (b0, t0)
  else if N.ltb b0 (Npos (XO (XO (XO (XO (XO (XO (XI XH))))))))
       then None
       else if N.ltb b0 (Npos (XO (XO (XO (XO (XO (XI (XI XH))))))))
            then (match t0 with
                  | [] -> None
                  | b1 :: t1 ->
                    let c =
                      N.add
                        (N.mul
                          (N.sub b0 (Npos (XO (XO (XO (XO (XO (XO (XI
                            XH))))))))) (Npos (XO (XO (XO (XO (XO (XO
                          XH))))))))
                        (N.sub b1 (Npos (XO (XO (XO (XO (XO (XO (XO
                          XH)))))))))
                    in
                    if (&&) (is_cont b1)
                         (N.leb (Npos (XO (XO (XO (XO (XO (XO (XO XH))))))))
                           c)
                    then Some (c, t1)
                    else None)
            else if N.ltb b0 (Npos (XO (XO (XO (XO (XI (XI (XI XH))))))))
                 then (match t0 with
                       | [] -> None
                       | b1 :: l ->
                         (match l with
                          | [] -> None
                          | b2 :: t2 ->
                            let c =
                              N.add
                                (N.add
                                  (N.mul
                                    (N.sub b0 (Npos (XO (XO (XO (XO (XO (XI
                                      (XI XH))))))))) (Npos (XO (XO (XO (XO
                                    (XO (XO (XO (XO (XO (XO (XO (XO
                                    XH))))))))))))))
                                  (N.mul
                                    (N.sub b1 (Npos (XO (XO (XO (XO (XO (XO
                                      (XO XH))))))))) (Npos (XO (XO (XO (XO
                                    (XO (XO XH)))))))))
                                (N.sub b2 (Npos (XO (XO (XO (XO (XO (XO (XO
                                  XH)))))))))
                            in
                            if (&&)
                                 ((&&) ((&&) (is_cont b1) (is_cont b2))
                                   (N.leb (Npos (XO (XO (XO (XO (XO (XO (XO
                                     (XO (XO (XO (XO XH)))))))))))) c))
                                 (valid_char c)
                            then Some (c, t2)
                            else None))
                 else if N.ltb b0 (Npos (XO (XO (XO (XI (XI (XI (XI XH))))))))
                      then (match t0 with
                            | [] -> None
                            | b1 :: l ->
                              (match l with
                               | [] -> None
                               | b2 :: l0 ->
                                 (match l0 with
                                  | [] -> None
                                  | b3 :: t3 ->
                                    let c =
                                      N.add
                                        (N.add
                                          (N.add
                                            (N.mul
                                              (N.sub b0 (Npos (XO (XO (XO (XO
                                                (XI (XI (XI XH))))))))) (Npos
                                              (XO (XO (XO (XO (XO (XO (XO (XO
                                              (XO (XO (XO (XO (XO (XO (XO (XO
                                              (XO (XO XH))))))))))))))))))))
                                            (N.mul
                                              (N.sub b1 (Npos (XO (XO (XO (XO
                                                (XO (XO (XO XH))))))))) (Npos
                                              (XO (XO (XO (XO (XO (XO (XO (XO
                                              (XO (XO (XO (XO XH)))))))))))))))
                                          (N.mul
                                            (N.sub b2 (Npos (XO (XO (XO (XO
                                              (XO (XO (XO XH))))))))) (Npos
                                            (XO (XO (XO (XO (XO (XO XH)))))))))
                                        (N.sub b3 (Npos (XO (XO (XO (XO (XO
                                          (XO (XO XH)))))))))
                                    in
                                    if (&&)
                                         ((&&)
                                           ((&&)
                                             ((&&) (is_cont b1) (is_cont b2))
                                             (is_cont b3))
                                           (N.leb (Npos (XO (XO (XO (XO (XO
                                             (XO (XO (XO (XO (XO (XO (XO (XO
                                             (XO (XO (XO XH)))))))))))))))))
                                             c))
                                         (N.leb c (Npos (XI (XI (XI (XI (XI
                                           (XI (XI (XI (XI (XI (XI (XI (XI
                                           (XI (XI (XI (XO (XO (XO (XO
                                           XH))))))))))))))))))))))
                                    then Some (c, t3)
                                    else None)))
                      else None

(** val decode_fuel : nat -> n list -> str option **)

let rec decode_fuel fuel bs = match bs with
| [] -> Some []
| _ :: _ ->
  (match fuel with
   | O -> None
   | S f ->
     (match decode1 bs with
      | Some p ->
        let (c, rest) = p in
        (match decode_fuel f rest with
         | Some s -> Some (c :: s)
         | None -> None)
      | None -> None))

(** val decode : n list -> str option **)

let decode bs =
  decode_fuel (length bs) bs

type hist = { h_entries : str list; h_max : nat; h_ign_space : bool;
              h_ign_dups : bool }

(** val hist_new : nat -> bool -> bool -> hist **)

let hist_new max0 ign_space ign_dups =
  { h_entries = []; h_max = max0; h_ign_space = ign_space; h_ign_dups =
    ign_dups }

(** val hlen : hist -> nat **)

let hlen h =
  length h.h_entries

(** val last_opt : 'a1 list -> 'a1 option **)

let rec last_opt = function
| [] -> None
| x :: t -> (match t with
             | [] -> Some x
             | _ :: _ -> last_opt t)

(** val h_ignore : uData -> hist -> str -> bool **)

let h_ignore u h line =
  if Nat.eqb h.h_max O
  then true
  else if match line with
          | [] -> true
          | c :: _ -> (&&) h.h_ign_space (u.u_is_whitespace c)
       then true
       else if h.h_ign_dups
            then (match last_opt h.h_entries with
                  | Some s -> str_eqb s line
                  | None -> false)
            else false

(** val h_insert : hist -> str -> hist **)

let h_insert h line =
  let es = if Nat.eqb (hlen h) h.h_max then tl h.h_entries else h.h_entries in
  { h_entries = (app es (line :: [])); h_max = h.h_max; h_ign_space =
  h.h_ign_space; h_ign_dups = h.h_ign_dups }

(** val h_add : uData -> hist -> str -> hist * bool **)

let h_add u h line =
  if h_ignore u h line then (h, false) else ((h_insert h line), true)

(** val h_set_max_len : hist -> nat -> hist **)

let h_set_max_len h n0 =
  { h_entries =
    (if Nat.ltb n0 (hlen h)
     then skipn (sub (hlen h) n0) h.h_entries
     else h.h_entries); h_max = n0; h_ign_space = h.h_ign_space; h_ign_dups =
    h.h_ign_dups }

(** val h_set_ign_dups : hist -> bool -> hist **)

let h_set_ign_dups h b =
  { h_entries = h.h_entries; h_max = h.h_max; h_ign_space = h.h_ign_space;
    h_ign_dups = b }

(** val h_set_ign_space : hist -> bool -> hist **)

let h_set_ign_space h b =
  { h_entries = h.h_entries; h_max = h.h_max; h_ign_space = b; h_ign_dups =
    h.h_ign_dups }

(** val h_clear : hist -> hist **)

let h_clear h =
  { h_entries = []; h_max = h.h_max; h_ign_space = h.h_ign_space;
    h_ign_dups = h.h_ign_dups }

(** val h_get : hist -> nat -> str option **)

let h_get h i =
  nth_error h.h_entries i

type sdir =
| Forward
| Reverse

(** val find_first :
    (str -> nat option) -> str list -> nat -> ((nat * nat) * str) option **)

let rec find_first test l i =
  match l with
  | [] -> None
  | e0 :: t ->
    (match test e0 with
     | Some c -> Some ((i, c), e0)
     | None -> find_first test t (S i))

(** val h_search_match :
    hist -> str -> nat -> sdir -> (str -> nat option) -> ((nat * nat) * str)
    option **)

let h_search_match h term0 start dir test =
  match term0 with
  | [] -> None
  | _ :: _ ->
    if Nat.leb (hlen h) start
    then None
    else (match dir with
          | Forward ->
            (match find_first test (skipn start h.h_entries) O with
             | Some p ->
               let (p1, e0) = p in
               let (i, c) = p1 in Some (((add i start), c), e0)
             | None -> None)
          | Reverse ->
            (match find_first test
                     (skipn (sub (sub (hlen h) (S O)) start)
                       (rev h.h_entries)) O with
             | Some p ->
               let (p1, e0) = p in
               let (i, c) = p1 in Some (((sub start i), c), e0)
             | None -> None))

(** val h_search :
    hist -> str -> nat -> sdir -> ((nat * nat) * str) option **)

let h_search h term0 start dir =
  h_search_match h term0 start dir (fun e0 -> find_sub term0 e0)

(** val h_starts_with :
    hist -> str -> nat -> sdir -> ((nat * nat) * str) option **)

let h_starts_with h term0 start dir =
  h_search_match h term0 start dir (fun e0 ->
    if prefix_b term0 e0 then Some (blen term0) else None)

type hop =
| HAdd of str
| HAddOwned of str
| HSetMax of nat
| HIgnDups of bool
| HIgnSpace of bool
| HClear
| HGet of nat
| HSearch of str * nat * sdir
| HStartsWith of str * nat * sdir
| HLen

type hout =
| OBool of bool
| OUnit
| OEntry of str option
| OSearch of ((nat * nat) * str) option
| ONat of nat

(** val h_step : uData -> hist -> hop -> hist * hout **)

let h_step u h = function
| HAdd l -> let (h', b) = h_add u h l in (h', (OBool b))
| HAddOwned l -> let (h', b) = h_add u h l in (h', (OBool b))
| HSetMax n0 -> ((h_set_max_len h n0), OUnit)
| HIgnDups b -> ((h_set_ign_dups h b), OUnit)
| HIgnSpace b -> ((h_set_ign_space h b), OUnit)
| HClear -> ((h_clear h), OUnit)
| HGet i -> (h, (OEntry (h_get h i)))
| HSearch (t, s, d) -> (h, (OSearch (h_search h t s d)))
| HStartsWith (t, s, d) -> (h, (OSearch (h_starts_with h t s d)))
| HLen -> (h, (ONat (hlen h)))

(** val h_run : uData -> hist -> hop list -> hist * hout list **)

let rec h_run u h = function
| [] -> (h, [])
| o :: t ->
  let (h1, r) = h_step u h o in let (h2, rs) = h_run u h1 t in (h2, (r :: rs))

(** val file_version_v2 : n list **)

let file_version_v2 =
  (Npos (XI (XI (XO (XO (XO XH)))))) :: ((Npos (XO (XI (XI (XO (XI (XO
    XH))))))) :: ((Npos (XO (XI (XO (XO (XI XH)))))) :: []))

(** val max_line : n **)

let max_line =
  Npos (XO (XO (XO (XO (XO (XO (XO (XO (XO (XO (XO (XO XH))))))))))))

(** val indent_max : nat **)

let indent_max =
  S (S (S (S (S (S (S (S (S (S (S (S (S (S (S (S (S (S (S (S (S (S (S (S (S
    (S (S (S (S (S (S (S O)))))))))))))))))))))))))))))))

(** val default_tab_stop : nat **)

let default_tab_stop =
  S (S (S (S (S (S (S (S O)))))))

(** val default_indent_size : nat **)

let default_indent_size =
  S (S O)

(** val default_completion_prompt_limit : nat **)

let default_completion_prompt_limit =
  S (S (S (S (S (S (S (S (S (S (S (S (S (S (S (S (S (S (S (S (S (S (S (S (S
    (S (S (S (S (S (S (S (S (S (S (S (S (S (S (S (S (S (S (S (S (S (S (S (S
    (S (S (S (S (S (S (S (S (S (S (S (S (S (S (S (S (S (S (S (S (S (S (S (S
    (S (S (S (S (S (S (S (S (S (S (S (S (S (S (S (S (S (S (S (S (S (S (S (S
    (S (S (S
    O)))))))))))))))))))))))))))))))))))))))))))))))))))))))))))))))))))))))))))))))))))))))))))))))))))

(** val default_break_chars : n list **)

let default_break_chars =
  (Npos (XO (XO (XO (XO (XO XH)))))) :: ((Npos (XI (XO (XO XH)))) :: ((Npos
    (XO (XI (XO XH)))) :: ((Npos (XO (XI (XO (XO (XO XH)))))) :: ((Npos (XO
    (XO (XI (XI (XI (XO XH))))))) :: ((Npos (XI (XI (XI (XO (XO
    XH)))))) :: ((Npos (XO (XO (XO (XO (XO (XI XH))))))) :: ((Npos (XO (XO
    (XO (XO (XO (XO XH))))))) :: ((Npos (XO (XO (XI (XO (XO
    XH)))))) :: ((Npos (XO (XI (XI (XI (XI XH)))))) :: ((Npos (XO (XO (XI (XI
    (XI XH)))))) :: ((Npos (XI (XO (XI (XI (XI XH)))))) :: ((Npos (XI (XI (XO
    (XI (XI XH)))))) :: ((Npos (XO (XO (XI (XI (XI (XI XH))))))) :: ((Npos
    (XO (XI (XI (XO (XO XH)))))) :: ((Npos (XI (XI (XO (XI (XI (XI
    XH))))))) :: ((Npos (XO (XO (XO (XI (XO
    XH)))))) :: (N0 :: [])))))))))))))))))

(** val escape_char : n **)

let escape_char =
  Npos (XO (XO (XI (XI (XI (XO XH))))))

(** val double_quotes_special_chars : n list **)

let double_quotes_special_chars =
  (Npos (XO (XI (XO (XO (XO XH)))))) :: ((Npos (XO (XO (XI (XO (XO
    XH)))))) :: ((Npos (XO (XO (XI (XI (XI (XO XH))))))) :: ((Npos (XO (XO
    (XO (XO (XO (XI XH))))))) :: [])))

(** val double_quotes_escape_char : n **)

let double_quotes_escape_char =
  Npos (XO (XO (XI (XI (XI (XO XH))))))

(** val header : n list **)

let header =
  file_version_v2

(** val esc_char : n -> n list **)

let esc_char c =
  if N.eqb c (Npos (XO (XO (XI (XI (XI (XO XH)))))))
  then (Npos (XO (XO (XI (XI (XI (XO XH))))))) :: ((Npos (XO (XO (XI (XI (XI
         (XO XH))))))) :: [])
  else if N.eqb c (Npos (XO (XI (XO XH))))
       then (Npos (XO (XO (XI (XI (XI (XO XH))))))) :: ((Npos (XO (XI (XI (XI
              (XO (XI XH))))))) :: [])
       else if N.eqb c (Npos (XI (XO (XI XH))))
            then (Npos (XO (XO (XI (XI (XI (XO XH))))))) :: ((Npos (XO (XI
                   (XO (XO (XI (XI XH))))))) :: [])
            else c :: []

(** val esc : str -> str **)

let esc s =
  flat_map esc_char s

(** val unesc : str -> str option **)

let rec unesc = function
| [] -> Some []
| c :: t ->
  if N.eqb c (Npos (XO (XO (XI (XI (XI (XO XH)))))))
  then (match t with
        | [] -> Some []
        | d :: t' ->
          if N.eqb d (Npos (XO (XI (XI (XI (XO (XI XH)))))))
          then omap (fun x -> (Npos (XO (XI (XO XH)))) :: x) (unesc t')
          else if N.eqb d (Npos (XO (XO (XI (XI (XI (XO XH)))))))
               then omap (fun x -> (Npos (XO (XO (XI (XI (XI (XO
                      XH))))))) :: x) (unesc t')
               else if N.eqb d (Npos (XO (XI (XO (XO (XI (XI XH)))))))
                    then omap (fun x -> (Npos (XI (XO (XI XH)))) :: x)
                           (unesc t')
                    else None)
  else omap (fun x -> c :: x) (unesc t)

(** val entry_bytes : str -> n list **)

let entry_bytes e0 =
  app (encode (esc e0)) ((Npos (XO (XI (XO XH)))) :: [])

(** val entries_bytes : str list -> n list **)

let entries_bytes es =
  flat_map entry_bytes es

(** val save_bytes : str list -> n list **)

let save_bytes es =
  app header (app ((Npos (XO (XI (XO XH)))) :: []) (entries_bytes es))

(** val split_lines_aux : n list -> n list -> (n list * bool) list **)

let rec split_lines_aux bs cur =
  match bs with
  | [] -> (match cur with
           | [] -> []
           | _ :: _ -> ((rev cur), false) :: [])
  | b :: t ->
    if N.eqb b (Npos (XO (XI (XO XH))))
    then ((rev cur), true) :: (split_lines_aux t [])
    else split_lines_aux t (b :: cur)

(** val split_lines : n list -> (n list * bool) list **)

let split_lines bs =
  split_lines_aux bs []

(** val strip_cr : n list -> n list **)

let strip_cr l =
  match rev l with
  | [] -> l
  | c :: r -> if N.eqb c (Npos (XI (XO (XI XH)))) then rev r else l

(** val decode_line : (n list * bool) -> str option **)

let decode_line = function
| (l, term0) ->
  (match decode l with
   | Some _ -> decode (if term0 then strip_cr l else l)
   | None -> None)

type fhist = { f_mem : hist; f_new : nat; f_pinfo : (nat * nat) option }

(** val f_new_cfg : nat -> bool -> bool -> fhist **)

let f_new_cfg max0 igs igd =
  { f_mem = (hist_new max0 igs igd); f_new = O; f_pinfo = None }

(** val f_entries : fhist -> str list **)

let f_entries f =
  f.f_mem.h_entries

(** val f_add : uData -> fhist -> str -> fhist * bool **)

let f_add u f l =
  let (m0, b) = h_add u f.f_mem l in
  if b
  then ({ f_mem = m0; f_new = (Nat.min (S f.f_new) (hlen m0)); f_pinfo =
         f.f_pinfo }, true)
  else (f, false)

(** val f_set_max_len : fhist -> nat -> fhist **)

let f_set_max_len f n0 =
  { f_mem = (h_set_max_len f.f_mem n0); f_new = (Nat.min f.f_new n0);
    f_pinfo = f.f_pinfo }

(** val f_clear : fhist -> fhist **)

let f_clear f =
  { f_mem = (h_clear f.f_mem); f_new = O; f_pinfo = f.f_pinfo }

type loadres =
| LOk of fhist * bool
| LErr of fhist

(** val load_rest :
    uData -> bool -> fhist -> bool -> (n list * bool) list -> loadres **)

let rec load_rest u v2 f app0 = function
| [] -> LOk ({ f_mem = f.f_mem; f_new = O; f_pinfo = f.f_pinfo }, app0)
| lb0 :: t ->
  (match decode_line lb0 with
   | Some line ->
     (match line with
      | [] -> load_rest u v2 f app0 t
      | _ :: _ ->
        let line' =
          if v2
          then (match unesc line with
                | Some s -> s
                | None -> line)
          else line
        in
        let (f', b) = f_add u f line' in load_rest u v2 f' ((&&) app0 b) t)
   | None -> LErr f)

(** val load_from : uData -> fhist -> n list -> loadres **)

let load_from u f bytes =
  match split_lines bytes with
  | [] -> LOk ({ f_mem = f.f_mem; f_new = O; f_pinfo = f.f_pinfo }, false)
  | lb0 :: t ->
    (match decode_line lb0 with
     | Some line ->
       if str_eqb line header
       then load_rest u true f true t
       else let (f', _) = f_add u f line in load_rest u false f' false t
     | None -> LErr f)

type fsys = { fs_content : n list option; fs_mtime : nat }

(** val fs_write : fsys -> n list -> bool -> fsys **)

let fs_write fs bytes tick =
  { fs_content = (Some bytes); fs_mtime =
    (if tick then S fs.fs_mtime else fs.fs_mtime) }

type ioresult =
| IoOk
| IoErr

(** val f_save : fhist -> fsys -> bool -> (fhist * fsys) * ioresult **)

let f_save f fs tick =
  if (||) (Nat.eqb (hlen f.f_mem) O) (Nat.eqb f.f_new O)
  then ((f, fs), IoOk)
  else let fs' = fs_write fs (save_bytes (f_entries f)) tick in
       (({ f_mem = f.f_mem; f_new = O; f_pinfo = (Some (fs'.fs_mtime,
       (hlen f.f_mem))) }, fs'), IoOk)

(** val can_just_append : fhist -> fsys -> bool **)

let can_just_append f fs =
  match f.f_pinfo with
  | Some p ->
    let (pm, psize) = p in
    if (||)
         ((||) (negb (Nat.eqb pm fs.fs_mtime)) (Nat.leb f.f_mem.h_max psize))
         (Nat.ltb f.f_mem.h_max (add psize f.f_new))
    then false
    else true
  | None -> false

(** val pending : fhist -> str list **)

let pending f =
  skipn (sub (hlen f.f_mem) f.f_new) (f_entries f)

(** val f_add_all : uData -> fhist -> str list -> fhist **)

let rec f_add_all u f = function
| [] -> f
| l :: t -> f_add_all u (fst (f_add u f l)) t

(** val f_append :
    uData -> fhist -> fsys -> bool -> (fhist * fsys) * ioresult **)

let f_append u f fs tick =
  if (||) (Nat.eqb (hlen f.f_mem) O) (Nat.eqb f.f_new O)
  then ((f, fs), IoOk)
  else (match fs.fs_content with
        | Some content ->
          if Nat.eqb f.f_new f.f_mem.h_max
          then f_save f fs tick
          else if can_just_append f fs
               then let fs' =
                      fs_write fs (app content (entries_bytes (pending f)))
                        tick
                    in
                    let size =
                      match f.f_pinfo with
                      | Some p -> let (_, s) = p in add s f.f_new
                      | None -> O
                    in
                    (({ f_mem = f.f_mem; f_new = O; f_pinfo = (Some
                    (fs'.fs_mtime, size)) }, fs'), IoOk)
               else let other =
                      f_new_cfg f.f_mem.h_max f.f_mem.h_ign_space
                        f.f_mem.h_ign_dups
                    in
                    (match load_from u other content with
                     | LOk (other1, _) ->
                       let other2 = f_add_all u other1 (pending f) in
                       let fs' =
                         fs_write fs (save_bytes (f_entries other2)) tick
                       in
                       (({ f_mem = f.f_mem; f_new = O; f_pinfo = (Some
                       (fs'.fs_mtime, (hlen other2.f_mem))) }, fs'), IoOk)
                     | LErr _ -> ((f, fs), IoErr))
        | None -> f_save f fs tick)

(** val f_load : uData -> fhist -> fsys -> fhist * ioresult **)

let f_load u f fs =
  match fs.fs_content with
  | Some content ->
    let len = hlen f.f_mem in
    (match load_from u f content with
     | LOk (f', appendable) ->
       if appendable
       then ({ f_mem = f'.f_mem; f_new = f'.f_new; f_pinfo = (Some
              (fs.fs_mtime, (sub (hlen f'.f_mem) len))) }, IoOk)
       else ({ f_mem = f'.f_mem; f_new = f'.f_new; f_pinfo = None }, IoOk)
     | LErr f' -> (f', IoErr))
  | None -> (f, IoErr)

type fop =
| FNew of nat * nat * bool * bool
| FAdd of nat * str
| FSave of nat * bool
| FAppend of nat * bool
| FLoad of nat
| FSetMax of nat * nat
| FClear of nat
| FPut of n list * bool
| FRemove

type world = { w_sessions : (nat * fhist) list; w_fs : fsys }

(** val w_init : world **)

let w_init =
  { w_sessions = []; w_fs = { fs_content = None; fs_mtime = O } }

(** val sess_get : (nat * fhist) list -> nat -> fhist option **)

let rec sess_get ss i =
  match ss with
  | [] -> None
  | p :: t -> let (j, f) = p in if Nat.eqb i j then Some f else sess_get t i

(** val sess_set :
    (nat * fhist) list -> nat -> fhist -> (nat * fhist) list **)

let rec sess_set ss i f =
  match ss with
  | [] -> (i, f) :: []
  | p :: t ->
    let (j, g) = p in
    if Nat.eqb i j then (j, f) :: t else (j, g) :: (sess_set t i f)

type fout =
| FoUnit
| FoBool of bool
| FoIo of ioresult
| FoNoSession

(** val w_step : uData -> world -> fop -> world * fout **)

let w_step u w o =
  let ss = w.w_sessions in
  let fs = w.w_fs in
  let with_sess = fun i k ->
    match sess_get ss i with
    | Some f -> k f
    | None -> (w, FoNoSession)
  in
  (match o with
   | FNew (i, max0, igs, igd) ->
     ({ w_sessions = (sess_set ss i (f_new_cfg max0 igs igd)); w_fs = fs },
       FoUnit)
   | FAdd (i, l) ->
     with_sess i (fun f ->
       let (f', b) = f_add u f l in
       ({ w_sessions = (sess_set ss i f'); w_fs = fs }, (FoBool b)))
   | FSave (i, tick) ->
     with_sess i (fun f ->
       let (p, r) = f_save f fs tick in
       let (f', fs') = p in
       ({ w_sessions = (sess_set ss i f'); w_fs = fs' }, (FoIo r)))
   | FAppend (i, tick) ->
     with_sess i (fun f ->
       let (p, r) = f_append u f fs tick in
       let (f', fs') = p in
       ({ w_sessions = (sess_set ss i f'); w_fs = fs' }, (FoIo r)))
   | FLoad i ->
     with_sess i (fun f ->
       let (f', r) = f_load u f fs in
       ({ w_sessions = (sess_set ss i f'); w_fs = fs }, (FoIo r)))
   | FSetMax (i, n0) ->
     with_sess i (fun f -> ({ w_sessions =
       (sess_set ss i (f_set_max_len f n0)); w_fs = fs }, FoUnit))
   | FClear i ->
     with_sess i (fun f -> ({ w_sessions = (sess_set ss i (f_clear f));
       w_fs = fs }, FoUnit))
   | FPut (bytes, tick) ->
     ({ w_sessions = ss; w_fs = (fs_write fs bytes tick) }, FoUnit)
   | FRemove ->
     ({ w_sessions = ss; w_fs = { fs_content = None; fs_mtime =
       fs.fs_mtime } }, FoUnit))

type fobs = { ob_out : fout; ob_entries : str list; ob_file : n list option }

(** val fop_session : fop -> nat option **)

let fop_session = function
| FNew (i, _, _, _) -> Some i
| FAdd (i, _) -> Some i
| FSave (i, _) -> Some i
| FAppend (i, _) -> Some i
| FLoad i -> Some i
| FSetMax (i, _) -> Some i
| FClear i -> Some i
| _ -> None

(** val w_observe : world -> fop -> fout -> fobs **)

let w_observe w o out =
  { ob_out = out; ob_entries =
    (match fop_session o with
     | Some i ->
       (match sess_get w.w_sessions i with
        | Some f -> f_entries f
        | None -> [])
     | None -> []); ob_file = w.w_fs.fs_content }

(** val w_run : uData -> world -> fop list -> fobs list **)

let rec w_run u w = function
| [] -> []
| o :: t ->
  let (w', out) = w_step u w o in (w_observe w' o out) :: (w_run u w' t)

(** val str_truncate : str -> nat -> str res **)

let str_truncate s n0 =
  if Nat.ltb (blen s) n0
  then Ok s
  else (match bsplit s n0 with
        | Some p -> let (l, _) = p in Ok l
        | None -> Panic)

(** val apply_bs_go : str list -> str -> nat list -> str res **)

let rec apply_bs_go gs out sizes =
  match gs with
  | [] -> Ok out
  | g :: t ->
    if str_eqb g ((Npos (XO (XO (XO XH)))) :: [])
    then (match sizes with
          | [] -> apply_bs_go t out sizes
          | n0 :: sizes' ->
            if Nat.ltb (blen out) n0
            then Panic
            else (match str_truncate out (sub (blen out) n0) with
                  | Ok out' -> apply_bs_go t out' sizes'
                  | Panic -> Panic))
    else apply_bs_go t (app out g) ((blen g) :: sizes)

(** val apply_bs_impl : (str -> str list) -> str -> str res **)

let apply_bs_impl seg0 s =
  apply_bs_go (seg0 s) [] []

(** val bs_stack : str list -> str list **)

let bs_stack gs =
  fold_left (fun st g ->
    if str_eqb g ((Npos (XO (XO (XO XH)))) :: []) then tl st else g :: st) gs
    []

(** val apply_bs : (str -> str list) -> str -> str **)

let apply_bs seg0 s =
  concat (rev (bs_stack (seg0 s)))

type vres =
| VValid
| VInvalidMsg
| VInvalid
| VIncomplete
| VError

type dres =
| DLine of str
| DEof
| DErr
| DPanic

(** val dlines_aux : str -> str -> str list **)

let rec dlines_aux inp cur =
  match inp with
  | [] -> (match cur with
           | [] -> []
           | _ :: _ -> (rev cur) :: [])
  | c :: t ->
    if N.eqb c (Npos (XO (XI (XO XH))))
    then (rev (c :: cur)) :: (dlines_aux t [])
    else dlines_aux t (c :: cur)

(** val dlines : str -> str list **)

let dlines inp =
  dlines_aux inp []

(** val ends_with : str -> n -> bool **)

let ends_with s c =
  match rev s with
  | [] -> false
  | x :: _ -> N.eqb x c

(** val pop : str -> str **)

let pop s =
  rev (tl (rev s))

(** val strip_terminator : str -> (str * bool) * bool **)

let strip_terminator s =
  if ends_with s (Npos (XO (XI (XO XH))))
  then let s1 = pop s in
       if ends_with s1 (Npos (XI (XO (XI XH))))
       then (((pop s1), true), true)
       else ((s1, true), false)
  else ((s, false), false)

(** val direct_go :
    (str -> str list) -> (str -> vres) option -> str -> str list -> dres list **)

let rec direct_go seg0 v acc = function
| [] -> DEof :: []
| l :: t ->
  let (p, tr) = strip_terminator (app acc l) in
  let (s, tn) = p in
  (match apply_bs_impl seg0 s with
   | Ok inp ->
     (match v with
      | Some vf ->
        (match vf inp with
         | VValid -> (DLine inp) :: (direct_go seg0 v [] t)
         | VIncomplete ->
           direct_go seg0 v
             (app inp
               (app (if tr then (Npos (XI (XO (XI XH)))) :: [] else [])
                 (if tn then (Npos (XO (XI (XO XH)))) :: [] else []))) t
         | VError -> DErr :: (direct_go seg0 v [] t)
         | _ -> direct_go seg0 v inp t)
      | None -> (DLine inp) :: (direct_go seg0 v [] t))
   | Panic -> DPanic :: [])

(** val direct_all :
    (str -> str list) -> (str -> vres) option -> str -> dres list **)

let direct_all seg0 v input =
  direct_go seg0 v [] (dlines input)

(** val brackets_go : str -> n list -> vres **)

let rec brackets_go s stack =
  match s with
  | [] -> (match stack with
           | [] -> VValid
           | _ :: _ -> VIncomplete)
  | c :: t ->
    if (||)
         ((||) (N.eqb c (Npos (XO (XO (XO (XI (XO XH)))))))
           (N.eqb c (Npos (XI (XI (XO (XI (XI (XO XH)))))))))
         (N.eqb c (Npos (XI (XI (XO (XI (XI (XI XH))))))))
    then brackets_go t (c :: stack)
    else if (||)
              ((||) (N.eqb c (Npos (XI (XO (XO (XI (XO XH)))))))
                (N.eqb c (Npos (XI (XO (XI (XI (XI (XO XH)))))))))
              (N.eqb c (Npos (XI (XO (XI (XI (XI (XI XH))))))))
         then (match stack with
               | [] -> VInvalidMsg
               | o :: st ->
                 if (||)
                      ((||)
                        ((&&) (N.eqb o (Npos (XO (XO (XO (XI (XO XH)))))))
                          (N.eqb c (Npos (XI (XO (XO (XI (XO XH))))))))
                        ((&&)
                          (N.eqb o (Npos (XI (XI (XO (XI (XI (XO XH))))))))
                          (N.eqb c (Npos (XI (XO (XI (XI (XI (XO XH))))))))))
                      ((&&) (N.eqb o (Npos (XI (XI (XO (XI (XI (XI XH))))))))
                        (N.eqb c (Npos (XI (XO (XI (XI (XI (XI XH)))))))))
                 then brackets_go t st
                 else VInvalidMsg)
         else brackets_go t stack

(** val bracket_validator : str -> vres **)

let bracket_validator s =
  brackets_go s []

(** val mem_N : n -> n list -> bool **)

let rec mem_N c = function
| [] -> false
| x :: t -> (||) (N.eqb x c) (mem_N c t)

(** val is_break0 : n -> bool **)

let is_break0 c =
  mem_N c default_break_chars

(** val is_dq_special : n -> bool **)

let is_dq_special c =
  mem_N c double_quotes_special_chars

type quote =
| QDouble
| QSingle
| QNone

(** val unescape : n -> str -> str **)

let rec unescape esc0 = function
| [] -> []
| c :: t ->
  if N.eqb c esc0
  then (match t with
        | [] -> []
        | d :: t' -> d :: (unescape esc0 t'))
  else c :: (unescape esc0 t)

(** val escape : n -> (n -> bool) -> quote -> str -> str **)

let escape esc0 brk q s =
  match q with
  | QSingle -> s
  | _ -> flat_map (fun c -> if brk c then esc0 :: (c :: []) else c :: []) s

(** val extract_go :
    n -> (n -> bool) -> n list -> nat option -> nat -> nat **)

let rec extract_go esc0 brk rev_line pending0 acc =
  match rev_line with
  | [] -> (match pending0 with
           | Some n0 -> n0
           | None -> acc)
  | c :: t ->
    (match pending0 with
     | Some n0 ->
       if N.eqb c esc0
       then extract_go esc0 brk t None (add acc (clen c))
       else n0
     | None ->
       if brk c
       then extract_go esc0 brk t (Some acc) (add acc (clen c))
       else extract_go esc0 brk t None (add acc (clen c)))

(** val extract_word : n -> (n -> bool) -> str -> nat * str **)

let extract_word esc0 brk line =
  let n0 = extract_go esc0 brk (rev line) None O in
  let start = sub (blen line) n0 in
  (match bsplit line start with
   | Some p -> let (_, w) = p in (start, w)
   | None -> (start, []))

type scan_mode =
| MNormal
| MDouble
| MEscape
| MEscapeInDouble
| MSingle

(** val scan : str -> scan_mode -> nat -> nat -> scan_mode * nat **)

let rec scan s mode idx qidx =
  match s with
  | [] -> (mode, qidx)
  | c :: t ->
    let next = add idx (clen c) in
    (match mode with
     | MNormal ->
       if N.eqb c (Npos (XO (XI (XO (XO (XO XH))))))
       then scan t MDouble next idx
       else if N.eqb c (Npos (XO (XO (XI (XI (XI (XO XH)))))))
            then scan t MEscape next qidx
            else if N.eqb c (Npos (XI (XI (XI (XO (XO XH))))))
                 then scan t MSingle next idx
                 else scan t MNormal next qidx
     | MDouble ->
       if N.eqb c (Npos (XO (XI (XO (XO (XO XH))))))
       then scan t MNormal next qidx
       else if N.eqb c (Npos (XO (XO (XI (XI (XI (XO XH)))))))
            then scan t MEscapeInDouble next qidx
            else scan t MDouble next qidx
     | MEscape -> scan t MNormal next qidx
     | MEscapeInDouble -> scan t MDouble next qidx
     | MSingle ->
       if N.eqb c (Npos (XI (XI (XI (XO (XO XH))))))
       then scan t MNormal next qidx
       else scan t MSingle next qidx)

(** val find_unclosed_quote : str -> (nat * quote) option **)

let find_unclosed_quote s =
  let (s0, i) = scan s MNormal O O in
  (match s0 with
   | MNormal -> None
   | MEscape -> None
   | MSingle -> Some (i, QSingle)
   | _ -> Some (i, QDouble))

(** val all_adjacent_agree : nat -> n list list -> bool **)

let rec all_adjacent_agree k = function
| [] -> true
| b1 :: t ->
  (match t with
   | [] -> true
   | b2 :: _ ->
     (match nth_error b1 k with
      | Some x ->
        (match nth_error b2 k with
         | Some y -> (&&) (N.eqb x y) (all_adjacent_agree k t)
         | None -> false)
      | None -> false))

(** val lcp_len : nat -> nat -> n list list -> nat **)

let rec lcp_len fuel k bs =
  match fuel with
  | O -> k
  | S f -> if all_adjacent_agree k bs then lcp_len f (S k) bs else k

(** val backoff : str -> nat -> nat **)

let rec backoff s n0 = match n0 with
| O -> O
| S m0 -> if is_boundary s n0 then n0 else backoff s m0

(** val longest_common_prefix : str list -> str option **)

let longest_common_prefix cands = match cands with
| [] -> None
| c0 :: l ->
  (match l with
   | [] -> Some c0
   | _ :: _ ->
     let bs = map encode cands in
     let n0 = lcp_len (S (length (encode c0))) O bs in
     let n' = backoff c0 n0 in
     if Nat.eqb n' O
     then None
     else (match bsplit c0 n' with
           | Some p -> let (l0, _) = p in Some l0
           | None -> None))

type dentry = { d_name : str; d_is_dir : bool; d_children : (str * bool) list }

(** val sep : n **)

let sep =
  Npos (XI (XI (XI (XI (XO XH)))))

(** val rsplit_sep : str -> str * str **)

let rec rsplit_sep = function
| [] -> ([], [])
| c :: t ->
  let (d, f) = rsplit_sep t in
  (match d with
   | [] -> if N.eqb c sep then ((c :: []), f) else ([], (c :: f))
   | _ :: _ -> ((c :: d), f))

(** val lookup_dir : dentry list -> str -> (str * bool) list option **)

let lookup_dir root dir_name = match dir_name with
| [] -> Some (map (fun d -> (d.d_name, d.d_is_dir)) root)
| _ :: _ ->
  let name = removelast dir_name in
  (match find (fun d -> (&&) (str_eqb d.d_name name) d.d_is_dir) root with
   | Some d -> if mem_N sep name then None else Some d.d_children
   | None -> None)

(** val filename_complete :
    dentry list -> str -> n option -> (n -> bool) -> quote -> (str * str) list **)

let filename_complete root path esc0 brk q =
  let (dir_name, file_name) = rsplit_sep path in
  (match lookup_dir root dir_name with
   | Some ents ->
     flat_map (fun e0 ->
       let (name, isdir) = e0 in
       if prefix_b file_name name
       then let p = app dir_name (app name (if isdir then sep :: [] else []))
            in
            (name,
            (match esc0 with
             | Some ec -> escape ec brk q p
             | None -> p)) :: []
       else []) ents
   | None -> [])

(** val complete_path : dentry list -> str -> nat * (str * str) list **)

let complete_path root line =
  match find_unclosed_quote line with
  | Some p ->
    let (idx, q) = p in
    (match q with
     | QDouble ->
       let start = add idx (S O) in
       let word =
         match bsplit line start with
         | Some p1 -> let (_, w) = p1 in w
         | None -> []
       in
       (start,
       (filename_complete root (unescape double_quotes_escape_char word)
         (Some double_quotes_escape_char) is_dq_special QDouble))
     | _ ->
       let start = add idx (S O) in
       let word =
         match bsplit line start with
         | Some p1 -> let (_, w) = p1 in w
         | None -> []
       in
       (start, (filename_complete root word None is_break0 q)))
  | None ->
    let (start, word) = extract_word escape_char is_break0 line in
    (start,
    (filename_complete root (unescape escape_char word) (Some escape_char)
      is_break0 QNone))

(** val slice_from : str -> nat -> str res **)

let slice_from s a =
  match bsplit s a with
  | Some p -> let (_, r) = p in Ok r
  | None -> Panic

(** val slice_to : str -> nat -> str res **)

let slice_to s b =
  match bsplit s b with
  | Some p -> let (l, _) = p in Ok l
  | None -> Panic

(** val slice : str -> nat -> nat -> str res **)

let slice s a b =
  if Nat.ltb b a
  then Panic
  else (match bsplit s a with
        | Some p ->
          let (_, r) = p in
          (match bsplit r (sub b a) with
           | Some p1 -> let (m0, _) = p1 in Ok m0
           | None -> Panic)
        | None -> Panic)

(** val str_drain : str -> nat -> nat -> (str * str) res **)

let str_drain s a b =
  if Nat.ltb b a
  then Panic
  else (match bsplit s a with
        | Some p ->
          let (l, r) = p in
          (match bsplit r (sub b a) with
           | Some p1 -> let (m0, r') = p1 in Ok (m0, (app l r'))
           | None -> Panic)
        | None -> Panic)

(** val str_insert : str -> nat -> str -> str res **)

let str_insert s idx t =
  match bsplit s idx with
  | Some p -> let (l, r) = p in Ok (app l (app t r))
  | None -> Panic

(** val find_char : n -> str -> nat option **)

let rec find_char c = function
| [] -> None
| x :: t ->
  if N.eqb x c
  then Some O
  else (match find_char c t with
        | Some k -> Some (add (clen x) k)
        | None -> None)

(** val rfind_char : n -> str -> nat option **)

let rec rfind_char c = function
| [] -> None
| x :: t ->
  (match rfind_char c t with
   | Some k -> Some (add (clen x) k)
   | None -> if N.eqb x c then Some O else None)

(** val lF : n **)

let lF =
  Npos (XO (XI (XO XH)))

type word_def =
| WBig
| WEmacs
| WVi

type at_pos =
| AtStart
| AtBeforeEnd
| AtAfterEnd

type char_search =
| CsForward of n
| CsForwardBefore of n
| CsBackward of n
| CsBackwardAfter of n

type movement =
| MWholeLine
| MBeginningOfLine
| MEndOfLine
| MBackwardWord of nat * word_def
| MForwardWord of nat * at_pos * word_def
| MViCharSearch of nat * char_search
| MViFirstPrint
| MBackwardChar of nat
| MForwardChar of nat
| MLineUp of nat
| MLineDown of nat
| MWholeBuffer
| MBeginningOfBuffer
| MEndOfBuffer

type word_action =
| Capitalize
| Lowercase
| Uppercase

type direction =
| DForward
| DBackward

type event =
| EInsertChar of nat * n
| EInsertStr of nat * str
| EDelete of nat * str * direction
| EReplace of nat * str * str
| EStartKill
| EStopKill

type lb = { buf : str; pos : nat; cap : nat; grow : bool }

(** val lb_len : lb -> nat **)

let lb_len b =
  blen b.buf

(** val set_buf : lb -> str -> lb **)

let set_buf b s =
  { buf = s; pos = b.pos; cap = b.cap; grow = b.grow }

(** val set_pos' : lb -> nat -> lb **)

let set_pos' b p =
  { buf = b.buf; pos = p; cap = b.cap; grow = b.grow }

(** val must_truncate : lb -> nat -> bool **)

let must_truncate b new_len =
  (&&) (negb b.grow) (Nat.ltb b.cap new_len)

(** val index_from : nat -> str list -> (nat * str) list **)

let rec index_from i = function
| [] -> []
| g :: t -> (i, g) :: (index_from (add i (blen g)) t)

(** val gindices : (str -> str list) -> str -> (nat * str) list **)

let gindices seg0 s =
  index_from O (seg0 s)

type 'a m = lb -> (('a * lb) * event list) res

(** val ret : 'a1 -> 'a1 m **)

let ret a b =
  Ok ((a, b), [])

(** val bind : 'a1 m -> ('a1 -> 'a2 m) -> 'a2 m **)

let bind m0 f b =
  match m0 b with
  | Ok a0 ->
    let (p, e1) = a0 in
    let (a, b1) = p in
    (match f a b1 with
     | Ok a1 -> let (p1, e2) = a1 in Ok (p1, (app e1 e2))
     | Panic -> Panic)
  | Panic -> Panic

(** val get : lb m **)

let get b =
  Ok ((b, b), [])

(** val put_pos : nat -> unit m **)

let put_pos p b =
  Ok (((), (set_pos' b p)), [])

(** val fail : 'a1 m **)

let fail _ =
  Panic

(** val lift : 'a1 res -> 'a1 m **)

let lift r b =
  match r with
  | Ok a -> Ok ((a, b), [])
  | Panic -> Panic

(** val emit : event -> unit m **)

let emit e0 b =
  Ok (((), b), (e0 :: []))

(** val drain : nat -> nat -> direction -> str m **)

let drain a b' d b =
  match str_drain b.buf a b' with
  | Ok a0 ->
    let (m0, rest) = a0 in
    Ok ((m0, (set_buf b rest)), ((EDelete (a, m0, d)) :: []))
  | Panic -> Panic

(** val insert_str : nat -> str -> bool m **)

let insert_str idx s b =
  match str_insert b.buf idx s with
  | Ok nb ->
    Ok (((Nat.eqb idx (lb_len b)), (set_buf b nb)), ((EInsertStr (idx,
      s)) :: []))
  | Panic -> Panic

(** val insert_char_at : nat -> n -> unit m **)

let insert_char_at idx c b =
  match str_insert b.buf idx (c :: []) with
  | Ok nb -> Ok (((), (set_buf b nb)), ((EInsertChar (idx, c)) :: []))
  | Panic -> Panic

(** val replace_range : nat -> nat -> str -> unit m **)

let replace_range a b' text b =
  match slice b.buf a b' with
  | Ok old ->
    (match str_drain b.buf a b' with
     | Ok a0 ->
       let (_, rest) = a0 in
       (match str_insert rest a text with
        | Ok nb ->
          Ok (((), { buf = nb; pos = (add a (blen text)); cap = b.cap; grow =
            b.grow }), ((EReplace (a, old, text)) :: []))
        | Panic -> Panic)
     | Panic -> Panic)
  | Panic -> Panic

(** val end_of_line : lb -> nat res **)

let end_of_line b =
  match slice_from b.buf b.pos with
  | Ok r ->
    Ok (match find_char lF r with
        | Some n0 -> add n0 b.pos
        | None -> lb_len b)
  | Panic -> Panic

(** val start_of_line : lb -> nat res **)

let start_of_line b =
  match slice_to b.buf b.pos with
  | Ok l -> Ok (match rfind_char lF l with
                | Some i -> add i (S O)
                | None -> O)
  | Panic -> Panic

(** val last_opt0 : 'a1 list -> 'a1 option **)

let rec last_opt0 = function
| [] -> None
| x :: t -> (match t with
             | [] -> Some x
             | _ :: _ -> last_opt0 t)

(** val next_pos : (str -> str list) -> lb -> nat -> nat option res **)

let next_pos seg0 b n0 =
  if Nat.eqb b.pos (lb_len b)
  then Ok None
  else (match slice_from b.buf b.pos with
        | Ok r ->
          Ok
            (match last_opt0 (firstn n0 (gindices seg0 r)) with
             | Some p -> let (i, s) = p in Some (add (add i b.pos) (blen s))
             | None -> None)
        | Panic -> Panic)

(** val prev_pos : (str -> str list) -> lb -> nat -> nat option res **)

let prev_pos seg0 b n0 =
  if Nat.eqb b.pos O
  then Ok None
  else (match slice_to b.buf b.pos with
        | Ok l ->
          Ok
            (match last_opt0 (firstn n0 (rev (gindices seg0 l))) with
             | Some p -> let (i, _) = p in Some i
             | None -> None)
        | Panic -> Panic)

(** val all_alnum : uData -> str -> bool **)

let all_alnum u g =
  forallb u.u_is_alphanumeric g

(** val any_ws : uData -> str -> bool **)

let any_ws u g =
  existsb u.u_is_whitespace g

(** val is_vi_word_char : uData -> str -> bool **)

let is_vi_word_char u g =
  (||) (all_alnum u g)
    (str_eqb g ((Npos (XI (XI (XI (XI (XI (XO XH))))))) :: []))

(** val is_other_char : uData -> str -> bool **)

let is_other_char u g =
  negb ((||) (any_ws u g) (is_vi_word_char u g))

(** val is_word_char : uData -> word_def -> str -> bool **)

let is_word_char u w g =
  match w with
  | WBig -> negb (any_ws u g)
  | WEmacs -> all_alnum u g
  | WVi -> is_vi_word_char u g

(** val is_vi : word_def -> bool **)

let is_vi = function
| WVi -> true
| _ -> false

(** val is_emacs : word_def -> bool **)

let is_emacs = function
| WEmacs -> true
| _ -> false

(** val is_start_of_word : uData -> word_def -> str -> str -> bool **)

let is_start_of_word u w previous g =
  (||) ((&&) (negb (is_word_char u w previous)) (is_word_char u w g))
    ((&&) ((&&) (is_vi w) (negb (is_other_char u previous)))
      (is_other_char u g))

(** val is_end_of_word : uData -> word_def -> str -> str -> bool **)

let is_end_of_word u w g next =
  (||) ((&&) (negb (is_word_char u w next)) (is_word_char u w g))
    ((&&) ((&&) (is_vi w) (negb (is_other_char u next))) (is_other_char u g))

(** val pw_inner :
    uData -> word_def -> (nat * str) -> (nat * str) list ->
    (nat * (nat * str) list) option **)

let rec pw_inner u w gj = function
| [] -> None
| gi :: rest ->
  if is_start_of_word u w (snd gi) (snd gj)
  then Some ((fst gj), rest)
  else pw_inner u w gi rest

(** val pw_outer :
    uData -> word_def -> nat -> (nat * str) list -> nat -> nat **)

let rec pw_outer u w n0 gis sow =
  match n0 with
  | O -> sow
  | S n' ->
    (match gis with
     | [] -> O
     | gj :: rest ->
       (match pw_inner u w gj rest with
        | Some p -> let (s, rest') = p in pw_outer u w n' rest' s
        | None -> O))

(** val prev_word_pos :
    uData -> (str -> str list) -> lb -> nat -> word_def -> nat -> nat option
    res **)

let prev_word_pos u seg0 b p w n0 =
  if Nat.eqb p O
  then Ok None
  else (match slice_to b.buf p with
        | Ok l -> Ok (Some (pw_outer u w n0 (rev (gindices seg0 l)) O))
        | Panic -> Panic)

(** val at_is_start : at_pos -> bool **)

let at_is_start = function
| AtStart -> true
| _ -> false

(** val at_is_after : at_pos -> bool **)

let at_is_after = function
| AtAfterEnd -> true
| _ -> false

(** val at_is_before : at_pos -> bool **)

let at_is_before = function
| AtBeforeEnd -> true
| _ -> false

(** val nw_inner :
    uData -> at_pos -> word_def -> (nat * str) -> (nat * str) list ->
    (nat * (nat * str) list) option * (nat * str) **)

let rec nw_inner u a w gi = function
| [] -> (None, gi)
| gj :: rest ->
  if (&&) (at_is_start a) (is_start_of_word u w (snd gi) (snd gj))
  then ((Some ((fst gj), rest)), gi)
  else if (&&) (negb (at_is_start a)) (is_end_of_word u w (snd gi) (snd gj))
       then ((Some
              ((if (||) (is_emacs w) (at_is_after a) then fst gj else fst gi),
              rest)), gi)
       else nw_inner u a w gj rest

(** val nw_outer :
    uData -> at_pos -> word_def -> nat -> (nat * str) list -> nat ->
    (nat * str) option -> nat * (nat * str) option **)

let rec nw_outer u a w n0 gis wp gi =
  match n0 with
  | O -> (wp, gi)
  | S n' ->
    (match gis with
     | [] -> (O, None)
     | g :: rest ->
       let (o, g') = nw_inner u a w g rest in
       (match o with
        | Some p ->
          let (wp', rest') = p in nw_outer u a w n' rest' wp' (Some g')
        | None -> (O, (Some g'))))

(** val next_word_pos :
    uData -> (str -> str list) -> lb -> nat -> at_pos -> word_def -> nat ->
    nat option res **)

let next_word_pos u seg0 b p a w n0 =
  if Nat.eqb p (lb_len b)
  then Ok None
  else (match slice_from b.buf p with
        | Ok r ->
          let gis = gindices seg0 r in
          if at_is_before a
          then (match gis with
                | [] ->
                  let gi0 = None in
                  let gis0 = [] in
                  let (wp, gi) = nw_outer u a w n0 gis0 O gi0 in
                  Ok
                  (if Nat.eqb wp O
                   then if (||) (is_emacs w) (at_is_after a)
                        then Some (lb_len b)
                        else (match gi with
                              | Some p1 ->
                                let (i, _) = p1 in
                                if Nat.eqb i O then None else Some (add i p)
                              | None -> None)
                   else Some (add wp p))
                | g :: t ->
                  let gi0 = Some g in
                  let (wp, gi) = nw_outer u a w n0 t O gi0 in
                  Ok
                  (if Nat.eqb wp O
                   then if (||) (is_emacs w) (at_is_after a)
                        then Some (lb_len b)
                        else (match gi with
                              | Some p1 ->
                                let (i, _) = p1 in
                                if Nat.eqb i O then None else Some (add i p)
                              | None -> None)
                   else Some (add wp p)))
          else let gi0 = None in
               let (wp, gi) = nw_outer u a w n0 gis O gi0 in
               Ok
               (if Nat.eqb wp O
                then if (||) (is_emacs w) (at_is_after a)
                     then Some (lb_len b)
                     else (match gi with
                           | Some p1 ->
                             let (i, _) = p1 in
                             if Nat.eqb i O then None else Some (add i p)
                           | None -> None)
                else Some (add wp p))
        | Panic -> Panic)

(** val char_hits : n -> str -> nat -> nat list **)

let rec char_hits c s i =
  match s with
  | [] -> []
  | x :: t ->
    if N.eqb x c
    then i :: (char_hits c t (add i (clen x)))
    else char_hits c t (add i (clen x))

(** val search_char_pos :
    (str -> str list) -> lb -> char_search -> nat -> nat option res **)

let search_char_pos seg0 b cs n0 =
  match cs with
  | CsForward c ->
    if Nat.eqb b.pos (lb_len b)
    then Ok None
    else (match slice_from b.buf b.pos with
          | Ok r ->
            (match seg0 r with
             | [] -> Ok None
             | cc :: _ ->
               let shift = add b.pos (blen cc) in
               if Nat.ltb shift (lb_len b)
               then (match slice_from b.buf shift with
                     | Ok r2 ->
                       (match last_opt0 (firstn n0 (char_hits c r2 O)) with
                        | Some p ->
                          (match cs with
                           | CsForwardBefore _ ->
                             (match slice_to b.buf (add shift p) with
                              | Ok l2 ->
                                (match rev (seg0 l2) with
                                 | [] -> Ok (Some (add shift p))
                                 | g :: _ ->
                                   Ok (Some (sub (add shift p) (blen g))))
                              | Panic -> Panic)
                           | _ -> Ok (Some (add shift p)))
                        | None -> Ok None)
                     | Panic -> Panic)
               else Ok None)
          | Panic -> Panic)
  | CsForwardBefore c ->
    if Nat.eqb b.pos (lb_len b)
    then Ok None
    else (match slice_from b.buf b.pos with
          | Ok r ->
            (match seg0 r with
             | [] -> Ok None
             | cc :: _ ->
               let shift = add b.pos (blen cc) in
               if Nat.ltb shift (lb_len b)
               then (match slice_from b.buf shift with
                     | Ok r2 ->
                       (match last_opt0 (firstn n0 (char_hits c r2 O)) with
                        | Some p ->
                          (match cs with
                           | CsForwardBefore _ ->
                             (match slice_to b.buf (add shift p) with
                              | Ok l2 ->
                                (match rev (seg0 l2) with
                                 | [] -> Ok (Some (add shift p))
                                 | g :: _ ->
                                   Ok (Some (sub (add shift p) (blen g))))
                              | Panic -> Panic)
                           | _ -> Ok (Some (add shift p)))
                        | None -> Ok None)
                     | Panic -> Panic)
               else Ok None)
          | Panic -> Panic)
  | CsBackward c ->
    (match slice_to b.buf b.pos with
     | Ok l ->
       (match last_opt0 (firstn n0 (rev (char_hits c l O))) with
        | Some p ->
          Ok (Some
            (match cs with
             | CsBackwardAfter _ -> add p (clen c)
             | _ -> p))
        | None -> Ok None)
     | Panic -> Panic)
  | CsBackwardAfter c ->
    (match slice_to b.buf b.pos with
     | Ok l ->
       (match last_opt0 (firstn n0 (rev (char_hits c l O))) with
        | Some p ->
          Ok (Some
            (match cs with
             | CsBackwardAfter _ -> add p (clen c)
             | _ -> p))
        | None -> Ok None)
     | Panic -> Panic)

(** val lines_up_loop : str -> nat -> nat -> nat res **)

let rec lines_up_loop s n0 start =
  match n0 with
  | O -> Ok start
  | S n' ->
    if Nat.eqb start O
    then Panic
    else (match slice_to s (sub start (S O)) with
          | Ok l ->
            (match rfind_char lF l with
             | Some off -> lines_up_loop s n' (add off (S O))
             | None -> Ok O)
          | Panic -> Panic)

(** val n_lines_up : lb -> nat -> (nat * nat) option res **)

let n_lines_up b n0 =
  match slice_to b.buf b.pos with
  | Ok l ->
    (match slice_from b.buf b.pos with
     | Ok r ->
       (match rfind_char lF l with
        | Some off ->
          let e0 =
            match find_char lF r with
            | Some x -> add (add b.pos x) (S O)
            | None -> lb_len b
          in
          (match lines_up_loop b.buf n0 (add off (S O)) with
           | Ok s -> Ok (Some (s, e0))
           | Panic -> Panic)
        | None -> Ok None)
     | Panic -> Panic)
  | Panic -> Panic

(** val lines_down_loop : str -> nat -> nat -> nat -> nat res **)

let rec lines_down_loop s len n0 e0 =
  match n0 with
  | O -> Ok e0
  | S n' ->
    (match slice_from s e0 with
     | Ok r ->
       (match find_char lF r with
        | Some off -> lines_down_loop s len n' (add (add e0 off) (S O))
        | None -> Ok len)
     | Panic -> Panic)

(** val n_lines_down : lb -> nat -> (nat * nat) option res **)

let n_lines_down b n0 =
  match slice_to b.buf b.pos with
  | Ok l ->
    (match slice_from b.buf b.pos with
     | Ok r ->
       (match find_char lF r with
        | Some off ->
          let s = match rfind_char lF l with
                  | Some i -> add i (S O)
                  | None -> O
          in
          (match lines_down_loop b.buf (lb_len b) n0
                   (add (add b.pos off) (S O)) with
           | Ok e0 -> Ok (Some (s, e0))
           | Panic -> Panic)
        | None -> Ok None)
     | Panic -> Panic)
  | Panic -> Panic

(** val set_pos : nat -> unit m **)

let set_pos p =
  bind get (fun b -> if Nat.ltb (lb_len b) p then fail else put_pos p)

(** val move_backward : (str -> str list) -> nat -> bool m **)

let move_backward seg0 n0 =
  bind get (fun b ->
    bind (lift (prev_pos seg0 b n0)) (fun r ->
      match r with
      | Some p -> bind (put_pos p) (fun _ -> ret true)
      | None -> ret false))

(** val move_forward : (str -> str list) -> nat -> bool m **)

let move_forward seg0 n0 =
  bind get (fun b ->
    bind (lift (next_pos seg0 b n0)) (fun r ->
      match r with
      | Some p -> bind (put_pos p) (fun _ -> ret true)
      | None -> ret false))

(** val move_buffer_start : bool m **)

let move_buffer_start =
  bind get (fun b ->
    if Nat.ltb O b.pos
    then bind (put_pos O) (fun _ -> ret true)
    else ret false)

(** val move_buffer_end : bool m **)

let move_buffer_end =
  bind get (fun b ->
    if Nat.eqb b.pos (lb_len b)
    then ret false
    else bind (put_pos (lb_len b)) (fun _ -> ret true))

(** val move_home : bool m **)

let move_home =
  bind get (fun b ->
    bind (lift (start_of_line b)) (fun s ->
      if Nat.ltb s b.pos
      then bind (put_pos s) (fun _ -> ret true)
      else ret false))

(** val move_end : bool m **)

let move_end =
  bind get (fun b ->
    bind (lift (end_of_line b)) (fun e0 ->
      if Nat.eqb b.pos e0
      then ret false
      else bind (put_pos e0) (fun _ -> ret true)))

(** val trim_end_len : uData -> str -> nat **)

let rec trim_end_len u = function
| [] -> O
| c :: t ->
  let k = trim_end_len u t in
  if Nat.eqb k O
  then if u.u_is_whitespace c then O else clen c
  else add (clen c) k

(** val is_end_of_input : uData -> lb -> bool **)

let is_end_of_input u b =
  Nat.leb (trim_end_len u b.buf) b.pos

(** val repeat_str : str -> nat -> str **)

let rec repeat_str s = function
| O -> []
| S n' -> app s (repeat_str s n')

(** val insert : n -> nat -> bool option m **)

let insert c n0 =
  bind get (fun b ->
    let shift = mul (clen c) n0 in
    if must_truncate b (add (lb_len b) shift)
    then ret None
    else let push = Nat.eqb b.pos (lb_len b) in
         bind
           (if Nat.eqb n0 (S O)
            then insert_char_at b.pos c
            else bind (insert_str b.pos (repeat_str (c :: []) n0)) (fun _ ->
                   ret ())) (fun _ ->
           bind (put_pos (add b.pos shift)) (fun _ -> ret (Some push))))

(** val yank : str -> nat -> bool option m **)

let yank text n0 =
  bind get (fun b ->
    let shift = mul (blen text) n0 in
    (match text with
     | [] -> ret None
     | _ :: _ ->
       if must_truncate b (add (lb_len b) shift)
       then ret None
       else let push = Nat.eqb b.pos (lb_len b) in
            bind
              (bind
                (insert_str b.pos
                  (if Nat.eqb n0 (S O) then text else repeat_str text n0))
                (fun _ -> ret ())) (fun _ ->
              bind (put_pos (add b.pos shift)) (fun _ -> ret (Some push)))))

(** val yank_pop : nat -> str -> bool option m **)

let yank_pop yank_size text =
  bind get (fun b ->
    let e0 = b.pos in
    if Nat.ltb e0 yank_size
    then ret None
    else if negb (is_boundary b.buf (sub e0 yank_size))
         then ret None
         else bind (drain (sub e0 yank_size) e0 DForward) (fun _ ->
                bind (put_pos (sub e0 yank_size)) (fun _ -> yank text (S O))))

(** val delete : (str -> str list) -> nat -> str option m **)

let delete seg0 n0 =
  bind get (fun b ->
    bind (lift (next_pos seg0 b n0)) (fun r ->
      match r with
      | Some p -> bind (drain b.pos p DForward) (fun s -> ret (Some s))
      | None -> ret None))

(** val backspace : (str -> str list) -> nat -> bool m **)

let backspace seg0 n0 =
  bind get (fun b ->
    bind (lift (prev_pos seg0 b n0)) (fun r ->
      match r with
      | Some p ->
        bind (drain p b.pos DBackward) (fun _ ->
          bind (put_pos p) (fun _ -> ret true))
      | None -> ret false))

(** val kill_line : (str -> str list) -> bool m **)

let kill_line seg0 =
  bind get (fun b ->
    if (&&) (negb (Nat.eqb (lb_len b) O)) (Nat.ltb b.pos (lb_len b))
    then bind (lift (end_of_line b)) (fun e0 ->
           bind
             (if Nat.eqb b.pos e0
              then bind (delete seg0 (S O)) (fun _ -> ret ())
              else bind (drain b.pos e0 DForward) (fun _ -> ret ()))
             (fun _ -> ret true))
    else ret false)

(** val kill_buffer : bool m **)

let kill_buffer =
  bind get (fun b ->
    if (&&) (negb (Nat.eqb (lb_len b) O)) (Nat.ltb b.pos (lb_len b))
    then bind (drain b.pos (lb_len b) DForward) (fun _ -> ret true)
    else ret false)

(** val discard_line : (str -> str list) -> bool m **)

let discard_line seg0 =
  bind get (fun b ->
    if (&&) (Nat.ltb O b.pos) (negb (Nat.eqb (lb_len b) O))
    then bind (lift (start_of_line b)) (fun s ->
           if Nat.eqb b.pos s
           then backspace seg0 (S O)
           else bind (drain s b.pos DBackward) (fun _ ->
                  bind (put_pos s) (fun _ -> ret true)))
    else ret false)

(** val discard_buffer : bool m **)

let discard_buffer =
  bind get (fun b ->
    if (&&) (Nat.ltb O b.pos) (negb (Nat.eqb (lb_len b) O))
    then bind (drain O b.pos DBackward) (fun _ ->
           bind (put_pos O) (fun _ -> ret true))
    else ret false)

(** val transpose_chars : (str -> str list) -> bool m **)

let transpose_chars seg0 =
  bind get (fun b ->
    if (||) (Nat.eqb b.pos O) (Nat.ltb (length (seg0 b.buf)) (S (S O)))
    then ret false
    else bind
           (if Nat.eqb b.pos (lb_len b)
            then bind (move_backward seg0 (S O)) (fun _ -> ret ())
            else ret ()) (fun _ ->
           bind (delete seg0 (S O)) (fun r ->
             match r with
             | Some chars ->
               bind (move_backward seg0 (S O)) (fun _ ->
                 bind (yank chars (S O)) (fun _ ->
                   bind (move_forward seg0 (S O)) (fun _ -> ret true)))
             | None -> fail)))

(** val move_to_prev_word :
    uData -> (str -> str list) -> word_def -> nat -> bool m **)

let move_to_prev_word u seg0 w n0 =
  bind get (fun b ->
    bind (lift (prev_word_pos u seg0 b b.pos w n0)) (fun r ->
      match r with
      | Some p -> bind (put_pos p) (fun _ -> ret true)
      | None -> ret false))

(** val delete_prev_word :
    uData -> (str -> str list) -> word_def -> nat -> bool m **)

let delete_prev_word u seg0 w n0 =
  bind get (fun b ->
    bind (lift (prev_word_pos u seg0 b b.pos w n0)) (fun r ->
      match r with
      | Some p ->
        bind (drain p b.pos DBackward) (fun _ ->
          bind (put_pos p) (fun _ -> ret true))
      | None -> ret false))

(** val move_to_next_word :
    uData -> (str -> str list) -> at_pos -> word_def -> nat -> bool m **)

let move_to_next_word u seg0 a w n0 =
  bind get (fun b ->
    bind (lift (next_word_pos u seg0 b b.pos a w n0)) (fun r ->
      match r with
      | Some p -> bind (put_pos p) (fun _ -> ret true)
      | None -> ret false))

(** val delete_word :
    uData -> (str -> str list) -> at_pos -> word_def -> nat -> bool m **)

let delete_word u seg0 a w n0 =
  bind get (fun b ->
    bind (lift (next_word_pos u seg0 b b.pos a w n0)) (fun r ->
      match r with
      | Some p -> bind (drain b.pos p DForward) (fun _ -> ret true)
      | None -> ret false))

(** val move_to : (str -> str list) -> char_search -> nat -> bool m **)

let move_to seg0 cs n0 =
  bind get (fun b ->
    bind (lift (search_char_pos seg0 b cs n0)) (fun r ->
      match r with
      | Some p -> bind (put_pos p) (fun _ -> ret true)
      | None -> ret false))

(** val delete_to : (str -> str list) -> char_search -> nat -> bool m **)

let delete_to seg0 cs n0 =
  bind get (fun b ->
    bind
      (lift
        (match cs with
         | CsForwardBefore c -> search_char_pos seg0 b (CsForward c) n0
         | _ -> search_char_pos seg0 b cs n0)) (fun r ->
      match r with
      | Some p ->
        (match cs with
         | CsForward c ->
           bind (drain b.pos (add p (clen c)) DForward) (fun _ -> ret true)
         | CsForwardBefore _ ->
           bind (drain b.pos p DForward) (fun _ -> ret true)
         | _ ->
           bind (put_pos p) (fun _ ->
             bind (drain p b.pos DBackward) (fun _ -> ret true)))
      | None -> ret false))

(** val first_alnum : uData -> (nat * str) list -> nat option **)

let rec first_alnum u = function
| [] -> None
| p :: t ->
  let (i, g) = p in if all_alnum u g then Some i else first_alnum u t

(** val skip_whitespace :
    uData -> (str -> str list) -> lb -> nat option res **)

let skip_whitespace u seg0 b =
  if Nat.eqb b.pos (lb_len b)
  then Ok None
  else (match slice_from b.buf b.pos with
        | Ok r ->
          Ok
            (match first_alnum u (gindices seg0 r) with
             | Some i -> Some (add i b.pos)
             | None -> None)
        | Panic -> Panic)

(** val to_upper : uData -> str -> str **)

let to_upper u s =
  flat_map u.u_to_upper s

(** val to_lower : uData -> str -> str **)

let to_lower u s =
  flat_map u.u_to_lower s

(** val edit_word : uData -> (str -> str list) -> word_action -> bool m **)

let edit_word u seg0 a =
  bind get (fun b ->
    bind (lift (skip_whitespace u seg0 b)) (fun r ->
      match r with
      | Some start ->
        bind (lift (next_word_pos u seg0 b start AtAfterEnd WEmacs (S O)))
          (fun r2 ->
          match r2 with
          | Some e0 ->
            if Nat.eqb start e0
            then ret false
            else bind (drain start e0 DForward) (fun word ->
                   bind
                     (lift
                       (match a with
                        | Capitalize ->
                          (match seg0 word with
                           | [] -> Panic
                           | ch :: _ ->
                             (match slice_from word (blen ch) with
                              | Ok rest ->
                                Ok (app (to_upper u ch) (to_lower u rest))
                              | Panic -> Panic))
                        | Lowercase -> Ok (to_lower u word)
                        | Uppercase -> Ok (to_upper u word))) (fun result ->
                     bind (insert_str start result) (fun _ ->
                       bind (put_pos (add start (blen result))) (fun _ ->
                         ret true))))
          | None -> ret false)
      | None -> ret false))

(** val transpose_words : uData -> (str -> str list) -> nat -> bool m **)

let transpose_words u seg0 n0 =
  bind get (fun b0 ->
    bind (move_to_next_word u seg0 AtAfterEnd WEmacs n0) (fun _ ->
      bind get (fun b1 ->
        let w2_end = b1.pos in
        bind (move_to_prev_word u seg0 WEmacs (S O)) (fun _ ->
          bind get (fun b2 ->
            let w2_beg = b2.pos in
            bind (move_to_prev_word u seg0 WEmacs n0) (fun _ ->
              bind get (fun b3 ->
                let w1_beg = b3.pos in
                bind (move_to_next_word u seg0 AtAfterEnd WEmacs (S O))
                  (fun _ ->
                  bind get (fun b4 ->
                    let w1_end = b4.pos in
                    if (||) (Nat.eqb w1_beg w2_beg) (Nat.ltb w2_beg w1_end)
                    then bind (put_pos b0.pos) (fun _ -> ret false)
                    else bind (lift (slice b4.buf w1_beg w1_end)) (fun w1 ->
                           bind (drain w2_beg w2_end DForward) (fun w2 ->
                             bind (insert_str w2_beg w1) (fun _ ->
                               bind (drain w1_beg w1_end DForward) (fun _ ->
                                 bind (insert_str w1_beg w2) (fun _ ->
                                   bind (put_pos w2_end) (fun _ -> ret true)))))))))))))))

(** val replace : nat -> nat -> str -> unit m **)

let replace =
  replace_range

(** val delete_range : nat -> nat -> unit m **)

let delete_range a b' =
  bind (set_pos a) (fun _ -> bind (drain a b' DForward) (fun _ -> ret ()))

(** val boundary_down : str -> nat -> nat -> nat **)

let rec boundary_down s k m0 =
  match k with
  | O -> O
  | S k' -> if is_boundary s m0 then m0 else boundary_down s k' (sub m0 (S O))

(** val update : str -> nat -> unit m **)

let update s p =
  if Nat.ltb (blen s) p
  then fail
  else bind get (fun b ->
         bind (drain O (lb_len b) DForward) (fun _ ->
           if must_truncate b (blen s)
           then let mx = boundary_down s (S b.cap) b.cap in
                bind (lift (slice_to s mx)) (fun t ->
                  bind (insert_str O t) (fun _ -> put_pos (Nat.min mx p)))
           else bind (insert_str O s) (fun _ -> put_pos p)))

(** val vi_first_print_pos :
    uData -> (str -> str list) -> lb -> nat option res **)

let vi_first_print_pos u seg0 b =
  match b.buf with
  | [] -> Ok (Some O)
  | c :: _ ->
    if u.u_is_whitespace c
    then (match next_word_pos u seg0 b O AtStart WBig (S O) with
          | Ok a ->
            (match a with
             | Some n0 -> Ok (Some n0)
             | None -> Ok (Some O))
          | Panic -> Panic)
    else Ok (Some O)

(** val copy :
    uData -> (str -> str list) -> lb -> movement -> str option res **)

let copy u seg0 b m0 =
  if Nat.eqb (lb_len b) O
  then Ok None
  else let sl = fun a e0 ->
         match slice b.buf a e0 with
         | Ok s -> Ok (Some s)
         | Panic -> Panic
       in
       let opt_map = fun r f ->
         match r with
         | Ok a -> (match a with
                    | Some p -> f p
                    | None -> Ok None)
         | Panic -> Panic
       in
       (match m0 with
        | MWholeLine ->
          (match start_of_line b with
           | Ok s ->
             (match end_of_line b with
              | Ok e0 -> if Nat.eqb s e0 then Ok None else sl s e0
              | Panic -> Panic)
           | Panic -> Panic)
        | MBeginningOfLine ->
          (match start_of_line b with
           | Ok s -> if Nat.eqb b.pos s then Ok None else sl s b.pos
           | Panic -> Panic)
        | MEndOfLine ->
          (match end_of_line b with
           | Ok e0 -> if Nat.eqb b.pos e0 then Ok None else sl b.pos e0
           | Panic -> Panic)
        | MBackwardWord (n0, w) ->
          opt_map (prev_word_pos u seg0 b b.pos w n0) (fun p -> sl p b.pos)
        | MForwardWord (n0, a, w) ->
          opt_map (next_word_pos u seg0 b b.pos a w n0) (fun p -> sl b.pos p)
        | MViCharSearch (n0, cs) ->
          opt_map
            (match cs with
             | CsForwardBefore c -> search_char_pos seg0 b (CsForward c) n0
             | _ -> search_char_pos seg0 b cs n0) (fun p ->
            match cs with
            | CsForward c -> sl b.pos (add p (clen c))
            | CsForwardBefore _ -> sl b.pos p
            | _ -> sl p b.pos)
        | MViFirstPrint ->
          opt_map (vi_first_print_pos u seg0 b) (fun p ->
            if Nat.ltb p b.pos
            then sl p b.pos
            else if Nat.ltb b.pos p then sl b.pos p else Ok None)
        | MBackwardChar n0 ->
          opt_map (prev_pos seg0 b n0) (fun p -> sl p b.pos)
        | MForwardChar n0 ->
          opt_map (next_pos seg0 b n0) (fun p -> sl b.pos p)
        | MLineUp n0 ->
          (match n_lines_up b n0 with
           | Ok a ->
             (match a with
              | Some p -> let (s, e0) = p in sl s e0
              | None -> Ok None)
           | Panic -> Panic)
        | MLineDown n0 ->
          (match n_lines_down b n0 with
           | Ok a ->
             (match a with
              | Some p -> let (s, e0) = p in sl s e0
              | None -> Ok None)
           | Panic -> Panic)
        | MWholeBuffer -> Ok (Some b.buf)
        | MBeginningOfBuffer ->
          if Nat.eqb b.pos O then Ok None else sl O b.pos
        | MEndOfBuffer ->
          if Nat.eqb b.pos (lb_len b) then Ok None else sl b.pos (lb_len b))

(** val notifies : movement -> bool **)

let notifies = function
| MBackwardChar _ -> false
| MForwardChar _ -> false
| _ -> true

(** val kill : uData -> (str -> str list) -> movement -> bool m **)

let kill u seg0 m0 =
  bind (if notifies m0 then emit EStartKill else ret ()) (fun _ ->
    bind
      (match m0 with
       | MWholeLine -> bind move_home (fun _ -> kill_line seg0)
       | MBeginningOfLine -> discard_line seg0
       | MEndOfLine -> kill_line seg0
       | MBackwardWord (n0, w) -> delete_prev_word u seg0 w n0
       | MForwardWord (n0, a, w) -> delete_word u seg0 a w n0
       | MViCharSearch (n0, cs) -> delete_to seg0 cs n0
       | MViFirstPrint ->
         bind get (fun b ->
           bind (lift (vi_first_print_pos u seg0 b)) (fun r ->
             match r with
             | Some p ->
               if Nat.ltb p b.pos
               then bind (drain p b.pos DBackward) (fun _ ->
                      bind (put_pos p) (fun _ -> ret true))
               else if Nat.ltb b.pos p
                    then bind (drain b.pos p DForward) (fun _ -> ret true)
                    else ret false
             | None -> ret false))
       | MBackwardChar n0 -> backspace seg0 n0
       | MForwardChar n0 ->
         bind (delete seg0 n0) (fun r ->
           ret (match r with
                | Some _ -> true
                | None -> false))
       | MLineUp n0 ->
         bind get (fun b ->
           bind (lift (n_lines_up b n0)) (fun r ->
             match r with
             | Some p ->
               let (s, e0) = p in bind (delete_range s e0) (fun _ -> ret true)
             | None -> ret false))
       | MLineDown n0 ->
         bind get (fun b ->
           bind (lift (n_lines_down b n0)) (fun r ->
             match r with
             | Some p ->
               let (s, e0) = p in bind (delete_range s e0) (fun _ -> ret true)
             | None -> ret false))
       | MWholeBuffer -> bind move_buffer_start (fun _ -> kill_buffer)
       | MBeginningOfBuffer -> discard_buffer
       | MEndOfBuffer -> kill_buffer) (fun killed ->
      bind (if notifies m0 then emit EStopKill else ret ()) (fun _ ->
        ret killed)))

(** val split_lf : str -> str -> str list **)

let rec split_lf s cur =
  match s with
  | [] -> (rev cur) :: []
  | c :: t ->
    if N.eqb c lF then (rev cur) :: (split_lf t []) else split_lf t (c :: cur)

(** val leading_ws_bytes : uData -> str -> nat **)

let rec leading_ws_bytes u = function
| [] -> O
| c :: t ->
  if u.u_is_whitespace c then add (clen c) (leading_ws_bytes u t) else O

(** val dedent_lines : uData -> str list -> nat -> nat -> unit m **)

let rec dedent_lines u lines amount index =
  match lines with
  | [] -> ret ()
  | line :: t ->
    let mx = leading_ws_bytes u line in
    let deleting =
      boundary_down line (S (Nat.min mx amount)) (Nat.min mx amount)
    in
    bind (drain index (add index deleting) DForward) (fun _ ->
      bind get (fun b ->
        bind
          (if Nat.leb index b.pos
           then if Nat.ltb (sub b.pos index) deleting
                then put_pos index
                else put_pos (sub b.pos deleting)
           else ret ()) (fun _ ->
          dedent_lines u t amount
            (sub (add (add index (blen line)) (S O)) deleting))))

(** val indent_chunks : nat -> nat -> nat -> nat -> unit m **)

let rec indent_chunks amount off fuel index =
  match fuel with
  | O -> ret ()
  | S f ->
    if Nat.ltb off amount
    then bind
           (insert_str index
             (repeat (Npos (XO (XO (XO (XO (XO XH))))))
               (Nat.min (sub amount off) indent_max))) (fun _ ->
           indent_chunks amount (add off indent_max) f index)
    else ret ()

(** val indent_lines : str list -> nat -> nat -> unit m **)

let rec indent_lines lines amount index =
  match lines with
  | [] -> ret ()
  | line :: t ->
    bind (indent_chunks amount O (S amount) index) (fun _ ->
      bind get (fun b ->
        bind
          (if Nat.leb index b.pos then put_pos (add b.pos amount) else ret ())
          (fun _ ->
          indent_lines t amount
            (add (add (add index amount) (blen line)) (S O)))))

(** val indent :
    uData -> (str -> str list) -> movement -> nat -> bool -> bool m **)

let indent u seg0 m0 amount dedent =
  bind get (fun b ->
    bind
      (lift
        (match m0 with
         | MBackwardWord (n0, w) ->
           (match prev_word_pos u seg0 b b.pos w n0 with
            | Ok a ->
              (match a with
               | Some p -> Ok (Some (p, b.pos))
               | None -> Ok None)
            | Panic -> Panic)
         | MForwardWord (n0, a, w) ->
           (match next_word_pos u seg0 b b.pos a w n0 with
            | Ok a0 ->
              (match a0 with
               | Some p -> Ok (Some (b.pos, p))
               | None -> Ok None)
            | Panic -> Panic)
         | MLineUp n0 -> n_lines_up b n0
         | MLineDown n0 -> n_lines_down b n0
         | MWholeBuffer -> Ok (Some (O, (lb_len b)))
         | MBeginningOfBuffer -> Ok (Some (O, b.pos))
         | MEndOfBuffer -> Ok (Some (b.pos, (lb_len b)))
         | _ -> Ok (Some (b.pos, b.pos)))) (fun pr ->
      let (s0, e0) = match pr with
                     | Some p -> p
                     | None -> (b.pos, b.pos) in
      bind (lift (slice_to b.buf s0)) (fun l ->
        let start =
          match rfind_char lF l with
          | Some p -> add p (S O)
          | None -> O
        in
        bind (lift (slice_from b.buf e0)) (fun r ->
          let e1 =
            match rfind_char lF r with
            | Some p -> add e0 p
            | None -> lb_len b
          in
          bind (lift (slice b.buf start e1)) (fun text ->
            bind
              (if dedent
               then dedent_lines u (split_lf text []) amount start
               else indent_lines (split_lf text []) amount start) (fun _ ->
              ret true))))))

(** val line_up_loop : str -> nat -> nat -> nat -> (nat * nat) res **)

let rec line_up_loop s k dest_start dest_end =
  match k with
  | O -> Ok (dest_start, dest_end)
  | S k' ->
    if Nat.eqb dest_start O
    then Ok (dest_start, dest_end)
    else let de = sub dest_start (S O) in
         (match slice_to s de with
          | Ok l ->
            line_up_loop s k'
              (match rfind_char lF l with
               | Some n0 -> add n0 (S O)
               | None -> O) de
          | Panic -> Panic)

(** val move_to_line_up :
    (str -> str list) -> (str -> nat) -> nat -> nat -> bool m **)

let move_to_line_up seg0 width n0 prompt_col =
  bind get (fun b ->
    bind (lift (slice_to b.buf b.pos)) (fun l ->
      match rfind_char lF l with
      | Some off ->
        bind (lift (slice b.buf (add off (S O)) b.pos)) (fun cur ->
          let column = width cur in
          bind (lift (slice_to b.buf off)) (fun l2 ->
            let ds0 =
              match rfind_char lF l2 with
              | Some k -> add k (S O)
              | None -> O
            in
            bind (lift (line_up_loop b.buf (sub n0 (S O)) ds0 off))
              (fun se ->
              let (ds, de) = se in
              let offset = if Nat.eqb ds O then prompt_col else O in
              bind (lift (slice b.buf ds de)) (fun dest ->
                bind
                  (put_pos
                    (match nth_error (gindices seg0 dest) (sub column offset) with
                     | Some p -> let (idx, _) = p in add ds idx
                     | None -> de)) (fun _ -> ret true)))))
      | None -> ret false))

(** val line_down_loop :
    str -> nat -> nat -> nat -> nat -> (nat * nat) res **)

let rec line_down_loop s len k dest_start dest_end =
  match k with
  | O -> Ok (dest_start, dest_end)
  | S k' ->
    if Nat.eqb dest_end len
    then Ok (dest_start, dest_end)
    else let ds = add dest_end (S O) in
         (match slice_from s ds with
          | Ok r ->
            line_down_loop s len k' ds
              (match find_char lF r with
               | Some v -> add ds v
               | None -> len)
          | Panic -> Panic)

(** val move_to_line_down :
    (str -> str list) -> (str -> nat) -> nat -> nat -> bool m **)

let move_to_line_down seg0 width n0 prompt_col =
  bind get (fun b ->
    bind (lift (slice_from b.buf b.pos)) (fun r ->
      match find_char lF r with
      | Some off ->
        bind (lift (slice_to b.buf b.pos)) (fun l ->
          let line_start =
            match rfind_char lF l with
            | Some k -> add k (S O)
            | None -> O
          in
          let offset = if Nat.eqb line_start O then prompt_col else O in
          bind (lift (slice b.buf line_start b.pos)) (fun cur ->
            let column =
              Nat.min (add (width cur) offset)
                (N.to_nat (Npos (XI (XI (XI (XI (XI (XI (XI (XI (XI (XI (XI
                  (XI (XI (XI (XI XH)))))))))))))))))
            in
            let ds0 = add (add b.pos off) (S O) in
            bind (lift (slice_from b.buf ds0)) (fun r2 ->
              let de0 =
                match find_char lF r2 with
                | Some v -> add ds0 v
                | None -> lb_len b
              in
              bind
                (lift
                  (line_down_loop b.buf (lb_len b) (sub n0 (S O)) ds0 de0))
                (fun se ->
                let (ds, de) = se in
                bind (lift (slice b.buf ds de)) (fun dest ->
                  bind
                    (put_pos
                      (match nth_error (gindices seg0 dest) column with
                       | Some p -> let (idx, _) = p in add ds idx
                       | None -> de)) (fun _ -> ret true))))))
      | None -> ret false))

type lbop =
| OpIns of n * nat
| OpYank of str * nat
| OpYankPop of nat * str
| OpMoveBackward of nat
| OpMoveForward of nat
| OpBufferStart
| OpBufferEnd
| OpHome
| OpEnd
| OpIsEndOfInput
| OpDelete of nat
| OpBackspace of nat
| OpKillLine
| OpKillBuffer
| OpDiscardLine
| OpDiscardBuffer
| OpTransposeChars
| OpPrevWord of word_def * nat
| OpDeletePrevWord of word_def * nat
| OpNextWord of at_pos * word_def * nat
| OpMoveTo of char_search * nat
| OpDeleteWord of at_pos * word_def * nat
| OpDeleteTo of char_search * nat
| OpEditWord of word_action
| OpTransposeWords of nat
| OpReplace of nat * nat * str
| OpInsertStr of nat * str
| OpDeleteRange of nat * nat
| OpCopy of movement
| OpKill of movement
| OpIndent of movement * nat * bool
| OpUpdate of str * nat
| OpSetPos of nat
| OpNextPos of nat

type lbret =
| RUnit
| RBool of bool
| ROptBool of bool option
| ROptStr of str option
| ROptNat of nat option

(** val mapM : ('a1 -> 'a2) -> 'a1 m -> 'a2 m **)

let mapM f m0 =
  bind m0 (fun a -> ret (f a))

(** val pureM : (lb -> 'a1 res) -> 'a1 m **)

let pureM f =
  bind get (fun b -> lift (f b))

(** val lb_apply : uData -> (str -> str list) -> lbop -> lbret m **)

let lb_apply u seg0 = function
| OpIns (c, n0) -> mapM (fun x -> ROptBool x) (insert c n0)
| OpYank (s, n0) -> mapM (fun x -> ROptBool x) (yank s n0)
| OpYankPop (k, s) -> mapM (fun x -> ROptBool x) (yank_pop k s)
| OpMoveBackward n0 -> mapM (fun x -> RBool x) (move_backward seg0 n0)
| OpMoveForward n0 -> mapM (fun x -> RBool x) (move_forward seg0 n0)
| OpBufferStart -> mapM (fun x -> RBool x) move_buffer_start
| OpBufferEnd -> mapM (fun x -> RBool x) move_buffer_end
| OpHome -> mapM (fun x -> RBool x) move_home
| OpEnd -> mapM (fun x -> RBool x) move_end
| OpIsEndOfInput -> pureM (fun b -> Ok (RBool (is_end_of_input u b)))
| OpDelete n0 -> mapM (fun x -> ROptStr x) (delete seg0 n0)
| OpBackspace n0 -> mapM (fun x -> RBool x) (backspace seg0 n0)
| OpKillLine -> mapM (fun x -> RBool x) (kill_line seg0)
| OpKillBuffer -> mapM (fun x -> RBool x) kill_buffer
| OpDiscardLine -> mapM (fun x -> RBool x) (discard_line seg0)
| OpDiscardBuffer -> mapM (fun x -> RBool x) discard_buffer
| OpTransposeChars -> mapM (fun x -> RBool x) (transpose_chars seg0)
| OpPrevWord (w, n0) ->
  mapM (fun x -> RBool x) (move_to_prev_word u seg0 w n0)
| OpDeletePrevWord (w, n0) ->
  mapM (fun x -> RBool x) (delete_prev_word u seg0 w n0)
| OpNextWord (a, w, n0) ->
  mapM (fun x -> RBool x) (move_to_next_word u seg0 a w n0)
| OpMoveTo (cs, n0) -> mapM (fun x -> RBool x) (move_to seg0 cs n0)
| OpDeleteWord (a, w, n0) ->
  mapM (fun x -> RBool x) (delete_word u seg0 a w n0)
| OpDeleteTo (cs, n0) -> mapM (fun x -> RBool x) (delete_to seg0 cs n0)
| OpEditWord a -> mapM (fun x -> RBool x) (edit_word u seg0 a)
| OpTransposeWords n0 -> mapM (fun x -> RBool x) (transpose_words u seg0 n0)
| OpReplace (a, b, s) -> mapM (fun _ -> RUnit) (replace a b s)
| OpInsertStr (i, s) -> mapM (fun x -> RBool x) (insert_str i s)
| OpDeleteRange (a, b) -> mapM (fun _ -> RUnit) (delete_range a b)
| OpCopy m0 ->
  pureM (fun b ->
    match copy u seg0 b m0 with
    | Ok r -> Ok (ROptStr r)
    | Panic -> Panic)
| OpKill m0 -> mapM (fun x -> RBool x) (kill u seg0 m0)
| OpIndent (m0, a, d) -> mapM (fun x -> RBool x) (indent u seg0 m0 a d)
| OpUpdate (s, p) -> mapM (fun _ -> RUnit) (update s p)
| OpSetPos p -> mapM (fun _ -> RUnit) (set_pos p)
| OpNextPos n0 ->
  pureM (fun b ->
    match next_pos seg0 b n0 with
    | Ok r -> Ok (ROptNat r)
    | Panic -> Panic)

(** val lb_run :
    uData -> (str -> str list) -> lbop list -> lb -> ((lbret * lb) * event
    list) option list **)

let rec lb_run u seg0 ops b =
  match ops with
  | [] -> []
  | o :: t ->
    (match lb_apply u seg0 o b with
     | Ok a ->
       let (p, ev) = a in
       let (r, b') = p in (Some ((r, b'), ev)) :: (lb_run u seg0 t b')
     | Panic -> None :: [])

type change =
| UBegin
| UEnd
| UInsert of nat * str
| UDelete of nat * str
| UReplace of nat * str * str

type changeset = { cs_level : nat; cs_undos : change list }

(** val cs_new : changeset **)

let cs_new =
  { cs_level = O; cs_undos = [] }

(** val cs_begin : changeset -> changeset * nat **)

let cs_begin c =
  ({ cs_level = (S c.cs_level); cs_undos = (UBegin :: c.cs_undos) },
    (length c.cs_undos))

(** val cs_end_loop : nat -> change list -> bool -> change list * bool **)

let rec cs_end_loop level undos touched =
  match level with
  | O -> (undos, touched)
  | S l ->
    (match undos with
     | [] -> cs_end_loop l (UEnd :: undos) true
     | c :: rest ->
       (match c with
        | UBegin -> cs_end_loop l rest touched
        | _ -> cs_end_loop l (UEnd :: undos) true))

(** val cs_end : changeset -> changeset * bool **)

let cs_end c =
  let (u, t) = cs_end_loop c.cs_level c.cs_undos false in
  ({ cs_level = O; cs_undos = u }, t)

(** val cs_insert : uData -> changeset -> nat -> n -> changeset **)

let cs_insert u c idx ch =
  match c.cs_undos with
  | [] ->
    { cs_level = c.cs_level; cs_undos = ((UInsert (idx,
      (ch :: []))) :: c.cs_undos) }
  | c0 :: rest ->
    (match c0 with
     | UInsert (i, text) ->
       if (&&) (u.u_is_alphanumeric ch) (Nat.eqb (add i (blen text)) idx)
       then { cs_level = c.cs_level; cs_undos = ((UInsert (i,
              (app text (ch :: [])))) :: rest) }
       else { cs_level = c.cs_level; cs_undos = ((UInsert (idx,
              (ch :: []))) :: c.cs_undos) }
     | _ ->
       { cs_level = c.cs_level; cs_undos = ((UInsert (idx,
         (ch :: []))) :: c.cs_undos) })

(** val cs_insert_str : changeset -> nat -> str -> changeset **)

let cs_insert_str c idx s = match s with
| [] -> c
| _ :: _ ->
  { cs_level = c.cs_level; cs_undos = ((UInsert (idx, s)) :: c.cs_undos) }

(** val single_char : uData -> (str -> str list) -> str -> bool **)

let single_char u seg0 s =
  match seg0 s with
  | [] -> false
  | g :: l ->
    (match l with
     | [] -> forallb u.u_is_alphanumeric g
     | _ :: _ -> false)

(** val cs_delete :
    uData -> (str -> str list) -> changeset -> nat -> str -> changeset **)

let cs_delete u seg0 c indx s = match s with
| [] -> c
| _ :: _ ->
  (match c.cs_undos with
   | [] ->
     { cs_level = c.cs_level; cs_undos = ((UDelete (indx, s)) :: c.cs_undos) }
   | c0 :: rest ->
     (match c0 with
      | UDelete (i, text) ->
        if (&&) (single_char u seg0 s)
             ((||) (Nat.eqb i indx) (Nat.eqb i (add indx (blen s))))
        then if Nat.eqb i indx
             then { cs_level = c.cs_level; cs_undos = ((UDelete (i,
                    (app text s))) :: rest) }
             else { cs_level = c.cs_level; cs_undos = ((UDelete (indx,
                    (app s text))) :: rest) }
        else { cs_level = c.cs_level; cs_undos = ((UDelete (indx,
               s)) :: c.cs_undos) }
      | _ ->
        { cs_level = c.cs_level; cs_undos = ((UDelete (indx,
          s)) :: c.cs_undos) }))

(** val cs_replace : changeset -> nat -> str -> str -> changeset **)

let cs_replace c indx old_ new_ =
  match c.cs_undos with
  | [] ->
    { cs_level = c.cs_level; cs_undos = ((UReplace (indx, old_,
      new_)) :: c.cs_undos) }
  | c0 :: rest ->
    (match c0 with
     | UReplace (i, old, new0) ->
       if Nat.eqb (add i (blen new0)) indx
       then { cs_level = c.cs_level; cs_undos = ((UReplace (i,
              (app old old_), (app new0 new_))) :: rest) }
       else { cs_level = c.cs_level; cs_undos = ((UReplace (indx, old_,
              new_)) :: c.cs_undos) }
     | _ ->
       { cs_level = c.cs_level; cs_undos = ((UReplace (indx, old_,
         new_)) :: c.cs_undos) })

(** val cs_notify :
    uData -> (str -> str list) -> changeset -> event -> changeset **)

let cs_notify u seg0 c = function
| EInsertChar (i, ch) -> cs_insert u c i ch
| EInsertStr (i, s) -> cs_insert_str c i s
| EDelete (i, s, _) -> cs_delete u seg0 c i s
| EReplace (i, o, n0) -> cs_replace c i o n0
| _ -> c

(** val cs_notify_all :
    uData -> (str -> str list) -> changeset -> event list -> changeset **)

let cs_notify_all u seg0 c es =
  fold_left (cs_notify u seg0) es c

(** val change_undo : change -> lb -> lb res **)

let change_undo ch b =
  match ch with
  | UInsert (idx, text) ->
    (match delete_range idx (add idx (blen text)) b with
     | Ok a -> let (p, _) = a in let (_, b') = p in Ok b'
     | Panic -> Panic)
  | UDelete (idx, text) ->
    (match insert_str idx text b with
     | Ok a ->
       let (p, _) = a in
       let (_, b') = p in
       (match set_pos (add idx (blen text)) b' with
        | Ok a0 -> let (p1, _) = a0 in let (_, b'') = p1 in Ok b''
        | Panic -> Panic)
     | Panic -> Panic)
  | UReplace (idx, old, new0) ->
    (match replace idx (add idx (blen new0)) old b with
     | Ok a -> let (p, _) = a in let (_, b') = p in Ok b'
     | Panic -> Panic)
  | _ -> Panic

(** val cs_undo_loop :
    change list -> lb -> nat -> nat -> z -> bool -> ((change
    list * lb) * bool) res **)

let rec cs_undo_loop undos b n0 count waiting undone =
  match undos with
  | [] -> Ok (([], b), undone)
  | ch :: rest ->
    let step = fun b' waiting' undone' ->
      if Z.leb waiting' Z0
      then if Nat.leb n0 (S count)
           then Ok ((rest, b'), undone')
           else cs_undo_loop rest b' n0 (S count) waiting' undone'
      else cs_undo_loop rest b' n0 count waiting' undone'
    in
    (match ch with
     | UBegin -> step b (Z.sub waiting (Zpos XH)) undone
     | UEnd -> step b (Z.add waiting (Zpos XH)) undone
     | _ ->
       (match change_undo ch b with
        | Ok b' -> step b' waiting true
        | Panic -> Panic))

(** val cs_undo : changeset -> lb -> nat -> ((changeset * lb) * bool) res **)

let cs_undo c b n0 =
  match cs_undo_loop c.cs_undos b n0 O Z0 false with
  | Ok a ->
    let (p, d) = a in
    let (u, b') = p in Ok (({ cs_level = c.cs_level; cs_undos = u }, b'), d)
  | Panic -> Panic

(** val trunc_level : change list -> nat -> nat **)

let rec trunc_level dropped level =
  match dropped with
  | [] -> level
  | ch :: rest ->
    let l = trunc_level rest level in
    (match ch with
     | UBegin -> sub l (S O)
     | UEnd -> S l
     | _ -> l)

(** val cs_truncate : changeset -> nat -> changeset **)

let cs_truncate c len =
  let k = sub (length c.cs_undos) len in
  { cs_level = (trunc_level (firstn k c.cs_undos) c.cs_level); cs_undos =
  (skipn k c.cs_undos) }

(** val cs_last_insert_go : change list -> str option **)

let rec cs_last_insert_go = function
| [] -> None
| c :: rest ->
  (match c with
   | UEnd -> cs_last_insert_go rest
   | UInsert (_, text) -> Some text
   | UReplace (_, _, new0) -> Some new0
   | _ -> None)

(** val cs_last_insert : changeset -> str option **)

let cs_last_insert c =
  cs_last_insert_go c.cs_undos

type kr_action =
| KAKill
| KAYank of nat
| KAOther

type kr_mode =
| KAppend
| KPrepend

type killring = { kr_slots : str list; kr_cap : nat; kr_index : nat;
                  kr_last : kr_action; kr_killing : bool; kr_newest : 
                  nat }

(** val kr_new : nat -> killring **)

let kr_new size =
  { kr_slots = []; kr_cap = size; kr_index = O; kr_last = KAOther;
    kr_killing = false; kr_newest = O }

(** val kr_reset : killring -> killring **)

let kr_reset k =
  { kr_slots = k.kr_slots; kr_cap = k.kr_cap; kr_index = k.kr_index;
    kr_last = KAOther; kr_killing = k.kr_killing; kr_newest = k.kr_newest }

(** val list_set : 'a1 list -> nat -> 'a1 -> 'a1 list **)

let rec list_set l i x =
  match l with
  | [] -> []
  | a :: t -> (match i with
               | O -> x :: t
               | S j -> a :: (list_set t j x))

(** val kr_kill : killring -> str -> kr_mode -> killring res **)

let kr_kill k text m0 =
  match k.kr_last with
  | KAKill ->
    if Nat.eqb k.kr_cap O
    then Ok k
    else (match nth_error k.kr_slots k.kr_index with
          | Some s ->
            let s' =
              match m0 with
              | KAppend -> app s text
              | KPrepend -> app text s
            in
            Ok { kr_slots = (list_set k.kr_slots k.kr_index s'); kr_cap =
            k.kr_cap; kr_index = k.kr_index; kr_last = KAKill; kr_killing =
            k.kr_killing; kr_newest = k.kr_newest }
          | None -> Panic)
  | _ ->
    if Nat.eqb k.kr_cap O
    then Ok { kr_slots = k.kr_slots; kr_cap = k.kr_cap; kr_index =
           k.kr_index; kr_last = KAKill; kr_killing = k.kr_killing;
           kr_newest = k.kr_newest }
    else let idx =
           if Nat.eqb k.kr_newest (sub k.kr_cap (S O))
           then O
           else if negb (Nat.eqb (length k.kr_slots) O)
                then S k.kr_newest
                else k.kr_newest
         in
         if Nat.eqb idx (length k.kr_slots)
         then Ok { kr_slots = (app k.kr_slots (text :: [])); kr_cap =
                k.kr_cap; kr_index = idx; kr_last = KAKill; kr_killing =
                k.kr_killing; kr_newest = idx }
         else if Nat.ltb idx (length k.kr_slots)
              then Ok { kr_slots = (list_set k.kr_slots idx text); kr_cap =
                     k.kr_cap; kr_index = idx; kr_last = KAKill; kr_killing =
                     k.kr_killing; kr_newest = idx }
              else Panic

(** val kr_repeated : killring -> nat -> killring **)

let kr_repeated k n0 =
  match k.kr_last with
  | KAYank size ->
    { kr_slots = k.kr_slots; kr_cap = k.kr_cap; kr_index = k.kr_index;
      kr_last = (KAYank (mul size n0)); kr_killing = k.kr_killing;
      kr_newest = k.kr_newest }
  | _ -> k

(** val kr_yank : killring -> killring * str option **)

let kr_yank k =
  match nth_error k.kr_slots k.kr_index with
  | Some s ->
    ({ kr_slots = k.kr_slots; kr_cap = k.kr_cap; kr_index = k.kr_index;
      kr_last = (KAYank (blen s)); kr_killing = k.kr_killing; kr_newest =
      k.kr_newest }, (Some s))
  | None -> (k, None)

(** val kr_yank_pop : killring -> killring * (nat * str) option **)

let kr_yank_pop k =
  match k.kr_last with
  | KAYank size ->
    (match k.kr_slots with
     | [] -> (k, None)
     | _ :: _ ->
       let idx =
         if Nat.eqb k.kr_index O
         then sub (length k.kr_slots) (S O)
         else sub k.kr_index (S O)
       in
       (match nth_error k.kr_slots idx with
        | Some s ->
          ({ kr_slots = k.kr_slots; kr_cap = k.kr_cap; kr_index = idx;
            kr_last = (KAYank (blen s)); kr_killing = k.kr_killing;
            kr_newest = k.kr_newest }, (Some (size, s)))
        | None -> (k, None)))
  | _ -> (k, None)

(** val kr_notify : killring -> event -> killring res **)

let kr_notify k = function
| EDelete (_, s, d) ->
  if k.kr_killing
  then kr_kill k s (match d with
                    | DForward -> KAppend
                    | DBackward -> KPrepend)
  else Ok k
| EStartKill ->
  Ok { kr_slots = k.kr_slots; kr_cap = k.kr_cap; kr_index = k.kr_index;
    kr_last = k.kr_last; kr_killing = true; kr_newest = k.kr_newest }
| EStopKill ->
  Ok { kr_slots = k.kr_slots; kr_cap = k.kr_cap; kr_index = k.kr_index;
    kr_last = k.kr_last; kr_killing = false; kr_newest = k.kr_newest }
| _ -> Ok k

(** val kr_notify_all : killring -> event list -> killring res **)

let rec kr_notify_all k = function
| [] -> Ok k
| e0 :: t ->
  (match kr_notify k e0 with
   | Ok k' -> kr_notify_all k' t
   | Panic -> Panic)

type pos2 = { p_col : nat; p_row : nat }

(** val p0 : pos2 **)

let p0 =
  { p_col = O; p_row = O }

(** val pos2_eqb : pos2 -> pos2 -> bool **)

let pos2_eqb a b =
  (&&) (Nat.eqb a.p_col b.p_col) (Nat.eqb a.p_row b.p_row)

type layout = { l_prompt_size : pos2; l_default_prompt : bool;
                l_cursor : pos2; l_end : pos2 }

(** val layout0 : layout **)

let layout0 =
  { l_prompt_size = p0; l_default_prompt = false; l_cursor = p0; l_end = p0 }

(** val wcwidth : uData -> str -> nat **)

let wcwidth u g =
  fold_left (fun a c -> add a (u.u_width c)) g O

(** val gwidth : uData -> str -> nat -> nat * nat **)

let gwidth u g = function
| O ->
  if str_eqb g ((Npos (XI (XI (XO (XI XH))))) :: [])
  then (O, (S O))
  else if str_eqb g ((Npos (XO (XI (XO XH)))) :: [])
       then (O, O)
       else ((wcwidth u g), O)
| S n0 ->
  (match n0 with
   | O ->
     (O,
       (if str_eqb g ((Npos (XI (XI (XO (XI (XI (XO XH))))))) :: [])
        then S (S O)
        else O))
   | S n1 ->
     (match n1 with
      | O ->
        (O,
          (if (||) (str_eqb g ((Npos (XI (XI (XO (XI (XI XH)))))) :: []))
                (match g with
                 | [] -> false
                 | c :: _ ->
                   (&&) (N.leb (Npos (XO (XO (XO (XO (XI XH)))))) c)
                     (N.leb c (Npos (XI (XO (XO (XI (XI XH))))))))
           then S (S O)
           else O))
      | S _ ->
        if str_eqb g ((Npos (XI (XI (XO (XI XH))))) :: [])
        then (O, (S O))
        else if str_eqb g ((Npos (XO (XI (XO XH)))) :: [])
             then (O, O)
             else ((wcwidth u g), O)))

(** val calc_go : uData -> nat -> nat -> str list -> pos2 -> nat -> pos2 **)

let rec calc_go u cols0 tab_stop gs p esc0 =
  match gs with
  | [] -> p
  | g :: t ->
    if str_eqb g ((Npos (XO (XI (XO XH)))) :: [])
    then calc_go u cols0 tab_stop t { p_col = O; p_row = (S p.p_row) } esc0
    else let (cw, esc') =
           if str_eqb g ((Npos (XI (XO (XO XH)))) :: [])
           then ((sub tab_stop (Nat.modulo p.p_col tab_stop)), esc0)
           else gwidth u g esc0
         in
         let col = add p.p_col cw in
         if Nat.ltb cols0 col
         then calc_go u cols0 tab_stop t { p_col = cw; p_row = (S p.p_row) }
                esc'
         else calc_go u cols0 tab_stop t { p_col = col; p_row = p.p_row } esc'

(** val calculate_position :
    uData -> (str -> str list) -> nat -> nat -> str -> pos2 -> pos2 **)

let calculate_position u seg0 cols0 tab_stop s orig =
  let p = calc_go u cols0 tab_stop (seg0 s) orig O in
  if Nat.eqb p.p_col cols0 then { p_col = O; p_row = (S p.p_row) } else p

(** val layout_width : uData -> str -> nat **)

let layout_width =
  wcwidth

(** val compute_layout :
    uData -> (str -> str list) -> nat -> nat -> pos2 -> bool -> str -> str ->
    str option -> layout **)

let compute_layout u seg0 cols0 tab_stop prompt_size default_prompt before after info =
  let cursor = calculate_position u seg0 cols0 tab_stop before prompt_size in
  let e0 =
    match after with
    | [] -> cursor
    | _ :: _ -> calculate_position u seg0 cols0 tab_stop after cursor
  in
  let e' =
    match info with
    | Some i -> calculate_position u seg0 cols0 tab_stop i e0
    | None -> e0
  in
  { l_prompt_size = prompt_size; l_default_prompt = default_prompt;
  l_cursor = cursor; l_end = e' }

(** val digits_fuel : nat -> nat -> str -> str **)

let rec digits_fuel fuel n0 acc =
  match fuel with
  | O -> acc
  | S f ->
    let d = N.of_nat (Nat.modulo n0 (S (S (S (S (S (S (S (S (S (S O)))))))))))
    in
    let acc' = (N.add (Npos (XO (XO (XO (XO (XI XH)))))) d) :: acc in
    if Nat.ltb n0 (S (S (S (S (S (S (S (S (S (S O))))))))))
    then acc'
    else digits_fuel f (Nat.div n0 (S (S (S (S (S (S (S (S (S (S O)))))))))))
           acc'

(** val dec : nat -> str **)

let dec n0 =
  digits_fuel (S n0) n0 []

(** val eSC : n **)

let eSC =
  Npos (XI (XI (XO (XI XH))))

(** val csi : nat -> n -> str **)

let csi n0 final =
  app (eSC :: ((Npos (XI (XI (XO (XI (XI (XO XH))))))) :: []))
    (app (dec n0) (final :: []))

(** val clear_old_rows : layout -> str **)

let clear_old_rows lay =
  let cur = lay.l_cursor.p_row in
  let old_rows = lay.l_end.p_row in
  let mv = sub old_rows cur in
  app
    (if Nat.ltb O mv
     then csi mv (Npos (XO (XI (XO (XO (XO (XO XH)))))))
     else [])
    (app
      (concat
        (repeat ((Npos (XI (XO (XI XH)))) :: (eSC :: ((Npos (XI (XI (XO (XI
          (XI (XO XH))))))) :: ((Npos (XI (XI (XO (XI (XO (XO
          XH))))))) :: (eSC :: ((Npos (XI (XI (XO (XI (XI (XO
          XH))))))) :: ((Npos (XI (XO (XO (XO (XO (XO XH))))))) :: [])))))))
          old_rows)) ((Npos (XI (XO (XI XH)))) :: (eSC :: ((Npos (XI (XI (XO
      (XI (XI (XO XH))))))) :: ((Npos (XI (XI (XO (XI (XO (XO
      XH))))))) :: [])))))

(** val ends_with_lf : str -> bool **)

let rec ends_with_lf = function
| [] -> false
| c :: t ->
  (match t with
   | [] -> N.eqb c (Npos (XO (XI (XO XH))))
   | _ :: _ -> ends_with_lf t)

(** val refresh_bytes :
    str -> str -> str -> str option -> layout -> layout -> str **)

let refresh_bytes prompt line_shown line_raw hint old new0 =
  let cursor = new0.l_cursor in
  let e0 = new0.l_end in
  app (clear_old_rows old)
    (app prompt
      (app line_shown
        (app (match hint with
              | Some h -> h
              | None -> [])
          (app
            (if (&&) ((&&) (Nat.eqb e0.p_col O) (Nat.ltb O e0.p_row))
                  (negb
                    (match hint with
                     | Some h -> ends_with_lf h
                     | None -> ends_with_lf line_raw))
             then (Npos (XO (XI (XO XH)))) :: []
             else [])
            (app
              (let up = sub e0.p_row cursor.p_row in
               if Nat.ltb O up
               then csi up (Npos (XI (XO (XO (XO (XO (XO XH)))))))
               else [])
              (if Nat.ltb O cursor.p_col
               then app ((Npos (XI (XO (XI XH)))) :: [])
                      (csi cursor.p_col (Npos (XI (XI (XO (XO (XO (XO
                        XH))))))))
               else (Npos (XI (XO (XI XH)))) :: []))))))

(** val move_one_or_n : nat -> n -> str **)

let move_one_or_n n0 final =
  if Nat.eqb n0 (S O)
  then eSC :: ((Npos (XI (XI (XO (XI (XI (XO XH))))))) :: (final :: []))
  else csi n0 final

(** val move_cursor_bytes : pos2 -> pos2 -> str **)

let move_cursor_bytes old new0 =
  app
    (if Nat.ltb old.p_row new0.p_row
     then move_one_or_n (sub new0.p_row old.p_row) (Npos (XO (XI (XO (XO (XO
            (XO XH)))))))
     else if Nat.ltb new0.p_row old.p_row
          then move_one_or_n (sub old.p_row new0.p_row) (Npos (XI (XO (XO (XO
                 (XO (XO XH)))))))
          else [])
    (if Nat.ltb old.p_col new0.p_col
     then move_one_or_n (sub new0.p_col old.p_col) (Npos (XI (XI (XO (XO (XO
            (XO XH)))))))
     else if Nat.ltb new0.p_col old.p_col
          then move_one_or_n (sub old.p_col new0.p_col) (Npos (XO (XO (XI (XO
                 (XO (XO XH)))))))
          else [])

type keycode =
| KChar of n
| KBackspace
| KBackTab
| KDelete
| KDown
| KEnd
| KEnter
| KEsc
| KF of nat
| KHome
| KInsert
| KLeft
| KNull
| KPageDown
| KPageUp
| KRight
| KTab
| KUp
| KUnknown
| KPasteStart
| KPasteEnd

type mods = { m_ctrl : bool; m_alt : bool; m_shift : bool }

type key = keycode * mods

(** val m_NONE : mods **)

let m_NONE =
  { m_ctrl = false; m_alt = false; m_shift = false }

(** val m_CTRL : mods **)

let m_CTRL =
  { m_ctrl = true; m_alt = false; m_shift = false }

(** val m_ALT : mods **)

let m_ALT =
  { m_ctrl = false; m_alt = true; m_shift = false }

(** val m_CTRL_ALT : mods **)

let m_CTRL_ALT =
  { m_ctrl = true; m_alt = true; m_shift = false }

(** val mods_eqb : mods -> mods -> bool **)

let mods_eqb a b =
  (&&) ((&&) (eqb a.m_ctrl b.m_ctrl) (eqb a.m_alt b.m_alt))
    (eqb a.m_shift b.m_shift)

(** val mods_empty : mods -> bool **)

let mods_empty m0 =
  mods_eqb m0 m_NONE

(** val with_ctrl : mods -> mods **)

let with_ctrl m0 =
  { m_ctrl = true; m_alt = m0.m_alt; m_shift = m0.m_shift }

(** val with_alt : mods -> mods **)

let with_alt m0 =
  { m_ctrl = m0.m_ctrl; m_alt = true; m_shift = m0.m_shift }

(** val no_shift : mods -> mods **)

let no_shift m0 =
  { m_ctrl = m0.m_ctrl; m_alt = m0.m_alt; m_shift = false }

(** val keycode_eqb : keycode -> keycode -> bool **)

let keycode_eqb a b =
  match a with
  | KChar x -> (match b with
                | KChar y -> N.eqb x y
                | _ -> false)
  | KBackspace -> (match b with
                   | KBackspace -> true
                   | _ -> false)
  | KBackTab -> (match b with
                 | KBackTab -> true
                 | _ -> false)
  | KDelete -> (match b with
                | KDelete -> true
                | _ -> false)
  | KDown -> (match b with
              | KDown -> true
              | _ -> false)
  | KEnd -> (match b with
             | KEnd -> true
             | _ -> false)
  | KEnter -> (match b with
               | KEnter -> true
               | _ -> false)
  | KEsc -> (match b with
             | KEsc -> true
             | _ -> false)
  | KF x -> (match b with
             | KF y -> Nat.eqb x y
             | _ -> false)
  | KHome -> (match b with
              | KHome -> true
              | _ -> false)
  | KInsert -> (match b with
                | KInsert -> true
                | _ -> false)
  | KLeft -> (match b with
              | KLeft -> true
              | _ -> false)
  | KNull -> (match b with
              | KNull -> true
              | _ -> false)
  | KPageDown -> (match b with
                  | KPageDown -> true
                  | _ -> false)
  | KPageUp -> (match b with
                | KPageUp -> true
                | _ -> false)
  | KRight -> (match b with
               | KRight -> true
               | _ -> false)
  | KTab -> (match b with
             | KTab -> true
             | _ -> false)
  | KUp -> (match b with
            | KUp -> true
            | _ -> false)
  | KUnknown -> (match b with
                 | KUnknown -> true
                 | _ -> false)
  | KPasteStart -> (match b with
                    | KPasteStart -> true
                    | _ -> false)
  | KPasteEnd -> (match b with
                  | KPasteEnd -> true
                  | _ -> false)

(** val key_eqb : key -> key -> bool **)

let key_eqb a b =
  (&&) (keycode_eqb (fst a) (fst b)) (mods_eqb (snd a) (snd b))

(** val key_new : uData -> n -> mods -> key **)

let key_new u c m0 =
  if negb (u.u_is_control c)
  then ((KChar c), (if mods_empty m0 then m0 else no_shift m0))
  else if N.eqb c N0
       then ((KChar (Npos (XO (XO (XO (XO (XO (XO XH)))))))), (with_ctrl m0))
       else if N.eqb c (Npos (XO (XO (XO XH))))
            then (KBackspace, m0)
            else if N.eqb c (Npos (XI (XO (XO XH))))
                 then if m0.m_shift
                      then (KBackTab, (no_shift m0))
                      else (KTab, m0)
                 else if N.eqb c (Npos (XI (XO (XI XH))))
                      then (KEnter, m0)
                      else if N.eqb c (Npos (XI (XI (XO (XI XH)))))
                           then (KEsc, m0)
                           else if N.ltb c (Npos (XO (XO (XO (XO (XO XH))))))
                                then ((KChar
                                       (N.add c (Npos (XO (XO (XO (XO (XO (XO
                                         XH))))))))), (with_ctrl m0))
                                else if N.eqb c (Npos (XI (XI (XI (XI (XI (XI
                                          XH)))))))
                                     then (KBackspace, m0)
                                     else if N.eqb c (Npos (XI (XI (XO (XI
                                               (XI (XO (XO XH))))))))
                                          then (KEsc, { m_ctrl = m0.m_ctrl;
                                                 m_alt = m0.m_alt; m_shift =
                                                 true })
                                          else (KNull, m0)

(** val is_digit : n -> bool **)

let is_digit c =
  (&&) (N.leb (Npos (XO (XO (XO (XO (XI XH)))))) c)
    (N.leb c (Npos (XI (XO (XO (XI (XI XH)))))))

(** val assoc_key : n list -> (n list * key) list -> key option **)

let rec assoc_key k = function
| [] -> None
| p1 :: rest ->
  let (p, v) = p1 in if str_eqb p k then Some v else assoc_key k rest

(** val k_UNKNOWN : key **)

let k_UNKNOWN =
  (KUnknown, m_NONE)

(** val lookup_key : n list -> (n list * key) list -> key **)

let lookup_key k t =
  match assoc_key k t with
  | Some v -> v
  | None -> k_UNKNOWN

(** val tab_csi_ansi : (n list * key) list **)

let tab_csi_ansi =
  (((Npos (XI (XO (XO (XO (XO (XO XH))))))) :: []), (KUp, { m_ctrl = false;
    m_alt = false; m_shift = false })) :: ((((Npos (XO (XI (XO (XO (XO (XO
    XH))))))) :: []), (KDown, { m_ctrl = false; m_alt = false; m_shift =
    false })) :: ((((Npos (XI (XI (XO (XO (XO (XO XH))))))) :: []), (KRight,
    { m_ctrl = false; m_alt = false; m_shift = false })) :: ((((Npos (XO (XO
    (XI (XO (XO (XO XH))))))) :: []), (KLeft, { m_ctrl = false; m_alt =
    false; m_shift = false })) :: ((((Npos (XO (XI (XI (XO (XO (XO
    XH))))))) :: []), (KEnd, { m_ctrl = false; m_alt = false; m_shift =
    false })) :: ((((Npos (XO (XO (XO (XI (XO (XO XH))))))) :: []), (KHome,
    { m_ctrl = false; m_alt = false; m_shift = false })) :: ((((Npos (XO (XI
    (XO (XI (XI (XO XH))))))) :: []), (KBackTab, { m_ctrl = false; m_alt =
    false; m_shift = false })) :: ((((Npos (XI (XO (XO (XO (XO (XI
    XH))))))) :: []), (KUp, { m_ctrl = false; m_alt = false; m_shift =
    true })) :: ((((Npos (XO (XI (XO (XO (XO (XI XH))))))) :: []), (KDown,
    { m_ctrl = false; m_alt = false; m_shift = true })) :: ((((Npos (XI (XI
    (XO (XO (XO (XI XH))))))) :: []), (KRight, { m_ctrl = false; m_alt =
    false; m_shift = true })) :: ((((Npos (XO (XO (XI (XO (XO (XI
    XH))))))) :: []), (KLeft, { m_ctrl = false; m_alt = false; m_shift =
    true })) :: []))))))))))

(** val tab_csi_linux : (n list * key) list **)

let tab_csi_linux =
  (((Npos (XI (XO (XO (XO (XO (XO XH))))))) :: []), ((KF (S O)), { m_ctrl =
    false; m_alt = false; m_shift = false })) :: ((((Npos (XO (XI (XO (XO (XO
    (XO XH))))))) :: []), ((KF (S (S O))), { m_ctrl = false; m_alt = false;
    m_shift = false })) :: ((((Npos (XI (XI (XO (XO (XO (XO XH))))))) :: []),
    ((KF (S (S (S O)))), { m_ctrl = false; m_alt = false; m_shift =
    false })) :: ((((Npos (XO (XO (XI (XO (XO (XO XH))))))) :: []), ((KF (S
    (S (S (S O))))), { m_ctrl = false; m_alt = false; m_shift =
    false })) :: ((((Npos (XI (XO (XI (XO (XO (XO XH))))))) :: []), ((KF (S
    (S (S (S (S O)))))), { m_ctrl = false; m_alt = false; m_shift =
    false })) :: []))))

(** val tab_ext_tilde : (n list * key) list **)

let tab_ext_tilde =
  (((Npos (XI (XO (XO (XO (XI XH)))))) :: []), (KHome, { m_ctrl = false;
    m_alt = false; m_shift = false })) :: ((((Npos (XI (XI (XI (XO (XI
    XH)))))) :: []), (KHome, { m_ctrl = false; m_alt = false; m_shift =
    false })) :: ((((Npos (XO (XI (XO (XO (XI XH)))))) :: []), (KInsert,
    { m_ctrl = false; m_alt = false; m_shift = false })) :: ((((Npos (XI (XI
    (XO (XO (XI XH)))))) :: []), (KDelete, { m_ctrl = false; m_alt = false;
    m_shift = false })) :: ((((Npos (XO (XO (XI (XO (XI XH)))))) :: []),
    (KEnd, { m_ctrl = false; m_alt = false; m_shift = false })) :: ((((Npos
    (XO (XO (XO (XI (XI XH)))))) :: []), (KEnd, { m_ctrl = false; m_alt =
    false; m_shift = false })) :: ((((Npos (XI (XO (XI (XO (XI
    XH)))))) :: []), (KPageUp, { m_ctrl = false; m_alt = false; m_shift =
    false })) :: ((((Npos (XO (XI (XI (XO (XI XH)))))) :: []), (KPageDown,
    { m_ctrl = false; m_alt = false; m_shift = false })) :: [])))))))

(** val tab_ext_2d_tilde : (n list * key) list **)

let tab_ext_2d_tilde =
  (((Npos (XI (XO (XO (XO (XI XH)))))) :: ((Npos (XI (XO (XO (XO (XI
    XH)))))) :: [])), ((KF (S O)), { m_ctrl = false; m_alt = false; m_shift =
    false })) :: ((((Npos (XI (XO (XO (XO (XI XH)))))) :: ((Npos (XO (XI (XO
    (XO (XI XH)))))) :: [])), ((KF (S (S O))), { m_ctrl = false; m_alt =
    false; m_shift = false })) :: ((((Npos (XI (XO (XO (XO (XI
    XH)))))) :: ((Npos (XI (XI (XO (XO (XI XH)))))) :: [])), ((KF (S (S (S
    O)))), { m_ctrl = false; m_alt = false; m_shift = false })) :: ((((Npos
    (XI (XO (XO (XO (XI XH)))))) :: ((Npos (XO (XO (XI (XO (XI
    XH)))))) :: [])), ((KF (S (S (S (S O))))), { m_ctrl = false; m_alt =
    false; m_shift = false })) :: ((((Npos (XI (XO (XO (XO (XI
    XH)))))) :: ((Npos (XI (XO (XI (XO (XI XH)))))) :: [])), ((KF (S (S (S (S
    (S O)))))), { m_ctrl = false; m_alt = false; m_shift =
    false })) :: ((((Npos (XI (XO (XO (XO (XI XH)))))) :: ((Npos (XI (XI (XI
    (XO (XI XH)))))) :: [])), ((KF (S (S (S (S (S (S O))))))), { m_ctrl =
    false; m_alt = false; m_shift = false })) :: ((((Npos (XI (XO (XO (XO (XI
    XH)))))) :: ((Npos (XO (XO (XO (XI (XI XH)))))) :: [])), ((KF (S (S (S (S
    (S (S (S O)))))))), { m_ctrl = false; m_alt = false; m_shift =
    false })) :: ((((Npos (XI (XO (XO (XO (XI XH)))))) :: ((Npos (XI (XO (XO
    (XI (XI XH)))))) :: [])), ((KF (S (S (S (S (S (S (S (S O))))))))),
    { m_ctrl = false; m_alt = false; m_shift = false })) :: ((((Npos (XO (XI
    (XO (XO (XI XH)))))) :: ((Npos (XO (XO (XO (XO (XI XH)))))) :: [])), ((KF
    (S (S (S (S (S (S (S (S (S O)))))))))), { m_ctrl = false; m_alt = false;
    m_shift = false })) :: ((((Npos (XO (XI (XO (XO (XI XH)))))) :: ((Npos
    (XI (XO (XO (XO (XI XH)))))) :: [])), ((KF (S (S (S (S (S (S (S (S (S (S
    O))))))))))), { m_ctrl = false; m_alt = false; m_shift =
    false })) :: ((((Npos (XO (XI (XO (XO (XI XH)))))) :: ((Npos (XI (XI (XO
    (XO (XI XH)))))) :: [])), ((KF (S (S (S (S (S (S (S (S (S (S (S
    O)))))))))))), { m_ctrl = false; m_alt = false; m_shift =
    false })) :: ((((Npos (XO (XI (XO (XO (XI XH)))))) :: ((Npos (XO (XO (XI
    (XO (XI XH)))))) :: [])), ((KF (S (S (S (S (S (S (S (S (S (S (S (S
    O))))))))))))), { m_ctrl = false; m_alt = false; m_shift =
    false })) :: [])))))))))))

(** val tab_ext_2d_mod_tilde : (n list * key) list **)

let tab_ext_2d_mod_tilde =
  (((Npos (XI (XO (XO (XO (XI XH)))))) :: ((Npos (XI (XO (XI (XO (XI
    XH)))))) :: ((Npos (XI (XO (XI (XO (XI XH)))))) :: []))), ((KF (S (S (S
    (S (S O)))))), { m_ctrl = true; m_alt = false; m_shift =
    false })) :: ((((Npos (XI (XO (XO (XO (XI XH)))))) :: ((Npos (XI (XI (XI
    (XO (XI XH)))))) :: ((Npos (XI (XO (XI (XO (XI XH)))))) :: []))), ((KF (S
    (S (S (S (S (S O))))))), { m_ctrl = true; m_alt = false; m_shift =
    false })) :: ((((Npos (XI (XO (XO (XO (XI XH)))))) :: ((Npos (XO (XO (XO
    (XI (XI XH)))))) :: ((Npos (XI (XO (XI (XO (XI XH)))))) :: []))), ((KF (S
    (S (S (S (S (S (S O)))))))), { m_ctrl = true; m_alt = false; m_shift =
    false })) :: ((((Npos (XI (XO (XO (XO (XI XH)))))) :: ((Npos (XI (XO (XO
    (XI (XI XH)))))) :: ((Npos (XI (XO (XI (XO (XI XH)))))) :: []))), ((KF (S
    (S (S (S (S (S (S (S O))))))))), { m_ctrl = true; m_alt = false;
    m_shift = false })) :: ((((Npos (XO (XI (XO (XO (XI XH)))))) :: ((Npos
    (XO (XO (XO (XO (XI XH)))))) :: ((Npos (XI (XO (XI (XO (XI
    XH)))))) :: []))), ((KF (S (S (S (S (S (S (S (S (S O)))))))))),
    { m_ctrl = true; m_alt = false; m_shift = false })) :: ((((Npos (XO (XI
    (XO (XO (XI XH)))))) :: ((Npos (XI (XO (XO (XO (XI XH)))))) :: ((Npos (XI
    (XO (XI (XO (XI XH)))))) :: []))), ((KF (S (S (S (S (S (S (S (S (S (S
    O))))))))))), { m_ctrl = true; m_alt = false; m_shift =
    false })) :: ((((Npos (XO (XI (XO (XO (XI XH)))))) :: ((Npos (XI (XI (XO
    (XO (XI XH)))))) :: ((Npos (XI (XO (XI (XO (XI XH)))))) :: []))), ((KF (S
    (S (S (S (S (S (S (S (S (S (S O)))))))))))), { m_ctrl = true; m_alt =
    false; m_shift = false })) :: ((((Npos (XO (XI (XO (XO (XI
    XH)))))) :: ((Npos (XO (XO (XI (XO (XI XH)))))) :: ((Npos (XI (XO (XI (XO
    (XI XH)))))) :: []))), ((KF (S (S (S (S (S (S (S (S (S (S (S (S
    O))))))))))))), { m_ctrl = true; m_alt = false; m_shift =
    false })) :: [])))))))

(** val tab_ext_3d_tilde : (n list * key) list **)

let tab_ext_3d_tilde =
  (((Npos (XO (XI (XO (XO (XI XH)))))) :: ((Npos (XO (XO (XO (XO (XI
    XH)))))) :: ((Npos (XO (XO (XO (XO (XI XH)))))) :: []))), (KPasteStart,
    { m_ctrl = false; m_alt = false; m_shift = false })) :: ((((Npos (XO (XI
    (XO (XO (XI XH)))))) :: ((Npos (XO (XO (XO (XO (XI XH)))))) :: ((Npos (XI
    (XO (XO (XO (XI XH)))))) :: []))), (KPasteEnd, { m_ctrl = false; m_alt =
    false; m_shift = false })) :: [])

(** val tab_ext_1_mod : (n list * key) list **)

let tab_ext_1_mod =
  (((Npos (XO (XI (XO (XO (XI XH)))))) :: ((Npos (XI (XO (XO (XO (XO (XO
    XH))))))) :: [])), (KUp, { m_ctrl = false; m_alt = false; m_shift =
    true })) :: ((((Npos (XO (XI (XO (XO (XI XH)))))) :: ((Npos (XO (XI (XO
    (XO (XO (XO XH))))))) :: [])), (KDown, { m_ctrl = false; m_alt = false;
    m_shift = true })) :: ((((Npos (XO (XI (XO (XO (XI XH)))))) :: ((Npos (XI
    (XI (XO (XO (XO (XO XH))))))) :: [])), (KRight, { m_ctrl = false; m_alt =
    false; m_shift = true })) :: ((((Npos (XO (XI (XO (XO (XI
    XH)))))) :: ((Npos (XO (XO (XI (XO (XO (XO XH))))))) :: [])), (KLeft,
    { m_ctrl = false; m_alt = false; m_shift = true })) :: ((((Npos (XO (XI
    (XO (XO (XI XH)))))) :: ((Npos (XO (XI (XI (XO (XO (XO XH))))))) :: [])),
    (KEnd, { m_ctrl = false; m_alt = false; m_shift = true })) :: ((((Npos
    (XO (XI (XO (XO (XI XH)))))) :: ((Npos (XO (XO (XO (XI (XO (XO
    XH))))))) :: [])), (KHome, { m_ctrl = false; m_alt = false; m_shift =
    true })) :: ((((Npos (XI (XI (XO (XO (XI XH)))))) :: ((Npos (XI (XO (XO
    (XO (XO (XO XH))))))) :: [])), (KUp, { m_ctrl = false; m_alt = true;
    m_shift = false })) :: ((((Npos (XI (XI (XO (XO (XI XH)))))) :: ((Npos
    (XO (XI (XO (XO (XO (XO XH))))))) :: [])), (KDown, { m_ctrl = false;
    m_alt = true; m_shift = false })) :: ((((Npos (XI (XI (XO (XO (XI
    XH)))))) :: ((Npos (XI (XI (XO (XO (XO (XO XH))))))) :: [])), (KRight,
    { m_ctrl = false; m_alt = true; m_shift = false })) :: ((((Npos (XI (XI
    (XO (XO (XI XH)))))) :: ((Npos (XO (XO (XI (XO (XO (XO XH))))))) :: [])),
    (KLeft, { m_ctrl = false; m_alt = true; m_shift = false })) :: ((((Npos
    (XI (XI (XO (XO (XI XH)))))) :: ((Npos (XO (XI (XI (XO (XO (XO
    XH))))))) :: [])), (KEnd, { m_ctrl = false; m_alt = true; m_shift =
    false })) :: ((((Npos (XI (XI (XO (XO (XI XH)))))) :: ((Npos (XO (XO (XO
    (XI (XO (XO XH))))))) :: [])), (KHome, { m_ctrl = false; m_alt = true;
    m_shift = false })) :: ((((Npos (XO (XO (XI (XO (XI XH)))))) :: ((Npos
    (XI (XO (XO (XO (XO (XO XH))))))) :: [])), (KUp, { m_ctrl = false;
    m_alt = true; m_shift = true })) :: ((((Npos (XO (XO (XI (XO (XI
    XH)))))) :: ((Npos (XO (XI (XO (XO (XO (XO XH))))))) :: [])), (KDown,
    { m_ctrl = false; m_alt = true; m_shift = true })) :: ((((Npos (XO (XO
    (XI (XO (XI XH)))))) :: ((Npos (XI (XI (XO (XO (XO (XO XH))))))) :: [])),
    (KRight, { m_ctrl = false; m_alt = true; m_shift = true })) :: ((((Npos
    (XO (XO (XI (XO (XI XH)))))) :: ((Npos (XO (XO (XI (XO (XO (XO
    XH))))))) :: [])), (KLeft, { m_ctrl = false; m_alt = true; m_shift =
    true })) :: ((((Npos (XO (XO (XI (XO (XI XH)))))) :: ((Npos (XO (XI (XI
    (XO (XO (XO XH))))))) :: [])), (KEnd, { m_ctrl = false; m_alt = true;
    m_shift = true })) :: ((((Npos (XO (XO (XI (XO (XI XH)))))) :: ((Npos (XO
    (XO (XO (XI (XO (XO XH))))))) :: [])), (KHome, { m_ctrl = false; m_alt =
    true; m_shift = true })) :: ((((Npos (XI (XO (XI (XO (XI
    XH)))))) :: ((Npos (XI (XO (XO (XO (XO (XO XH))))))) :: [])), (KUp,
    { m_ctrl = true; m_alt = false; m_shift = false })) :: ((((Npos (XI (XO
    (XI (XO (XI XH)))))) :: ((Npos (XO (XI (XO (XO (XO (XO XH))))))) :: [])),
    (KDown, { m_ctrl = true; m_alt = false; m_shift = false })) :: ((((Npos
    (XI (XO (XI (XO (XI XH)))))) :: ((Npos (XI (XI (XO (XO (XO (XO
    XH))))))) :: [])), (KRight, { m_ctrl = true; m_alt = false; m_shift =
    false })) :: ((((Npos (XI (XO (XI (XO (XI XH)))))) :: ((Npos (XO (XO (XI
    (XO (XO (XO XH))))))) :: [])), (KLeft, { m_ctrl = true; m_alt = false;
    m_shift = false })) :: ((((Npos (XI (XO (XI (XO (XI XH)))))) :: ((Npos
    (XO (XI (XI (XO (XO (XO XH))))))) :: [])), (KEnd, { m_ctrl = true;
    m_alt = false; m_shift = false })) :: ((((Npos (XI (XO (XI (XO (XI
    XH)))))) :: ((Npos (XO (XO (XO (XI (XO (XO XH))))))) :: [])), (KHome,
    { m_ctrl = true; m_alt = false; m_shift = false })) :: ((((Npos (XI (XO
    (XI (XO (XI XH)))))) :: ((Npos (XO (XO (XO (XO (XI (XO XH))))))) :: [])),
    ((KF (S O)), { m_ctrl = true; m_alt = false; m_shift =
    false })) :: ((((Npos (XI (XO (XI (XO (XI XH)))))) :: ((Npos (XI (XO (XO
    (XO (XI (XO XH))))))) :: [])), ((KF (S (S O))), { m_ctrl = true; m_alt =
    false; m_shift = false })) :: ((((Npos (XI (XO (XI (XO (XI
    XH)))))) :: ((Npos (XI (XI (XO (XO (XI (XO XH))))))) :: [])), ((KF (S (S
    (S (S O))))), { m_ctrl = true; m_alt = false; m_shift =
    false })) :: ((((Npos (XI (XO (XI (XO (XI XH)))))) :: ((Npos (XO (XO (XO
    (XO (XI (XI XH))))))) :: [])), ((KChar (Npos (XO (XO (XO (XO (XI
    XH))))))), { m_ctrl = true; m_alt = false; m_shift =
    false })) :: ((((Npos (XI (XO (XI (XO (XI XH)))))) :: ((Npos (XI (XO (XO
    (XO (XI (XI XH))))))) :: [])), ((KChar (Npos (XI (XO (XO (XO (XI
    XH))))))), { m_ctrl = true; m_alt = false; m_shift =
    false })) :: ((((Npos (XI (XO (XI (XO (XI XH)))))) :: ((Npos (XO (XI (XO
    (XO (XI (XI XH))))))) :: [])), ((KChar (Npos (XO (XI (XO (XO (XI
    XH))))))), { m_ctrl = true; m_alt = false; m_shift =
    false })) :: ((((Npos (XI (XO (XI (XO (XI XH)))))) :: ((Npos (XI (XI (XO
    (XO (XI (XI XH))))))) :: [])), ((KChar (Npos (XI (XI (XO (XO (XI
    XH))))))), { m_ctrl = true; m_alt = false; m_shift =
    false })) :: ((((Npos (XI (XO (XI (XO (XI XH)))))) :: ((Npos (XO (XO (XI
    (XO (XI (XI XH))))))) :: [])), ((KChar (Npos (XO (XO (XI (XO (XI
    XH))))))), { m_ctrl = true; m_alt = false; m_shift =
    false })) :: ((((Npos (XI (XO (XI (XO (XI XH)))))) :: ((Npos (XI (XO (XI
    (XO (XI (XI XH))))))) :: [])), ((KChar (Npos (XI (XO (XI (XO (XI
    XH))))))), { m_ctrl = true; m_alt = false; m_shift =
    false })) :: ((((Npos (XI (XO (XI (XO (XI XH)))))) :: ((Npos (XO (XI (XI
    (XO (XI (XI XH))))))) :: [])), ((KChar (Npos (XO (XI (XI (XO (XI
    XH))))))), { m_ctrl = true; m_alt = false; m_shift =
    false })) :: ((((Npos (XI (XO (XI (XO (XI XH)))))) :: ((Npos (XI (XI (XI
    (XO (XI (XI XH))))))) :: [])), ((KChar (Npos (XI (XI (XI (XO (XI
    XH))))))), { m_ctrl = true; m_alt = false; m_shift =
    false })) :: ((((Npos (XI (XO (XI (XO (XI XH)))))) :: ((Npos (XO (XO (XO
    (XI (XI (XI XH))))))) :: [])), ((KChar (Npos (XO (XO (XO (XI (XI
    XH))))))), { m_ctrl = true; m_alt = false; m_shift =
    false })) :: ((((Npos (XI (XO (XI (XO (XI XH)))))) :: ((Npos (XI (XO (XO
    (XI (XI (XI XH))))))) :: [])), ((KChar (Npos (XI (XO (XO (XI (XI
    XH))))))), { m_ctrl = true; m_alt = false; m_shift =
    false })) :: ((((Npos (XO (XI (XI (XO (XI XH)))))) :: ((Npos (XI (XO (XO
    (XO (XO (XO XH))))))) :: [])), (KUp, { m_ctrl = true; m_alt = false;
    m_shift = true })) :: ((((Npos (XO (XI (XI (XO (XI XH)))))) :: ((Npos (XO
    (XI (XO (XO (XO (XO XH))))))) :: [])), (KDown, { m_ctrl = true; m_alt =
    false; m_shift = true })) :: ((((Npos (XO (XI (XI (XO (XI
    XH)))))) :: ((Npos (XI (XI (XO (XO (XO (XO XH))))))) :: [])), (KRight,
    { m_ctrl = true; m_alt = false; m_shift = true })) :: ((((Npos (XO (XI
    (XI (XO (XI XH)))))) :: ((Npos (XO (XO (XI (XO (XO (XO XH))))))) :: [])),
    (KLeft, { m_ctrl = true; m_alt = false; m_shift = true })) :: ((((Npos
    (XO (XI (XI (XO (XI XH)))))) :: ((Npos (XO (XI (XI (XO (XO (XO
    XH))))))) :: [])), (KEnd, { m_ctrl = true; m_alt = false; m_shift =
    true })) :: ((((Npos (XO (XI (XI (XO (XI XH)))))) :: ((Npos (XO (XO (XO
    (XI (XO (XO XH))))))) :: [])), (KHome, { m_ctrl = true; m_alt = false;
    m_shift = true })) :: ((((Npos (XO (XI (XI (XO (XI XH)))))) :: ((Npos (XO
    (XO (XO (XO (XI (XI XH))))))) :: [])), ((KChar (Npos (XO (XO (XO (XO (XI
    XH))))))), { m_ctrl = true; m_alt = false; m_shift = true })) :: ((((Npos
    (XO (XI (XI (XO (XI XH)))))) :: ((Npos (XI (XO (XO (XO (XI (XI
    XH))))))) :: [])), ((KChar (Npos (XI (XO (XO (XO (XI XH))))))),
    { m_ctrl = true; m_alt = false; m_shift = true })) :: ((((Npos (XO (XI
    (XI (XO (XI XH)))))) :: ((Npos (XO (XI (XO (XO (XI (XI XH))))))) :: [])),
    ((KChar (Npos (XO (XI (XO (XO (XI XH))))))), { m_ctrl = true; m_alt =
    false; m_shift = true })) :: ((((Npos (XO (XI (XI (XO (XI
    XH)))))) :: ((Npos (XI (XI (XO (XO (XI (XI XH))))))) :: [])), ((KChar
    (Npos (XI (XI (XO (XO (XI XH))))))), { m_ctrl = true; m_alt = false;
    m_shift = true })) :: ((((Npos (XO (XI (XI (XO (XI XH)))))) :: ((Npos (XO
    (XO (XI (XO (XI (XI XH))))))) :: [])), ((KChar (Npos (XO (XO (XI (XO (XI
    XH))))))), { m_ctrl = true; m_alt = false; m_shift = true })) :: ((((Npos
    (XO (XI (XI (XO (XI XH)))))) :: ((Npos (XI (XO (XI (XO (XI (XI
    XH))))))) :: [])), ((KChar (Npos (XI (XO (XI (XO (XI XH))))))),
    { m_ctrl = true; m_alt = false; m_shift = true })) :: ((((Npos (XO (XI
    (XI (XO (XI XH)))))) :: ((Npos (XO (XI (XI (XO (XI (XI XH))))))) :: [])),
    ((KChar (Npos (XO (XI (XI (XO (XI XH))))))), { m_ctrl = true; m_alt =
    false; m_shift = true })) :: ((((Npos (XO (XI (XI (XO (XI
    XH)))))) :: ((Npos (XI (XI (XI (XO (XI (XI XH))))))) :: [])), ((KChar
    (Npos (XI (XI (XI (XO (XI XH))))))), { m_ctrl = true; m_alt = false;
    m_shift = true })) :: ((((Npos (XO (XI (XI (XO (XI XH)))))) :: ((Npos (XO
    (XO (XO (XI (XI (XI XH))))))) :: [])), ((KChar (Npos (XO (XO (XO (XI (XI
    XH))))))), { m_ctrl = true; m_alt = false; m_shift = true })) :: ((((Npos
    (XO (XI (XI (XO (XI XH)))))) :: ((Npos (XI (XO (XO (XI (XI (XI
    XH))))))) :: [])), ((KChar (Npos (XI (XO (XO (XI (XI XH))))))),
    { m_ctrl = true; m_alt = false; m_shift = true })) :: ((((Npos (XI (XI
    (XI (XO (XI XH)))))) :: ((Npos (XI (XO (XO (XO (XO (XO XH))))))) :: [])),
    (KUp, { m_ctrl = true; m_alt = true; m_shift = false })) :: ((((Npos (XI
    (XI (XI (XO (XI XH)))))) :: ((Npos (XO (XI (XO (XO (XO (XO
    XH))))))) :: [])), (KDown, { m_ctrl = true; m_alt = true; m_shift =
    false })) :: ((((Npos (XI (XI (XI (XO (XI XH)))))) :: ((Npos (XI (XI (XO
    (XO (XO (XO XH))))))) :: [])), (KRight, { m_ctrl = true; m_alt = true;
    m_shift = false })) :: ((((Npos (XI (XI (XI (XO (XI XH)))))) :: ((Npos
    (XO (XO (XI (XO (XO (XO XH))))))) :: [])), (KLeft, { m_ctrl = true;
    m_alt = true; m_shift = false })) :: ((((Npos (XI (XI (XI (XO (XI
    XH)))))) :: ((Npos (XO (XI (XI (XO (XO (XO XH))))))) :: [])), (KEnd,
    { m_ctrl = true; m_alt = true; m_shift = false })) :: ((((Npos (XI (XI
    (XI (XO (XI XH)))))) :: ((Npos (XO (XO (XO (XI (XO (XO XH))))))) :: [])),
    (KHome, { m_ctrl = true; m_alt = true; m_shift = false })) :: ((((Npos
    (XI (XI (XI (XO (XI XH)))))) :: ((Npos (XO (XO (XO (XO (XI (XI
    XH))))))) :: [])), ((KChar (Npos (XO (XO (XO (XO (XI XH))))))),
    { m_ctrl = true; m_alt = true; m_shift = false })) :: ((((Npos (XI (XI
    (XI (XO (XI XH)))))) :: ((Npos (XI (XO (XO (XO (XI (XI XH))))))) :: [])),
    ((KChar (Npos (XI (XO (XO (XO (XI XH))))))), { m_ctrl = true; m_alt =
    true; m_shift = false })) :: ((((Npos (XI (XI (XI (XO (XI
    XH)))))) :: ((Npos (XO (XI (XO (XO (XI (XI XH))))))) :: [])), ((KChar
    (Npos (XO (XI (XO (XO (XI XH))))))), { m_ctrl = true; m_alt = true;
    m_shift = false })) :: ((((Npos (XI (XI (XI (XO (XI XH)))))) :: ((Npos
    (XI (XI (XO (XO (XI (XI XH))))))) :: [])), ((KChar (Npos (XI (XI (XO (XO
    (XI XH))))))), { m_ctrl = true; m_alt = true; m_shift =
    false })) :: ((((Npos (XI (XI (XI (XO (XI XH)))))) :: ((Npos (XO (XO (XI
    (XO (XI (XI XH))))))) :: [])), ((KChar (Npos (XO (XO (XI (XO (XI
    XH))))))), { m_ctrl = true; m_alt = true; m_shift = false })) :: ((((Npos
    (XI (XI (XI (XO (XI XH)))))) :: ((Npos (XI (XO (XI (XO (XI (XI
    XH))))))) :: [])), ((KChar (Npos (XI (XO (XI (XO (XI XH))))))),
    { m_ctrl = true; m_alt = true; m_shift = false })) :: ((((Npos (XI (XI
    (XI (XO (XI XH)))))) :: ((Npos (XO (XI (XI (XO (XI (XI XH))))))) :: [])),
    ((KChar (Npos (XO (XI (XI (XO (XI XH))))))), { m_ctrl = true; m_alt =
    true; m_shift = false })) :: ((((Npos (XI (XI (XI (XO (XI
    XH)))))) :: ((Npos (XI (XI (XI (XO (XI (XI XH))))))) :: [])), ((KChar
    (Npos (XI (XI (XI (XO (XI XH))))))), { m_ctrl = true; m_alt = true;
    m_shift = false })) :: ((((Npos (XI (XI (XI (XO (XI XH)))))) :: ((Npos
    (XO (XO (XO (XI (XI (XI XH))))))) :: [])), ((KChar (Npos (XO (XO (XO (XI
    (XI XH))))))), { m_ctrl = true; m_alt = true; m_shift =
    false })) :: ((((Npos (XI (XI (XI (XO (XI XH)))))) :: ((Npos (XI (XO (XO
    (XI (XI (XI XH))))))) :: [])), ((KChar (Npos (XI (XO (XO (XI (XI
    XH))))))), { m_ctrl = true; m_alt = true; m_shift = false })) :: ((((Npos
    (XO (XO (XO (XI (XI XH)))))) :: ((Npos (XI (XO (XO (XO (XO (XO
    XH))))))) :: [])), (KUp, { m_ctrl = true; m_alt = true; m_shift =
    true })) :: ((((Npos (XO (XO (XO (XI (XI XH)))))) :: ((Npos (XO (XI (XO
    (XO (XO (XO XH))))))) :: [])), (KDown, { m_ctrl = true; m_alt = true;
    m_shift = true })) :: ((((Npos (XO (XO (XO (XI (XI XH)))))) :: ((Npos (XI
    (XI (XO (XO (XO (XO XH))))))) :: [])), (KRight, { m_ctrl = true; m_alt =
    true; m_shift = true })) :: ((((Npos (XO (XO (XO (XI (XI
    XH)))))) :: ((Npos (XO (XO (XI (XO (XO (XO XH))))))) :: [])), (KLeft,
    { m_ctrl = true; m_alt = true; m_shift = true })) :: ((((Npos (XO (XO (XO
    (XI (XI XH)))))) :: ((Npos (XO (XI (XI (XO (XO (XO XH))))))) :: [])),
    (KEnd, { m_ctrl = true; m_alt = true; m_shift = true })) :: ((((Npos (XO
    (XO (XO (XI (XI XH)))))) :: ((Npos (XO (XO (XO (XI (XO (XO
    XH))))))) :: [])), (KHome, { m_ctrl = true; m_alt = true; m_shift =
    true })) :: ((((Npos (XO (XO (XO (XI (XI XH)))))) :: ((Npos (XO (XO (XO
    (XO (XI (XI XH))))))) :: [])), ((KChar (Npos (XO (XO (XO (XO (XI
    XH))))))), { m_ctrl = true; m_alt = true; m_shift = true })) :: ((((Npos
    (XO (XO (XO (XI (XI XH)))))) :: ((Npos (XI (XO (XO (XO (XI (XI
    XH))))))) :: [])), ((KChar (Npos (XI (XO (XO (XO (XI XH))))))),
    { m_ctrl = true; m_alt = true; m_shift = true })) :: ((((Npos (XO (XO (XO
    (XI (XI XH)))))) :: ((Npos (XO (XI (XO (XO (XI (XI XH))))))) :: [])),
    ((KChar (Npos (XO (XI (XO (XO (XI XH))))))), { m_ctrl = true; m_alt =
    true; m_shift = true })) :: ((((Npos (XO (XO (XO (XI (XI
    XH)))))) :: ((Npos (XI (XI (XO (XO (XI (XI XH))))))) :: [])), ((KChar
    (Npos (XI (XI (XO (XO (XI XH))))))), { m_ctrl = true; m_alt = true;
    m_shift = true })) :: ((((Npos (XO (XO (XO (XI (XI XH)))))) :: ((Npos (XO
    (XO (XI (XO (XI (XI XH))))))) :: [])), ((KChar (Npos (XO (XO (XI (XO (XI
    XH))))))), { m_ctrl = true; m_alt = true; m_shift = true })) :: ((((Npos
    (XO (XO (XO (XI (XI XH)))))) :: ((Npos (XI (XO (XI (XO (XI (XI
    XH))))))) :: [])), ((KChar (Npos (XI (XO (XI (XO (XI XH))))))),
    { m_ctrl = true; m_alt = true; m_shift = true })) :: ((((Npos (XO (XO (XO
    (XI (XI XH)))))) :: ((Npos (XO (XI (XI (XO (XI (XI XH))))))) :: [])),
    ((KChar (Npos (XO (XI (XI (XO (XI XH))))))), { m_ctrl = true; m_alt =
    true; m_shift = true })) :: ((((Npos (XO (XO (XO (XI (XI
    XH)))))) :: ((Npos (XI (XI (XI (XO (XI (XI XH))))))) :: [])), ((KChar
    (Npos (XI (XI (XI (XO (XI XH))))))), { m_ctrl = true; m_alt = true;
    m_shift = true })) :: ((((Npos (XO (XO (XO (XI (XI XH)))))) :: ((Npos (XO
    (XO (XO (XI (XI (XI XH))))))) :: [])), ((KChar (Npos (XO (XO (XO (XI (XI
    XH))))))), { m_ctrl = true; m_alt = true; m_shift = true })) :: ((((Npos
    (XO (XO (XO (XI (XI XH)))))) :: ((Npos (XI (XO (XO (XI (XI (XI
    XH))))))) :: [])), ((KChar (Npos (XI (XO (XO (XI (XI XH))))))),
    { m_ctrl = true; m_alt = true; m_shift = true })) :: ((((Npos (XI (XO (XO
    (XI (XI XH)))))) :: ((Npos (XI (XO (XO (XO (XO (XO XH))))))) :: [])),
    (KUp, { m_ctrl = false; m_alt = true; m_shift = false })) :: ((((Npos (XI
    (XO (XO (XI (XI XH)))))) :: ((Npos (XO (XI (XO (XO (XO (XO
    XH))))))) :: [])), (KDown, { m_ctrl = false; m_alt = true; m_shift =
    false })) :: ((((Npos (XI (XO (XO (XI (XI XH)))))) :: ((Npos (XI (XI (XO
    (XO (XO (XO XH))))))) :: [])), (KRight, { m_ctrl = false; m_alt = true;
    m_shift = false })) :: ((((Npos (XI (XO (XO (XI (XI XH)))))) :: ((Npos
    (XO (XO (XI (XO (XO (XO XH))))))) :: [])), (KLeft, { m_ctrl = false;
    m_alt = true; m_shift =
    false })) :: []))))))))))))))))))))))))))))))))))))))))))))))))))))))))))))))))))))))))))))))))))))))))

(** val tab_ext_mod_tilde : (n list * key) list **)

let tab_ext_mod_tilde =
  (((Npos (XO (XI (XO (XO (XI XH)))))) :: ((Npos (XO (XI (XO (XO (XI
    XH)))))) :: [])), (KInsert, { m_ctrl = false; m_alt = false; m_shift =
    true })) :: ((((Npos (XO (XI (XO (XO (XI XH)))))) :: ((Npos (XI (XI (XO
    (XO (XI XH)))))) :: [])), (KInsert, { m_ctrl = false; m_alt = true;
    m_shift = false })) :: ((((Npos (XO (XI (XO (XO (XI XH)))))) :: ((Npos
    (XO (XO (XI (XO (XI XH)))))) :: [])), (KInsert, { m_ctrl = false; m_alt =
    true; m_shift = true })) :: ((((Npos (XO (XI (XO (XO (XI
    XH)))))) :: ((Npos (XI (XO (XI (XO (XI XH)))))) :: [])), (KInsert,
    { m_ctrl = true; m_alt = false; m_shift = false })) :: ((((Npos (XO (XI
    (XO (XO (XI XH)))))) :: ((Npos (XO (XI (XI (XO (XI XH)))))) :: [])),
    (KInsert, { m_ctrl = true; m_alt = false; m_shift = true })) :: ((((Npos
    (XO (XI (XO (XO (XI XH)))))) :: ((Npos (XI (XI (XI (XO (XI
    XH)))))) :: [])), (KInsert, { m_ctrl = true; m_alt = true; m_shift =
    false })) :: ((((Npos (XO (XI (XO (XO (XI XH)))))) :: ((Npos (XO (XO (XO
    (XI (XI XH)))))) :: [])), (KInsert, { m_ctrl = true; m_alt = true;
    m_shift = true })) :: ((((Npos (XI (XI (XO (XO (XI XH)))))) :: ((Npos (XO
    (XI (XO (XO (XI XH)))))) :: [])), (KDelete, { m_ctrl = false; m_alt =
    false; m_shift = true })) :: ((((Npos (XI (XI (XO (XO (XI
    XH)))))) :: ((Npos (XI (XI (XO (XO (XI XH)))))) :: [])), (KDelete,
    { m_ctrl = false; m_alt = true; m_shift = false })) :: ((((Npos (XI (XI
    (XO (XO (XI XH)))))) :: ((Npos (XO (XO (XI (XO (XI XH)))))) :: [])),
    (KDelete, { m_ctrl = false; m_alt = true; m_shift = true })) :: ((((Npos
    (XI (XI (XO (XO (XI XH)))))) :: ((Npos (XI (XO (XI (XO (XI
    XH)))))) :: [])), (KDelete, { m_ctrl = true; m_alt = false; m_shift =
    false })) :: ((((Npos (XI (XI (XO (XO (XI XH)))))) :: ((Npos (XO (XI (XI
    (XO (XI XH)))))) :: [])), (KDelete, { m_ctrl = true; m_alt = false;
    m_shift = true })) :: ((((Npos (XI (XI (XO (XO (XI XH)))))) :: ((Npos (XI
    (XI (XI (XO (XI XH)))))) :: [])), (KDelete, { m_ctrl = true; m_alt =
    true; m_shift = false })) :: ((((Npos (XI (XI (XO (XO (XI
    XH)))))) :: ((Npos (XO (XO (XO (XI (XI XH)))))) :: [])), (KDelete,
    { m_ctrl = true; m_alt = true; m_shift = true })) :: ((((Npos (XI (XO (XI
    (XO (XI XH)))))) :: ((Npos (XO (XI (XO (XO (XI XH)))))) :: [])),
    (KPageUp, { m_ctrl = false; m_alt = false; m_shift = true })) :: ((((Npos
    (XI (XO (XI (XO (XI XH)))))) :: ((Npos (XI (XI (XO (XO (XI
    XH)))))) :: [])), (KPageUp, { m_ctrl = false; m_alt = true; m_shift =
    false })) :: ((((Npos (XI (XO (XI (XO (XI XH)))))) :: ((Npos (XO (XO (XI
    (XO (XI XH)))))) :: [])), (KPageUp, { m_ctrl = false; m_alt = true;
    m_shift = true })) :: ((((Npos (XI (XO (XI (XO (XI XH)))))) :: ((Npos (XI
    (XO (XI (XO (XI XH)))))) :: [])), (KPageUp, { m_ctrl = true; m_alt =
    false; m_shift = false })) :: ((((Npos (XI (XO (XI (XO (XI
    XH)))))) :: ((Npos (XO (XI (XI (XO (XI XH)))))) :: [])), (KPageUp,
    { m_ctrl = true; m_alt = false; m_shift = true })) :: ((((Npos (XI (XO
    (XI (XO (XI XH)))))) :: ((Npos (XI (XI (XI (XO (XI XH)))))) :: [])),
    (KPageUp, { m_ctrl = true; m_alt = true; m_shift = false })) :: ((((Npos
    (XI (XO (XI (XO (XI XH)))))) :: ((Npos (XO (XO (XO (XI (XI
    XH)))))) :: [])), (KPageUp, { m_ctrl = true; m_alt = true; m_shift =
    true })) :: ((((Npos (XO (XI (XI (XO (XI XH)))))) :: ((Npos (XO (XI (XO
    (XO (XI XH)))))) :: [])), (KPageDown, { m_ctrl = false; m_alt = false;
    m_shift = true })) :: ((((Npos (XO (XI (XI (XO (XI XH)))))) :: ((Npos (XI
    (XI (XO (XO (XI XH)))))) :: [])), (KPageDown, { m_ctrl = false; m_alt =
    true; m_shift = false })) :: ((((Npos (XO (XI (XI (XO (XI
    XH)))))) :: ((Npos (XO (XO (XI (XO (XI XH)))))) :: [])), (KPageDown,
    { m_ctrl = false; m_alt = true; m_shift = true })) :: ((((Npos (XO (XI
    (XI (XO (XI XH)))))) :: ((Npos (XI (XO (XI (XO (XI XH)))))) :: [])),
    (KPageDown, { m_ctrl = true; m_alt = false; m_shift =
    false })) :: ((((Npos (XO (XI (XI (XO (XI XH)))))) :: ((Npos (XO (XI (XI
    (XO (XI XH)))))) :: [])), (KPageDown, { m_ctrl = true; m_alt = false;
    m_shift = true })) :: ((((Npos (XO (XI (XI (XO (XI XH)))))) :: ((Npos (XI
    (XI (XI (XO (XI XH)))))) :: [])), (KPageDown, { m_ctrl = true; m_alt =
    true; m_shift = false })) :: ((((Npos (XO (XI (XI (XO (XI
    XH)))))) :: ((Npos (XO (XO (XO (XI (XI XH)))))) :: [])), (KPageDown,
    { m_ctrl = true; m_alt = true; m_shift =
    true })) :: [])))))))))))))))))))))))))))

(** val tab_ext_rxvt : (n list * key) list **)

let tab_ext_rxvt =
  (((Npos (XI (XI (XO (XO (XI XH)))))) :: ((Npos (XO (XI (XI (XI
    XH))))) :: [])), (KDelete, { m_ctrl = true; m_alt = false; m_shift =
    false })) :: ((((Npos (XI (XI (XO (XO (XI XH)))))) :: ((Npos (XO (XO (XO
    (XO (XO (XO XH))))))) :: [])), (KDelete, { m_ctrl = true; m_alt = false;
    m_shift = true })) :: ((((Npos (XI (XO (XI (XO (XI XH)))))) :: ((Npos (XI
    (XO (XO (XO (XO (XO XH))))))) :: [])), (KUp, { m_ctrl = true; m_alt =
    false; m_shift = false })) :: ((((Npos (XI (XO (XI (XO (XI
    XH)))))) :: ((Npos (XO (XI (XO (XO (XO (XO XH))))))) :: [])), (KDown,
    { m_ctrl = true; m_alt = false; m_shift = false })) :: ((((Npos (XI (XO
    (XI (XO (XI XH)))))) :: ((Npos (XI (XI (XO (XO (XO (XO XH))))))) :: [])),
    (KRight, { m_ctrl = true; m_alt = false; m_shift = false })) :: ((((Npos
    (XI (XO (XI (XO (XI XH)))))) :: ((Npos (XO (XO (XI (XO (XO (XO
    XH))))))) :: [])), (KLeft, { m_ctrl = true; m_alt = false; m_shift =
    false })) :: ((((Npos (XI (XO (XI (XO (XI XH)))))) :: ((Npos (XO (XI (XI
    (XI XH))))) :: [])), (KPageUp, { m_ctrl = true; m_alt = false; m_shift =
    false })) :: ((((Npos (XI (XO (XI (XO (XI XH)))))) :: ((Npos (XO (XO (XI
    (XO (XO XH)))))) :: [])), (KPageUp, { m_ctrl = false; m_alt = false;
    m_shift = true })) :: ((((Npos (XI (XO (XI (XO (XI XH)))))) :: ((Npos (XO
    (XO (XO (XO (XO (XO XH))))))) :: [])), (KPageUp, { m_ctrl = true; m_alt =
    false; m_shift = true })) :: ((((Npos (XO (XI (XI (XO (XI
    XH)))))) :: ((Npos (XO (XI (XI (XI XH))))) :: [])), (KPageDown,
    { m_ctrl = true; m_alt = false; m_shift = false })) :: ((((Npos (XO (XI
    (XI (XO (XI XH)))))) :: ((Npos (XO (XO (XI (XO (XO XH)))))) :: [])),
    (KPageDown, { m_ctrl = false; m_alt = false; m_shift =
    true })) :: ((((Npos (XO (XI (XI (XO (XI XH)))))) :: ((Npos (XO (XO (XO
    (XO (XO (XO XH))))))) :: [])), (KPageDown, { m_ctrl = true; m_alt =
    false; m_shift = true })) :: ((((Npos (XI (XI (XI (XO (XI
    XH)))))) :: ((Npos (XO (XI (XI (XI XH))))) :: [])), (KHome, { m_ctrl =
    true; m_alt = false; m_shift = false })) :: ((((Npos (XI (XI (XI (XO (XI
    XH)))))) :: ((Npos (XO (XO (XI (XO (XO XH)))))) :: [])), (KHome,
    { m_ctrl = false; m_alt = false; m_shift = true })) :: ((((Npos (XI (XI
    (XI (XO (XI XH)))))) :: ((Npos (XO (XO (XO (XO (XO (XO XH))))))) :: [])),
    (KHome, { m_ctrl = true; m_alt = false; m_shift = true })) :: ((((Npos
    (XO (XO (XO (XI (XI XH)))))) :: ((Npos (XO (XI (XI (XI XH))))) :: [])),
    (KEnd, { m_ctrl = true; m_alt = false; m_shift = false })) :: ((((Npos
    (XO (XO (XO (XI (XI XH)))))) :: ((Npos (XO (XO (XI (XO (XO
    XH)))))) :: [])), (KEnd, { m_ctrl = false; m_alt = false; m_shift =
    true })) :: ((((Npos (XO (XO (XO (XI (XI XH)))))) :: ((Npos (XO (XO (XO
    (XO (XO (XO XH))))))) :: [])), (KEnd, { m_ctrl = true; m_alt = false;
    m_shift = true })) :: [])))))))))))))))))

(** val tab_ss3 : (n list * key) list **)

let tab_ss3 =
  (((Npos (XI (XO (XO (XO (XO (XO XH))))))) :: []), (KUp, { m_ctrl = false;
    m_alt = false; m_shift = false })) :: ((((Npos (XO (XI (XO (XO (XO (XO
    XH))))))) :: []), (KDown, { m_ctrl = false; m_alt = false; m_shift =
    false })) :: ((((Npos (XI (XI (XO (XO (XO (XO XH))))))) :: []), (KRight,
    { m_ctrl = false; m_alt = false; m_shift = false })) :: ((((Npos (XO (XO
    (XI (XO (XO (XO XH))))))) :: []), (KLeft, { m_ctrl = false; m_alt =
    false; m_shift = false })) :: ((((Npos (XO (XI (XI (XO (XO (XO
    XH))))))) :: []), (KEnd, { m_ctrl = false; m_alt = false; m_shift =
    false })) :: ((((Npos (XO (XO (XO (XI (XO (XO XH))))))) :: []), (KHome,
    { m_ctrl = false; m_alt = false; m_shift = false })) :: ((((Npos (XI (XO
    (XI (XI (XO (XO XH))))))) :: []), (KEnter, { m_ctrl = false; m_alt =
    false; m_shift = false })) :: ((((Npos (XO (XO (XO (XO (XI (XO
    XH))))))) :: []), ((KF (S O)), { m_ctrl = false; m_alt = false; m_shift =
    false })) :: ((((Npos (XI (XO (XO (XO (XI (XO XH))))))) :: []), ((KF (S
    (S O))), { m_ctrl = false; m_alt = false; m_shift = false })) :: ((((Npos
    (XO (XI (XO (XO (XI (XO XH))))))) :: []), ((KF (S (S (S O)))), { m_ctrl =
    false; m_alt = false; m_shift = false })) :: ((((Npos (XI (XI (XO (XO (XI
    (XO XH))))))) :: []), ((KF (S (S (S (S O))))), { m_ctrl = false; m_alt =
    false; m_shift = false })) :: ((((Npos (XI (XO (XO (XO (XO (XI
    XH))))))) :: []), (KUp, { m_ctrl = true; m_alt = false; m_shift =
    false })) :: ((((Npos (XO (XI (XO (XO (XO (XI XH))))))) :: []), (KDown,
    { m_ctrl = true; m_alt = false; m_shift = false })) :: ((((Npos (XI (XI
    (XO (XO (XO (XI XH))))))) :: []), (KRight, { m_ctrl = true; m_alt =
    false; m_shift = false })) :: ((((Npos (XO (XO (XI (XO (XO (XI
    XH))))))) :: []), (KLeft, { m_ctrl = true; m_alt = false; m_shift =
    false })) :: ((((Npos (XO (XO (XI (XI (XO (XI XH))))))) :: []), ((KF (S
    (S (S (S (S (S (S (S O))))))))), { m_ctrl = false; m_alt = false;
    m_shift = false })) :: ((((Npos (XO (XO (XI (XO (XI (XI XH))))))) :: []),
    ((KF (S (S (S (S (S O)))))), { m_ctrl = false; m_alt = false; m_shift =
    false })) :: ((((Npos (XI (XO (XI (XO (XI (XI XH))))))) :: []), ((KF (S
    (S (S (S (S (S O))))))), { m_ctrl = false; m_alt = false; m_shift =
    false })) :: ((((Npos (XO (XI (XI (XO (XI (XI XH))))))) :: []), ((KF (S
    (S (S (S (S (S (S O)))))))), { m_ctrl = false; m_alt = false; m_shift =
    false })) :: ((((Npos (XI (XI (XI (XO (XI (XI XH))))))) :: []), ((KF (S
    (S (S (S (S (S (S (S (S O)))))))))), { m_ctrl = false; m_alt = false;
    m_shift = false })) :: ((((Npos (XO (XO (XO (XI (XI (XI XH))))))) :: []),
    ((KF (S (S (S (S (S (S (S (S (S (S O))))))))))), { m_ctrl = false;
    m_alt = false; m_shift = false })) :: []))))))))))))))))))))

type anchor =
| AAfter
| ABefore

type cmd =
| CAbort
| CAcceptLine
| CBeginningOfHistory
| CCapitalizeWord
| CClearScreen
| CComplete
| CCompleteBackward
| CCompleteHint
| CDedent of movement
| CDowncaseWord
| CEndOfFile
| CEndOfHistory
| CForwardSearchHistory
| CHistorySearchBackward
| CHistorySearchForward
| CIndent of movement
| CInsert of nat * str
| CInterrupt
| CKill of movement
| CMove of movement
| CNextHistory
| CNoop
| CRepaint
| COverwrite of n
| CPreviousHistory
| CQuotedInsert
| CReplaceChar of nat * n
| CReplace of movement * str option
| CReverseSearchHistory
| CSelfInsert of nat * n
| CSuspend
| CTransposeChars
| CTransposeWords of nat
| CUndo of nat
| CUnknown
| CUpcaseWord
| CViYankTo of movement
| CYank of nat * anchor
| CYankPop
| CLineUpOrPreviousHistory of nat
| CLineDownOrNextHistory of nat
| CNewline
| CAcceptOrInsertLine of bool

(** val is_char_motion : movement -> bool **)

let is_char_motion = function
| MBackwardChar _ -> true
| MForwardChar _ -> true
| _ -> false

(** val should_reset_kill_ring : cmd -> bool **)

let should_reset_kill_ring = function
| CClearScreen -> false
| CKill m0 -> is_char_motion m0
| CNoop -> false
| CReplace (_, _) -> false
| CSuspend -> false
| CYank (_, _) -> false
| CYankPop -> false
| _ -> true

(** val is_repeatable_change : cmd -> bool **)

let is_repeatable_change = function
| CDedent _ -> true
| CIndent _ -> true
| CInsert (_, _) -> true
| CKill _ -> true
| CReplaceChar (_, _) -> true
| CReplace (_, _) -> true
| CSelfInsert (_, _) -> true
| CViYankTo _ -> true
| CYank (_, _) -> true
| _ -> false

(** val is_repeatable : cmd -> bool **)

let is_repeatable c = match c with
| CMove _ -> true
| _ -> is_repeatable_change c

(** val rc : nat -> nat option -> nat **)

let rc previous = function
| Some n0 -> n0
| None -> previous

(** val mvt_redo : movement -> nat option -> movement **)

let mvt_redo m0 new0 =
  match m0 with
  | MBackwardWord (p, w) -> MBackwardWord ((rc p new0), w)
  | MForwardWord (p, a, w) -> MForwardWord ((rc p new0), a, w)
  | MViCharSearch (p, cs) -> MViCharSearch ((rc p new0), cs)
  | MBackwardChar p -> MBackwardChar (rc p new0)
  | MForwardChar p -> MForwardChar (rc p new0)
  | MLineUp p -> MLineUp (rc p new0)
  | MLineDown p -> MLineDown (rc p new0)
  | _ -> m0

(** val cs_opposite : char_search -> char_search **)

let cs_opposite = function
| CsForward c -> CsBackward c
| CsForwardBefore c -> CsBackwardAfter c
| CsBackward c -> CsForward c
| CsBackwardAfter c -> CsForwardBefore c

type inchar =
| Ch of n
| Bad
| Print of str

type istream = { in_cur : inchar list; in_rest : inchar list list }

type rerr =
| EEof
| EInvalidData
| EInterrupted
| EValidator
| EHangup

type edit_mode =
| Emacs
| Vi

type input_mode =
| IMCommand
| IMInsert
| IMReplace

type completion_type =
| CTCircular
| CTList

type vresult =
| VRValid of str option
| VRInvalid of str option
| VRIncomplete
| VRError

type observation = { o_line : str; o_pos : nat; o_mode : input_mode;
                     o_n : nat; o_positive : bool; o_hint : str option }

type config = { c_mode : edit_mode; c_completion : completion_type;
                c_timeout_none : bool; c_cols : nat; c_tab_stop : nat;
                c_indent_size : nat; c_prompt_limit : nat; c_show_all : 
                bool; c_bell : bool; c_has_helper : bool;
                c_complete : (str -> nat -> nat * str list);
                c_hint : (str -> nat -> str option);
                c_validate : (str -> vresult);
                c_bindings : (key list * cmd) list; c_veof : key;
                c_vintr : key; c_vquit : key; c_vsusp : key }

type est = { e_line : lb; e_changes : changeset; e_kr : killring;
             e_hist : str list; e_hidx : nat; e_saved : (str * nat);
             e_hint : str option; e_layout : layout; e_prompt : str;
             e_prompt_size : pos2; i_input_mode : input_mode; i_num_args : 
             z; i_last_cmd : cmd; i_last_cs : char_search option;
             e_inp : istream; e_out : n list list; e_obs : observation list }

type 'a eres =
| EOk of 'a * est
| EErr of rerr * est
| EPanic
| EFuel

type 'a e = est -> 'a eres

(** val eret : 'a1 -> 'a1 e **)

let eret a s =
  EOk (a, s)

(** val ebind : 'a1 e -> ('a1 -> 'a2 e) -> 'a2 e **)

let ebind m0 f s =
  match m0 s with
  | EOk (a, s') -> f a s'
  | EErr (e0, s') -> EErr (e0, s')
  | EPanic -> EPanic
  | EFuel -> EFuel

(** val eget : est e **)

let eget s =
  EOk (s, s)

(** val efail : rerr -> 'a1 e **)

let efail e0 s =
  EErr (e0, s)

(** val epanic : 'a1 e **)

let epanic _ =
  EPanic

(** val efuel : 'a1 e **)

let efuel _ =
  EFuel

(** val upd_line : (lb -> lb) -> unit e **)

let upd_line f s =
  EOk ((), { e_line = (f s.e_line); e_changes = s.e_changes; e_kr = s.e_kr;
    e_hist = s.e_hist; e_hidx = s.e_hidx; e_saved = s.e_saved; e_hint =
    s.e_hint; e_layout = s.e_layout; e_prompt = s.e_prompt; e_prompt_size =
    s.e_prompt_size; i_input_mode = s.i_input_mode; i_num_args =
    s.i_num_args; i_last_cmd = s.i_last_cmd; i_last_cs = s.i_last_cs; e_inp =
    s.e_inp; e_out = s.e_out; e_obs = s.e_obs })

(** val set_line : lb -> unit e **)

let set_line b =
  upd_line (fun _ -> b)

(** val set_changes : changeset -> unit e **)

let set_changes c s =
  EOk ((), { e_line = s.e_line; e_changes = c; e_kr = s.e_kr; e_hist =
    s.e_hist; e_hidx = s.e_hidx; e_saved = s.e_saved; e_hint = s.e_hint;
    e_layout = s.e_layout; e_prompt = s.e_prompt; e_prompt_size =
    s.e_prompt_size; i_input_mode = s.i_input_mode; i_num_args =
    s.i_num_args; i_last_cmd = s.i_last_cmd; i_last_cs = s.i_last_cs; e_inp =
    s.e_inp; e_out = s.e_out; e_obs = s.e_obs })

(** val set_kr : killring -> unit e **)

let set_kr k s =
  EOk ((), { e_line = s.e_line; e_changes = s.e_changes; e_kr = k; e_hist =
    s.e_hist; e_hidx = s.e_hidx; e_saved = s.e_saved; e_hint = s.e_hint;
    e_layout = s.e_layout; e_prompt = s.e_prompt; e_prompt_size =
    s.e_prompt_size; i_input_mode = s.i_input_mode; i_num_args =
    s.i_num_args; i_last_cmd = s.i_last_cmd; i_last_cs = s.i_last_cs; e_inp =
    s.e_inp; e_out = s.e_out; e_obs = s.e_obs })

(** val set_hidx : nat -> unit e **)

let set_hidx i s =
  EOk ((), { e_line = s.e_line; e_changes = s.e_changes; e_kr = s.e_kr;
    e_hist = s.e_hist; e_hidx = i; e_saved = s.e_saved; e_hint = s.e_hint;
    e_layout = s.e_layout; e_prompt = s.e_prompt; e_prompt_size =
    s.e_prompt_size; i_input_mode = s.i_input_mode; i_num_args =
    s.i_num_args; i_last_cmd = s.i_last_cmd; i_last_cs = s.i_last_cs; e_inp =
    s.e_inp; e_out = s.e_out; e_obs = s.e_obs })

(** val set_saved : (str * nat) -> unit e **)

let set_saved v s =
  EOk ((), { e_line = s.e_line; e_changes = s.e_changes; e_kr = s.e_kr;
    e_hist = s.e_hist; e_hidx = s.e_hidx; e_saved = v; e_hint = s.e_hint;
    e_layout = s.e_layout; e_prompt = s.e_prompt; e_prompt_size =
    s.e_prompt_size; i_input_mode = s.i_input_mode; i_num_args =
    s.i_num_args; i_last_cmd = s.i_last_cmd; i_last_cs = s.i_last_cs; e_inp =
    s.e_inp; e_out = s.e_out; e_obs = s.e_obs })

(** val set_hint : str option -> unit e **)

let set_hint h s =
  EOk ((), { e_line = s.e_line; e_changes = s.e_changes; e_kr = s.e_kr;
    e_hist = s.e_hist; e_hidx = s.e_hidx; e_saved = s.e_saved; e_hint = h;
    e_layout = s.e_layout; e_prompt = s.e_prompt; e_prompt_size =
    s.e_prompt_size; i_input_mode = s.i_input_mode; i_num_args =
    s.i_num_args; i_last_cmd = s.i_last_cmd; i_last_cs = s.i_last_cs; e_inp =
    s.e_inp; e_out = s.e_out; e_obs = s.e_obs })

(** val set_layout : layout -> unit e **)

let set_layout l s =
  EOk ((), { e_line = s.e_line; e_changes = s.e_changes; e_kr = s.e_kr;
    e_hist = s.e_hist; e_hidx = s.e_hidx; e_saved = s.e_saved; e_hint =
    s.e_hint; e_layout = l; e_prompt = s.e_prompt; e_prompt_size =
    s.e_prompt_size; i_input_mode = s.i_input_mode; i_num_args =
    s.i_num_args; i_last_cmd = s.i_last_cmd; i_last_cs = s.i_last_cs; e_inp =
    s.e_inp; e_out = s.e_out; e_obs = s.e_obs })

(** val set_input_mode : input_mode -> unit e **)

let set_input_mode m0 s =
  EOk ((), { e_line = s.e_line; e_changes = s.e_changes; e_kr = s.e_kr;
    e_hist = s.e_hist; e_hidx = s.e_hidx; e_saved = s.e_saved; e_hint =
    s.e_hint; e_layout = s.e_layout; e_prompt = s.e_prompt; e_prompt_size =
    s.e_prompt_size; i_input_mode = m0; i_num_args = s.i_num_args;
    i_last_cmd = s.i_last_cmd; i_last_cs = s.i_last_cs; e_inp = s.e_inp;
    e_out = s.e_out; e_obs = s.e_obs })

(** val set_num_args : z -> unit e **)

let set_num_args z0 s =
  EOk ((), { e_line = s.e_line; e_changes = s.e_changes; e_kr = s.e_kr;
    e_hist = s.e_hist; e_hidx = s.e_hidx; e_saved = s.e_saved; e_hint =
    s.e_hint; e_layout = s.e_layout; e_prompt = s.e_prompt; e_prompt_size =
    s.e_prompt_size; i_input_mode = s.i_input_mode; i_num_args = z0;
    i_last_cmd = s.i_last_cmd; i_last_cs = s.i_last_cs; e_inp = s.e_inp;
    e_out = s.e_out; e_obs = s.e_obs })

(** val set_last_cmd : cmd -> unit e **)

let set_last_cmd c s =
  EOk ((), { e_line = s.e_line; e_changes = s.e_changes; e_kr = s.e_kr;
    e_hist = s.e_hist; e_hidx = s.e_hidx; e_saved = s.e_saved; e_hint =
    s.e_hint; e_layout = s.e_layout; e_prompt = s.e_prompt; e_prompt_size =
    s.e_prompt_size; i_input_mode = s.i_input_mode; i_num_args =
    s.i_num_args; i_last_cmd = c; i_last_cs = s.i_last_cs; e_inp = s.e_inp;
    e_out = s.e_out; e_obs = s.e_obs })

(** val set_last_cs : char_search option -> unit e **)

let set_last_cs c s =
  EOk ((), { e_line = s.e_line; e_changes = s.e_changes; e_kr = s.e_kr;
    e_hist = s.e_hist; e_hidx = s.e_hidx; e_saved = s.e_saved; e_hint =
    s.e_hint; e_layout = s.e_layout; e_prompt = s.e_prompt; e_prompt_size =
    s.e_prompt_size; i_input_mode = s.i_input_mode; i_num_args =
    s.i_num_args; i_last_cmd = s.i_last_cmd; i_last_cs = c; e_inp = s.e_inp;
    e_out = s.e_out; e_obs = s.e_obs })

(** val set_inp : istream -> unit e **)

let set_inp i s =
  EOk ((), { e_line = s.e_line; e_changes = s.e_changes; e_kr = s.e_kr;
    e_hist = s.e_hist; e_hidx = s.e_hidx; e_saved = s.e_saved; e_hint =
    s.e_hint; e_layout = s.e_layout; e_prompt = s.e_prompt; e_prompt_size =
    s.e_prompt_size; i_input_mode = s.i_input_mode; i_num_args =
    s.i_num_args; i_last_cmd = s.i_last_cmd; i_last_cs = s.i_last_cs; e_inp =
    i; e_out = s.e_out; e_obs = s.e_obs })

(** val write : str -> unit e **)

let write bytes s =
  EOk ((), { e_line = s.e_line; e_changes = s.e_changes; e_kr = s.e_kr;
    e_hist = s.e_hist; e_hidx = s.e_hidx; e_saved = s.e_saved; e_hint =
    s.e_hint; e_layout = s.e_layout; e_prompt = s.e_prompt; e_prompt_size =
    s.e_prompt_size; i_input_mode = s.i_input_mode; i_num_args =
    s.i_num_args; i_last_cmd = s.i_last_cmd; i_last_cs = s.i_last_cs; e_inp =
    s.e_inp; e_out = (bytes :: s.e_out); e_obs = s.e_obs })

(** val observe : observation -> unit e **)

let observe o s =
  EOk ((), { e_line = s.e_line; e_changes = s.e_changes; e_kr = s.e_kr;
    e_hist = s.e_hist; e_hidx = s.e_hidx; e_saved = s.e_saved; e_hint =
    s.e_hint; e_layout = s.e_layout; e_prompt = s.e_prompt; e_prompt_size =
    s.e_prompt_size; i_input_mode = s.i_input_mode; i_num_args =
    s.i_num_args; i_last_cmd = s.i_last_cmd; i_last_cs = s.i_last_cs; e_inp =
    s.e_inp; e_out = s.e_out; e_obs = (o :: s.e_obs) })

(** val seg : uData -> str -> str list **)

let seg =
  useg

(** val cols : config -> nat **)

let cols cfg =
  cfg.c_cols

(** val take_in_chunk : inchar list -> (inchar * inchar list) option **)

let rec take_in_chunk = function
| [] -> None
| c :: t ->
  (match c with
   | Print m0 ->
     (match take_in_chunk t with
      | Some p -> let (c0, t') = p in Some (c0, ((Print m0) :: t'))
      | None -> None)
   | _ -> Some (c, t))

(** val take_first :
    inchar list -> inchar list list -> (inchar * istream) option **)

let rec take_first pending0 = function
| [] -> None
| ch :: rest' ->
  (match take_in_chunk ch with
   | Some p ->
     let (c, t) = p in
     Some (c, { in_cur = (app pending0 t); in_rest = rest' })
   | None -> take_first (app pending0 ch) rest')

(** val take_char :
    inchar list -> inchar list list -> (inchar * istream) option **)

let take_char cur rest =
  match take_in_chunk cur with
  | Some p -> let (c, t) = p in Some (c, { in_cur = t; in_rest = rest })
  | None -> take_first cur rest

(** val peek_first : inchar list list -> (str * istream) option **)

let rec peek_first = function
| [] -> None
| l :: rest' ->
  (match l with
   | [] -> peek_first rest'
   | i :: t ->
     (match i with
      | Print m0 -> Some (m0, { in_cur = t; in_rest = rest' })
      | _ -> None))

(** val peek_print : istream -> (str * istream) option **)

let peek_print i =
  match i.in_cur with
  | [] -> peek_first i.in_rest
  | i0 :: t ->
    (match i0 with
     | Print m0 -> Some (m0, { in_cur = t; in_rest = i.in_rest })
     | _ -> None)

(** val next_char : n e **)

let next_char s =
  match take_char s.e_inp.in_cur s.e_inp.in_rest with
  | Some p ->
    let (i0, i) = p in
    (match i0 with
     | Ch c ->
       (match set_inp i s with
        | EOk (_, s') -> EOk (c, s')
        | _ -> EPanic)
     | Bad ->
       (match set_inp i s with
        | EOk (_, s') -> EErr (EInvalidData, s')
        | _ -> EPanic)
     | Print _ -> EPanic)
  | None -> EErr (EHangup, s)

type ptimeout =
| TZero
| TForever
| THundred

(** val poll : ptimeout -> bool e **)

let poll t =
  ebind eget (fun s ->
    match s.e_inp.in_cur with
    | [] -> (match t with
             | TForever -> eret true
             | _ -> eret false)
    | _ :: _ -> eret true)

(** val cfg_timeout : config -> ptimeout **)

let cfg_timeout cfg =
  if cfg.c_timeout_none then TForever else TZero

(** val add_alt : key -> key **)

let add_alt k =
  ((fst k), (with_alt (snd k)))

(** val escape_o : key e **)

let escape_o =
  ebind next_char (fun c -> eret (lookup_key (c :: []) tab_ss3))

(** val extended_escape : n -> key e **)

let extended_escape seq2 =
  ebind next_char (fun seq3 ->
    if N.eqb seq3 (Npos (XO (XI (XI (XI (XI (XI XH)))))))
    then eret (lookup_key (seq2 :: []) tab_ext_tilde)
    else if is_digit seq3
         then ebind next_char (fun seq4 ->
                if N.eqb seq4 (Npos (XO (XI (XI (XI (XI (XI XH)))))))
                then eret (lookup_key (seq2 :: (seq3 :: [])) tab_ext_2d_tilde)
                else if N.eqb seq4 (Npos (XI (XI (XO (XI (XI XH))))))
                     then ebind next_char (fun seq5 ->
                            if is_digit seq5
                            then ebind next_char (fun seq6 ->
                                   if is_digit seq6
                                   then ebind next_char (fun _ ->
                                          eret k_UNKNOWN)
                                   else if N.eqb seq6 (Npos (XO (XI (XO (XO
                                             (XI (XO XH)))))))
                                        then eret k_UNKNOWN
                                        else if N.eqb seq6 (Npos (XO (XI (XI
                                                  (XI (XI (XI XH)))))))
                                             then eret
                                                    (lookup_key
                                                      (seq2 :: (seq3 :: (seq5 :: [])))
                                                      tab_ext_2d_mod_tilde)
                                             else eret k_UNKNOWN)
                            else eret k_UNKNOWN)
                     else if is_digit seq4
                          then ebind next_char (fun seq5 ->
                                 if N.eqb seq5 (Npos (XO (XI (XI (XI (XI (XI
                                      XH)))))))
                                 then eret
                                        (lookup_key
                                          (seq2 :: (seq3 :: (seq4 :: [])))
                                          tab_ext_3d_tilde)
                                 else eret k_UNKNOWN)
                          else eret k_UNKNOWN)
         else if N.eqb seq3 (Npos (XI (XI (XO (XI (XI XH))))))
              then ebind next_char (fun seq4 ->
                     if is_digit seq4
                     then ebind next_char (fun seq5 ->
                            if is_digit seq5
                            then ebind next_char (fun _ -> eret k_UNKNOWN)
                            else if N.eqb seq2 (Npos (XI (XO (XO (XO (XI
                                      XH))))))
                                 then eret
                                        (lookup_key (seq4 :: (seq5 :: []))
                                          tab_ext_1_mod)
                                 else if N.eqb seq5 (Npos (XO (XI (XI (XI (XI
                                           (XI XH)))))))
                                      then eret
                                             (lookup_key
                                               (seq2 :: (seq4 :: []))
                                               tab_ext_mod_tilde)
                                      else eret k_UNKNOWN)
                     else eret k_UNKNOWN)
              else eret (lookup_key (seq2 :: (seq3 :: [])) tab_ext_rxvt))

(** val escape_csi : key e **)

let escape_csi =
  ebind next_char (fun seq2 ->
    if is_digit seq2
    then if (||) (N.eqb seq2 (Npos (XO (XO (XO (XO (XI XH)))))))
              (N.eqb seq2 (Npos (XI (XO (XO (XI (XI XH)))))))
         then eret k_UNKNOWN
         else extended_escape seq2
    else if N.eqb seq2 (Npos (XI (XI (XO (XI (XI (XO XH)))))))
         then ebind next_char (fun seq3 ->
                eret (lookup_key (seq3 :: []) tab_csi_linux))
         else eret (lookup_key (seq2 :: []) tab_csi_ansi))

(** val do_escape_sequence : uData -> config -> bool -> key e **)

let do_escape_sequence u cfg allow_recurse =
  ebind next_char (fun seq1 ->
    if N.eqb seq1 (Npos (XI (XI (XO (XI (XI (XO XH)))))))
    then escape_csi
    else if N.eqb seq1 (Npos (XI (XI (XI (XI (XO (XO XH)))))))
         then escape_o
         else if N.eqb seq1 (Npos (XI (XI (XO (XI XH)))))
              then if negb allow_recurse
                   then eret (KEsc, m_NONE)
                   else ebind
                          (poll
                            (if cfg.c_timeout_none then THundred else TZero))
                          (fun p ->
                          if p
                          then ebind next_char (fun seq1' ->
                                 ebind
                                   (if N.eqb seq1' (Npos (XI (XI (XO (XI (XI
                                         (XO XH)))))))
                                    then escape_csi
                                    else if N.eqb seq1' (Npos (XI (XI (XI (XI
                                              (XO (XO XH)))))))
                                         then escape_o
                                         else if N.eqb seq1' (Npos (XI (XI
                                                   (XO (XI XH)))))
                                              then eret (KEsc, m_NONE)
                                              else eret
                                                     (key_new u seq1' m_ALT))
                                   (fun k -> eret (add_alt k)))
                          else eret (KEsc, m_NONE))
              else eret (key_new u seq1 m_ALT))

(** val next_key : uData -> config -> bool -> key e **)

let next_key u cfg single_esc_abort =
  ebind next_char (fun c ->
    let k = key_new u c m_NONE in
    if key_eqb k (KEsc, m_NONE)
    then ebind
           (poll
             (if (&&) single_esc_abort cfg.c_timeout_none
              then TZero
              else cfg_timeout cfg)) (fun p ->
           if p then do_escape_sequence u cfg true else eret k)
    else eret k)

(** val replace_crlf : str -> str **)

let rec replace_crlf = function
| [] -> []
| c :: t ->
  (match c with
   | N0 -> c :: (replace_crlf t)
   | Npos p ->
     (match p with
      | XI p1 ->
        (match p1 with
         | XO p2 ->
           (match p2 with
            | XI p3 ->
              (match p3 with
               | XH ->
                 (match t with
                  | [] -> (Npos (XO (XI (XO XH)))) :: (replace_crlf t)
                  | n0 :: t0 ->
                    (match n0 with
                     | N0 -> (Npos (XO (XI (XO XH)))) :: (replace_crlf t)
                     | Npos p4 ->
                       (match p4 with
                        | XO p5 ->
                          (match p5 with
                           | XI p6 ->
                             (match p6 with
                              | XO p7 ->
                                (match p7 with
                                 | XH ->
                                   (Npos (XO (XI (XO
                                     XH)))) :: (replace_crlf t0)
                                 | _ ->
                                   (Npos (XO (XI (XO
                                     XH)))) :: (replace_crlf t))
                              | _ ->
                                (Npos (XO (XI (XO XH)))) :: (replace_crlf t))
                           | _ -> (Npos (XO (XI (XO XH)))) :: (replace_crlf t))
                        | _ -> (Npos (XO (XI (XO XH)))) :: (replace_crlf t))))
               | _ -> c :: (replace_crlf t))
            | _ -> c :: (replace_crlf t))
         | _ -> c :: (replace_crlf t))
      | _ -> c :: (replace_crlf t)))

(** val read_pasted : uData -> config -> nat -> str -> str e **)

let rec read_pasted u cfg fuel acc =
  match fuel with
  | O -> efuel
  | S f ->
    ebind next_char (fun c ->
      if N.eqb c (Npos (XI (XI (XO (XI XH)))))
      then ebind (do_escape_sequence u cfg true) (fun k ->
             if key_eqb k (KPasteEnd, m_NONE)
             then eret (replace_crlf (rev acc))
             else read_pasted u cfg f acc)
      else read_pasted u cfg f (c :: acc))

(** val stream_size : istream -> nat **)

let stream_size i =
  add (length i.in_cur)
    (fold_left (fun a ch -> add a (length ch)) i.in_rest O)

(** val calc : uData -> config -> str -> pos2 -> pos2 **)

let calc u cfg s orig =
  calculate_position u (seg u) (cols cfg) cfg.c_tab_stop s orig

(** val line_before : lb -> str **)

let line_before b =
  match bsplit b.buf b.pos with
  | Some p -> let (l, _) = p in l
  | None -> b.buf

(** val line_after : lb -> str **)

let line_after b =
  match bsplit b.buf b.pos with
  | Some p -> let (_, r) = p in r
  | None -> []

(** val update_hint : config -> unit e **)

let update_hint cfg =
  ebind eget (fun s ->
    if cfg.c_has_helper
    then set_hint
           (match cfg.c_hint s.e_line.buf s.e_line.pos with
            | Some s0 ->
              (match s0 with
               | [] -> None
               | n0 :: l -> Some (n0 :: l))
            | None -> None)
    else set_hint None)

(** val refresh :
    uData -> config -> str -> pos2 -> bool -> str option -> unit e **)

let refresh u cfg prompt prompt_size default_prompt info =
  ebind eget (fun s ->
    let b = s.e_line in
    let new_layout =
      compute_layout u (seg u) (cols cfg) cfg.c_tab_stop prompt_size
        default_prompt (line_before b) (line_after b) info
    in
    ebind
      (write (refresh_bytes prompt b.buf b.buf info s.e_layout new_layout))
      (fun _ -> set_layout new_layout))

(** val refresh_line : uData -> config -> unit e **)

let refresh_line u cfg =
  ebind (update_hint cfg) (fun _ ->
    ebind eget (fun s ->
      refresh u cfg s.e_prompt s.e_prompt_size true s.e_hint))

(** val refresh_line_with_msg : uData -> config -> str option -> unit e **)

let refresh_line_with_msg u cfg msg =
  ebind (set_hint None) (fun _ ->
    ebind eget (fun s -> refresh u cfg s.e_prompt s.e_prompt_size true msg))

(** val refresh_prompt_and_line : uData -> config -> str -> unit e **)

let refresh_prompt_and_line u cfg prompt =
  ebind (update_hint cfg) (fun _ ->
    ebind eget (fun s ->
      refresh u cfg prompt (calc u cfg prompt p0) false s.e_hint))

(** val move_cursor : uData -> config -> unit e **)

let move_cursor u cfg =
  ebind eget (fun s ->
    let cursor = calc u cfg (line_before s.e_line) s.e_prompt_size in
    if pos2_eqb s.e_layout.l_cursor cursor
    then eret ()
    else ebind (write (move_cursor_bytes s.e_layout.l_cursor cursor))
           (fun _ ->
           set_layout { l_prompt_size = s.e_prompt_size; l_default_prompt =
             s.e_layout.l_default_prompt; l_cursor = cursor; l_end =
             s.e_layout.l_end }))

(** val move_cursor_to_end : unit e **)

let move_cursor_to_end =
  ebind eget (fun s ->
    let lay = s.e_layout in
    if pos2_eqb lay.l_cursor lay.l_end
    then eret ()
    else ebind (write (move_cursor_bytes lay.l_cursor lay.l_end)) (fun _ ->
           set_layout { l_prompt_size = lay.l_prompt_size; l_default_prompt =
             lay.l_default_prompt; l_cursor = lay.l_end; l_end = lay.l_end }))

(** val lb_changes : uData -> 'a1 m -> 'a1 e **)

let lb_changes u m0 =
  ebind eget (fun s ->
    match m0 s.e_line with
    | Ok a0 ->
      let (p, ev) = a0 in
      let (a, b') = p in
      ebind (set_line b') (fun _ ->
        ebind (set_changes (cs_notify_all u (seg u) s.e_changes ev))
          (fun _ -> eret a))
    | Panic -> epanic)

(** val lb_quiet : 'a1 m -> 'a1 e **)

let lb_quiet m0 =
  ebind eget (fun s ->
    match m0 s.e_line with
    | Ok a0 ->
      let (p, _) = a0 in
      let (a, b') = p in ebind (set_line b') (fun _ -> eret a)
    | Panic -> epanic)

(** val lb_kill : uData -> 'a1 m -> 'a1 e **)

let lb_kill u m0 =
  ebind eget (fun s ->
    match m0 s.e_line with
    | Ok a0 ->
      let (p, ev) = a0 in
      let (a, b') = p in
      (match kr_notify_all s.e_kr ev with
       | Ok k' ->
         ebind (set_line b') (fun _ ->
           ebind (set_changes (cs_notify_all u (seg u) s.e_changes ev))
             (fun _ -> ebind (set_kr k') (fun _ -> eret a)))
       | Panic -> epanic)
    | Panic -> epanic)

(** val changes_begin : nat e **)

let changes_begin =
  ebind eget (fun s ->
    let (c, mark) = cs_begin s.e_changes in
    ebind (set_changes c) (fun _ -> eret mark))

(** val changes_end : bool e **)

let changes_end =
  ebind eget (fun s ->
    let (c, t) = cs_end s.e_changes in ebind (set_changes c) (fun _ -> eret t))

(** val is_emacs0 : config -> bool **)

let is_emacs0 cfg =
  match cfg.c_mode with
  | Emacs -> true
  | Vi -> false

(** val cwidth : uData -> n -> nat **)

let cwidth u c =
  u.u_width c

(** val edit_insert : uData -> config -> n -> nat -> unit e **)

let edit_insert u cfg ch n0 =
  ebind (lb_changes u (insert ch n0)) (fun r ->
    match r with
    | Some push ->
      if push
      then ebind eget (fun s0 ->
             let no_previous_hint =
               match s0.e_hint with
               | Some _ -> false
               | None -> true
             in
             ebind (update_hint cfg) (fun _ ->
               ebind eget (fun s ->
                 let w = cwidth u ch in
                 if (&&)
                      ((&&)
                        ((&&) ((&&) (Nat.eqb n0 (S O)) (negb (Nat.eqb w O)))
                          (Nat.ltb (add s.e_layout.l_cursor.p_col w)
                            (cols cfg)))
                        (match s.e_hint with
                         | Some _ -> false
                         | None -> true)) no_previous_hint
                 then let lay = s.e_layout in
                      ebind
                        (set_layout { l_prompt_size = lay.l_prompt_size;
                          l_default_prompt = lay.l_default_prompt; l_cursor =
                          { p_col = (add lay.l_cursor.p_col w); p_row =
                          lay.l_cursor.p_row }; l_end = { p_col =
                          (add lay.l_end.p_col w); p_row =
                          lay.l_end.p_row } }) (fun _ -> write (ch :: []))
                 else refresh u cfg s.e_prompt s.e_prompt_size true s.e_hint)))
      else refresh_line u cfg
    | None -> eret ())

(** val edit_replace_char : uData -> config -> n -> nat -> unit e **)

let edit_replace_char u cfg ch n0 =
  ebind changes_begin (fun _ ->
    ebind (lb_changes u (delete (seg u) n0)) (fun r ->
      ebind
        (match r with
         | Some chars ->
           ebind (lb_changes u (insert ch (length (seg u chars)))) (fun _ ->
             ebind (lb_quiet (move_backward (seg u) (S O))) (fun _ ->
               eret true))
         | None -> eret false) (fun ok ->
        ebind changes_end (fun _ ->
          if ok then refresh_line u cfg else eret ()))))

(** val edit_overwrite_char : uData -> config -> n -> unit e **)

let edit_overwrite_char u cfg ch =
  ebind eget (fun s ->
    match next_pos (seg u) s.e_line (S O) with
    | Ok a ->
      (match a with
       | Some e0 ->
         ebind (lb_changes u (replace s.e_line.pos e0 (ch :: []))) (fun _ ->
           refresh_line u cfg)
       | None -> eret ())
    | Panic -> epanic)

(** val edit_yank : uData -> config -> str -> anchor -> nat -> unit e **)

let edit_yank u cfg text a n0 =
  ebind
    (match a with
     | AAfter ->
       ebind (lb_quiet (move_forward (seg u) (S O))) (fun _ -> eret ())
     | ABefore -> eret ()) (fun _ ->
    ebind (lb_changes u (yank text n0)) (fun r ->
      match r with
      | Some _ ->
        ebind
          (if is_emacs0 cfg
           then eret ()
           else ebind (lb_quiet (move_backward (seg u) (S O))) (fun _ ->
                  eret ())) (fun _ -> refresh_line u cfg)
      | None -> eret ()))

(** val edit_yank_pop : uData -> config -> nat -> str -> unit e **)

let edit_yank_pop u cfg size text =
  ebind changes_begin (fun _ ->
    ebind (lb_changes u (yank_pop size text)) (fun r ->
      ebind (match r with
             | Some _ -> refresh_line u cfg
             | None -> eret ()) (fun _ ->
        ebind changes_end (fun _ -> eret ()))))

(** val moved : uData -> config -> bool m -> unit e **)

let moved u cfg m0 =
  ebind (lb_quiet m0) (fun r -> if r then move_cursor u cfg else eret ())

(** val edit_kill : uData -> config -> movement -> unit e **)

let edit_kill u cfg m0 =
  ebind (lb_kill u (kill u (seg u) m0)) (fun r ->
    if r then refresh_line u cfg else eret ())

(** val edit_insert_text : uData -> config -> str -> unit e **)

let edit_insert_text u cfg text = match text with
| [] -> eret ()
| _ :: _ ->
  ebind eget (fun s ->
    ebind (lb_changes u (insert_str s.e_line.pos text)) (fun _ ->
      refresh_line u cfg))

(** val grouped : uData -> config -> bool m -> unit e **)

let grouped u cfg m0 =
  ebind changes_begin (fun _ ->
    ebind (lb_changes u m0) (fun r ->
      ebind changes_end (fun _ -> if r then refresh_line u cfg else eret ())))

(** val layout_w : uData -> str -> nat **)

let layout_w u s =
  Nat.min (layout_width u s)
    (N.to_nat (Npos (XI (XI (XI (XI (XI (XI (XI (XI (XI (XI (XI (XI (XI (XI
      (XI XH)))))))))))))))))

(** val edit_move_line_up : uData -> config -> nat -> bool e **)

let edit_move_line_up u cfg n0 =
  ebind eget (fun s ->
    ebind
      (lb_quiet
        (move_to_line_up (seg u) (layout_w u) n0
          s.e_layout.l_prompt_size.p_col)) (fun r ->
      if r then ebind (move_cursor u cfg) (fun _ -> eret true) else eret false))

(** val edit_move_line_down : uData -> config -> nat -> bool e **)

let edit_move_line_down u cfg n0 =
  ebind eget (fun s ->
    ebind
      (lb_quiet
        (move_to_line_down (seg u) (layout_w u) n0
          s.e_layout.l_prompt_size.p_col)) (fun r ->
      if r then ebind (move_cursor u cfg) (fun _ -> eret true) else eret false))

(** val hlen_e : est -> nat **)

let hlen_e s =
  length s.e_hist

(** val backup : unit e **)

let backup =
  ebind eget (fun s -> set_saved (s.e_line.buf, s.e_line.pos))

(** val restore : uData -> unit e **)

let restore u =
  ebind eget (fun s -> lb_changes u (update (fst s.e_saved) (snd s.e_saved)))

(** val edit_history_next : uData -> config -> bool -> unit e **)

let edit_history_next u cfg prev =
  ebind eget (fun s ->
    if Nat.eqb (hlen_e s) O
    then eret ()
    else let at_end = Nat.eqb s.e_hidx (hlen_e s) in
         if (&&) at_end (negb prev)
         then eret ()
         else if (&&) ((&&) (negb at_end) (Nat.eqb s.e_hidx O)) prev
              then eret ()
              else ebind (if at_end then backup else eret ()) (fun _ ->
                     ebind
                       (if prev
                        then eret (sub s.e_hidx (S O))
                        else ebind (set_hidx (S s.e_hidx)) (fun _ ->
                               eret (S s.e_hidx))) (fun idx ->
                       if Nat.ltb idx (hlen_e s)
                       then (match nth_error s.e_hist idx with
                             | Some entry ->
                               ebind (set_hidx idx) (fun _ ->
                                 ebind changes_begin (fun _ ->
                                   ebind
                                     (lb_changes u
                                       (update entry (blen entry))) (fun _ ->
                                     ebind changes_end (fun _ ->
                                       refresh_line u cfg))))
                             | None -> eret ())
                       else ebind (restore u) (fun _ -> refresh_line u cfg))))

(** val edit_history : uData -> config -> bool -> unit e **)

let edit_history u cfg first =
  ebind eget (fun s ->
    if Nat.eqb (hlen_e s) O
    then eret ()
    else let at_end = Nat.eqb s.e_hidx (hlen_e s) in
         if (&&) at_end (negb first)
         then eret ()
         else if (&&) ((&&) (negb at_end) (Nat.eqb s.e_hidx O)) first
              then eret ()
              else ebind (if at_end then backup else eret ()) (fun _ ->
                     if first
                     then (match nth_error s.e_hist O with
                           | Some entry ->
                             ebind (set_hidx O) (fun _ ->
                               ebind changes_begin (fun _ ->
                                 ebind
                                   (lb_changes u (update entry (blen entry)))
                                   (fun _ ->
                                   ebind changes_end (fun _ ->
                                     refresh_line u cfg))))
                           | None -> eret ())
                     else ebind (set_hidx (hlen_e s)) (fun _ ->
                            ebind (restore u) (fun _ -> refresh_line u cfg))))

(** val beep : config -> unit e **)

let beep cfg =
  if cfg.c_bell then write ((Npos (XI (XI XH))) :: []) else eret ()

(** val hist_of : est -> hist **)

let hist_of s =
  { h_entries = s.e_hist; h_max = (length s.e_hist); h_ign_space = false;
    h_ign_dups = false }

(** val edit_history_search : uData -> config -> sdir -> unit e **)

let edit_history_search u cfg d =
  ebind eget (fun s ->
    if Nat.eqb (hlen_e s) O
    then beep cfg
    else if (||)
              ((&&) (Nat.eqb s.e_hidx (hlen_e s))
                (match d with
                 | Forward -> true
                 | Reverse -> false))
              ((&&) (Nat.eqb s.e_hidx O)
                (match d with
                 | Forward -> false
                 | Reverse -> true))
         then beep cfg
         else let idx =
                match d with
                | Forward -> S s.e_hidx
                | Reverse -> sub s.e_hidx (S O)
              in
              ebind (set_hidx idx) (fun _ ->
                match h_starts_with (hist_of s) (line_before s.e_line) idx d with
                | Some p1 ->
                  let (p2, entry) = p1 in
                  let (i, p) = p2 in
                  ebind (set_hidx i) (fun _ ->
                    ebind changes_begin (fun _ ->
                      ebind (lb_changes u (update entry p)) (fun _ ->
                        ebind changes_end (fun _ -> refresh_line u cfg))))
                | None -> beep cfg))

(** val validate : uData -> config -> vresult e **)

let validate u cfg =
  if cfg.c_has_helper
  then ebind changes_begin (fun _ ->
         ebind eget (fun s ->
           let r = cfg.c_validate s.e_line.buf in
           (match r with
            | VRError -> efail EValidator
            | _ ->
              ebind changes_end (fun corrected ->
                ebind eget (fun s' ->
                  let has_hint =
                    match s'.e_hint with
                    | Some _ -> true
                    | None -> false
                  in
                  ebind
                    (match r with
                     | VRValid msg ->
                       if (||) ((||) corrected has_hint)
                            (match msg with
                             | Some _ -> true
                             | None -> false)
                       then refresh_line_with_msg u cfg msg
                       else eret ()
                     | VRInvalid msg ->
                       if (||) ((||) corrected has_hint)
                            (match msg with
                             | Some _ -> true
                             | None -> false)
                       then refresh_line_with_msg u cfg msg
                       else eret ()
                     | _ -> eret ()) (fun _ -> eret r))))))
  else eret (VRValid None)

(** val hint_of : est -> str option **)

let hint_of s =
  s.e_hint

(** val find_binding : key list -> (key list * cmd) list -> cmd option **)

let rec find_binding ks = function
| [] -> None
| p1 :: t ->
  let (p, c) = p1 in
  if (&&) (Nat.eqb (length p) (length ks))
       (forallb (fun pq -> key_eqb (fst pq) (snd pq)) (combine p ks))
  then Some c
  else find_binding ks t

(** val is_proper_prefix : key list -> key list -> bool **)

let rec is_proper_prefix ks p =
  match ks with
  | [] -> (match p with
           | [] -> false
           | _ :: _ -> true)
  | k :: ks' ->
    (match p with
     | [] -> false
     | q :: p' -> (&&) (key_eqb k q) (is_proper_prefix ks' p'))

(** val has_descendant : config -> key list -> bool **)

let has_descendant cfg ks =
  existsb (fun b ->
    (||) (is_proper_prefix ks (fst b))
      ((&&) (Nat.eqb (length (fst b)) (length ks))
        (forallb (fun pq -> key_eqb (fst pq) (snd pq)) (combine (fst b) ks))))
    cfg.c_bindings

(** val custom_binding : config -> key -> nat -> bool -> cmd option e **)

let custom_binding cfg k n0 positive0 =
  match find_binding (k :: []) cfg.c_bindings with
  | Some c -> eret (Some c)
  | None ->
    ebind eget (fun s ->
      ebind
        (observe { o_line = s.e_line.buf; o_pos = s.e_line.pos; o_mode =
          s.i_input_mode; o_n = n0; o_positive = positive0; o_hint =
          (hint_of s) }) (fun _ -> eret None))

(** val custom_seq_binding :
    uData -> config -> nat -> key list -> (cmd option * key list) e **)

let rec custom_seq_binding u cfg fuel ks =
  match fuel with
  | O -> eret (None, ks)
  | S f ->
    if has_descendant cfg ks
    then ebind (next_key u cfg true) (fun k2 ->
           let ks' = app ks (k2 :: []) in
           (match find_binding ks' cfg.c_bindings with
            | Some c -> eret ((Some c), ks')
            | None -> custom_seq_binding u cfg f ks'))
    else eret (None, ks)

(** val term_binding : config -> key -> cmd option e **)

let term_binding cfg k =
  ebind eget (fun s ->
    let r =
      if key_eqb k cfg.c_veof
      then Some CEndOfFile
      else if key_eqb k cfg.c_vintr
           then Some CInterrupt
           else if key_eqb k cfg.c_vquit
                then Some CInterrupt
                else if key_eqb k cfg.c_vsusp then Some CSuspend else None
    in
    (match r with
     | Some c ->
       (match c with
        | CEndOfFile ->
          if Nat.eqb (lb_len s.e_line) O then eret r else eret None
        | _ -> eret r)
     | None -> eret r))

(** val last_insert : str option e **)

let last_insert =
  ebind eget (fun s -> eret (cs_last_insert s.e_changes))

(** val cmd_redo : cmd -> nat option -> cmd e **)

let cmd_redo c new0 =
  match c with
  | CDedent m0 -> eret (CDedent (mvt_redo m0 new0))
  | CIndent m0 -> eret (CIndent (mvt_redo m0 new0))
  | CInsert (p, t) -> eret (CInsert ((rc p new0), t))
  | CKill m0 -> eret (CKill (mvt_redo m0 new0))
  | CMove m0 -> eret (CMove (mvt_redo m0 new0))
  | CReplaceChar (p, ch) -> eret (CReplaceChar ((rc p new0), ch))
  | CReplace (m0, t) ->
    (match t with
     | Some _ -> eret (CReplace ((mvt_redo m0 new0), t))
     | None ->
       ebind last_insert (fun li ->
         match m0 with
         | MForwardChar n0 ->
           (match n0 with
            | O ->
              let k = match li with
                      | Some t' -> blen t'
                      | None -> O in
              eret (CReplace ((MForwardChar
                (Nat.min k
                  (N.to_nat (Npos (XI (XI (XI (XI (XI (XI (XI (XI (XI (XI (XI
                    (XI (XI (XI (XI XH))))))))))))))))))), li))
            | S _ -> eret (CReplace ((mvt_redo m0 new0), li)))
         | _ -> eret (CReplace ((mvt_redo m0 new0), li))))
  | CSelfInsert (p, ch) ->
    ebind last_insert (fun li ->
      match li with
      | Some text -> eret (CInsert ((rc p new0), text))
      | None -> eret (CSelfInsert ((rc p new0), ch)))
  | CViYankTo m0 -> eret (CViYankTo (mvt_redo m0 new0))
  | CYank (p, a) -> eret (CYank ((rc p new0), a))
  | _ -> epanic

(** val i16_sat : z -> z **)

let i16_sat z0 =
  Z.max (Zneg (XO (XO (XO (XO (XO (XO (XO (XO (XO (XO (XO (XO (XO (XO (XO
    XH))))))))))))))))
    (Z.min (Zpos (XI (XI (XI (XI (XI (XI (XI (XI (XI (XI (XI (XI (XI (XI
      XH))))))))))))))) z0)

(** val take_num_args : z e **)

let take_num_args =
  ebind eget (fun s ->
    let n0 = if Z.eqb s.i_num_args Z0 then Zpos XH else s.i_num_args in
    ebind (set_num_args Z0) (fun _ -> eret n0))

(** val emacs_num_args : (nat * bool) e **)

let emacs_num_args =
  ebind take_num_args (fun z0 ->
    if Z.ltb z0 Z0
    then eret
           ((Z.to_nat
              (Z.min (Zpos (XI (XI (XI (XI (XI (XI (XI (XI (XI (XI (XI (XI
                (XI (XI (XI XH)))))))))))))))) (Z.opp z0))), false)
    else eret ((Z.to_nat z0), true))

(** val vi_num_args : nat e **)

let vi_num_args =
  ebind take_num_args (fun z0 ->
    if Z.ltb z0 Z0 then epanic else eret (Z.to_nat z0))

(** val arg_prompt : z -> str **)

let arg_prompt z0 =
  app ((Npos (XO (XO (XO (XI (XO XH)))))) :: ((Npos (XI (XO (XO (XO (XO (XI
    XH))))))) :: ((Npos (XO (XI (XO (XO (XI (XI XH))))))) :: ((Npos (XI (XI
    (XI (XO (XO (XI XH))))))) :: ((Npos (XO (XI (XO (XI (XI
    XH)))))) :: ((Npos (XO (XO (XO (XO (XO XH)))))) :: []))))))
    (app
      (if Z.ltb z0 Z0 then (Npos (XI (XO (XI (XI (XO XH)))))) :: [] else [])
      (app (dec (Z.to_nat (Z.abs z0))) ((Npos (XI (XO (XO (XI (XO
        XH)))))) :: ((Npos (XO (XO (XO (XO (XO XH)))))) :: []))))

(** val digit_val : n -> z **)

let digit_val c =
  Z.of_N (N.sub c (Npos (XO (XO (XO (XO (XI XH)))))))

(** val is_plain_or_alt : mods -> bool **)

let is_plain_or_alt m0 =
  (||) (mods_eqb m0 m_NONE) (mods_eqb m0 m_ALT)

(** val emacs_digit_loop : uData -> config -> nat -> bool -> key e **)

let rec emacs_digit_loop u cfg fuel minus_only =
  match fuel with
  | O -> efuel
  | S f ->
    ebind eget (fun s ->
      ebind (refresh_prompt_and_line u cfg (arg_prompt s.i_num_args))
        (fun _ ->
        ebind (next_key u cfg true) (fun k ->
          let (k0, m0) = k in
          (match k0 with
           | KChar c ->
             if (&&) (is_digit c) (is_plain_or_alt m0)
             then ebind eget (fun s1 ->
                    let d = digit_val c in
                    if minus_only
                    then ebind (set_num_args (Z.opp d)) (fun _ ->
                           emacs_digit_loop u cfg f false)
                    else if Z.ltb (Z.abs s1.i_num_args) (Zpos (XO (XO (XO (XI
                              (XO (XI (XI (XI (XI XH))))))))))
                         then let sh =
                                i16_sat
                                  (Z.mul s1.i_num_args (Zpos (XO (XI (XO
                                    XH)))))
                              in
                              ebind
                                (set_num_args
                                  (i16_sat
                                    (if Z.ltb s1.i_num_args Z0
                                     then Z.sub sh d
                                     else Z.add sh d))) (fun _ ->
                                emacs_digit_loop u cfg f false)
                         else emacs_digit_loop u cfg f false)
             else if (&&) (N.eqb c (Npos (XI (XO (XI (XI (XO XH)))))))
                       (is_plain_or_alt m0)
                  then emacs_digit_loop u cfg f minus_only
                  else ebind (refresh_line u cfg) (fun _ -> eret k)
           | _ -> ebind (refresh_line u cfg) (fun _ -> eret k)))))

(** val emacs_digit_argument : uData -> config -> nat -> n -> key e **)

let emacs_digit_argument u cfg fuel digit =
  ebind
    (if N.eqb digit (Npos (XI (XO (XI (XI (XO XH))))))
     then set_num_args (Zneg XH)
     else set_num_args (digit_val digit)) (fun _ ->
    emacs_digit_loop u cfg fuel
      (N.eqb digit (Npos (XI (XO (XI (XI (XO XH))))))))

(** val vi_arg_digit_loop : uData -> config -> nat -> key e **)

let rec vi_arg_digit_loop u cfg = function
| O -> efuel
| S f ->
  ebind eget (fun s ->
    ebind (refresh_prompt_and_line u cfg (arg_prompt s.i_num_args)) (fun _ ->
      ebind (next_key u cfg false) (fun k ->
        let (k0, m0) = k in
        (match k0 with
         | KChar c ->
           if (&&) (is_digit c) (mods_eqb m0 m_NONE)
           then ebind eget (fun s1 ->
                  if Z.ltb (Z.abs s1.i_num_args) (Zpos (XO (XO (XO (XI (XO
                       (XI (XI (XI (XI XH))))))))))
                  then ebind
                         (set_num_args
                           (i16_sat
                             (Z.add
                               (i16_sat
                                 (Z.mul s1.i_num_args (Zpos (XO (XI (XO
                                   XH)))))) (digit_val c)))) (fun _ ->
                         vi_arg_digit_loop u cfg f)
                  else vi_arg_digit_loop u cfg f)
           else ebind (refresh_line u cfg) (fun _ -> eret k)
         | _ -> ebind (refresh_line u cfg) (fun _ -> eret k)))))

(** val vi_arg_digit : uData -> config -> nat -> n -> key e **)

let vi_arg_digit u cfg fuel digit =
  ebind (set_num_args (digit_val digit)) (fun _ ->
    vi_arg_digit_loop u cfg fuel)

(** val has_hint_at_end : bool e **)

let has_hint_at_end =
  ebind eget (fun s ->
    eret
      ((&&) (match s.e_hint with
             | Some _ -> true
             | None -> false) (Nat.eqb s.e_line.pos (lb_len s.e_line))))

(** val kc : n -> mods -> key **)

let kc c m0 =
  ((KChar c), m0)

(** val common : uData -> config -> nat -> key -> nat -> bool -> cmd e **)

let common u cfg fuel k n0 positive0 =
  ebind eget (fun s ->
    let line_empty = Nat.eqb (lb_len s.e_line) O in
    let is = fun k' -> key_eqb k k' in
    if is (KHome, m_NONE)
    then eret (CMove MBeginningOfLine)
    else if is (KLeft, m_NONE)
         then eret (CMove
                (if positive0 then MBackwardChar n0 else MForwardChar n0))
         else if is (kc (Npos (XO (XO (XI (XO (XO (XO XH))))))) m_CTRL)
              then if (&&) (is_emacs0 cfg) (negb line_empty)
                   then eret (CKill
                          (if positive0
                           then MForwardChar n0
                           else MBackwardChar n0))
                   else if negb line_empty
                        then eret CEndOfFile
                        else eret CUnknown
              else if is (KDelete, m_NONE)
                   then eret (CKill
                          (if positive0
                           then MForwardChar n0
                           else MBackwardChar n0))
                   else if is (KEnd, m_NONE)
                        then eret (CMove MEndOfLine)
                        else if is (KRight, m_NONE)
                             then eret (CMove
                                    (if positive0
                                     then MForwardChar n0
                                     else MBackwardChar n0))
                             else if (||)
                                       ((||)
                                         (is
                                           (kc (Npos (XO (XI (XO (XI (XO (XO
                                             XH))))))) m_CTRL))
                                         (is
                                           (kc (Npos (XI (XO (XI (XI (XO (XO
                                             XH))))))) m_CTRL)))
                                       (is (KEnter, m_NONE))
                                  then eret (CAcceptOrInsertLine true)
                                  else if is (KDown, m_NONE)
                                       then eret (CLineDownOrNextHistory (S
                                              O))
                                       else if is (KUp, m_NONE)
                                            then eret
                                                   (CLineUpOrPreviousHistory
                                                   (S O))
                                            else if is
                                                      (kc (Npos (XO (XI (XO
                                                        (XO (XI (XO XH)))))))
                                                        m_CTRL)
                                                 then eret
                                                        CReverseSearchHistory
                                                 else if is
                                                           (kc (Npos (XI (XI
                                                             (XO (XO (XI (XO
                                                             XH))))))) m_CTRL)
                                                      then eret
                                                             CForwardSearchHistory
                                                      else if is
                                                                (kc (Npos (XO
                                                                  (XO (XI (XO
                                                                  (XI (XO
                                                                  XH)))))))
                                                                  m_CTRL)
                                                           then eret
                                                                  CTransposeChars
                                                           else if is
                                                                    (kc (Npos
                                                                    (XI (XO
                                                                    (XI (XO
                                                                    (XI (XO
                                                                    XH)))))))
                                                                    m_CTRL)
                                                                then 
                                                                  eret (CKill
                                                                    (
                                                                    if positive0
                                                                    then 
                                                                    MBeginningOfLine
                                                                    else 
                                                                    MEndOfLine))
                                                                else 
                                                                  if 
                                                                    (||)
                                                                    (is
                                                                    (kc (Npos
                                                                    (XI (XO
                                                                    (XO (XO
                                                                    (XI (XO
                                                                    XH)))))))
                                                                    m_CTRL))
                                                                    (is
                                                                    (kc (Npos
                                                                    (XO (XI
                                                                    (XI (XO
                                                                    (XI (XO
                                                                    XH)))))))
                                                                    m_CTRL))
                                                                  then 
                                                                    eret
                                                                    CQuotedInsert
                                                                  else 
                                                                    if 
                                                                    is
                                                                    (kc (Npos
                                                                    (XI (XI
                                                                    (XI (XO
                                                                    (XI (XO
                                                                    XH)))))))
                                                                    m_CTRL)
                                                                    then 
                                                                    eret
                                                                    (CKill
                                                                    (if positive0
                                                                    then 
                                                                    MBackwardWord
                                                                    (n0, WBig)
                                                                    else 
                                                                    MForwardWord
                                                                    (n0,
                                                                    AtAfterEnd,
                                                                    WBig)))
                                                                    else 
                                                                    if 
                                                                    is
                                                                    (kc (Npos
                                                                    (XI (XO
                                                                    (XO (XI
                                                                    (XI (XO
                                                                    XH)))))))
                                                                    m_CTRL)
                                                                    then 
                                                                    eret
                                                                    (if positive0
                                                                    then 
                                                                    CYank
                                                                    (n0,
                                                                    ABefore)
                                                                    else 
                                                                    CUnknown)
                                                                    else 
                                                                    if 
                                                                    is
                                                                    (kc (Npos
                                                                    (XI (XI
                                                                    (XI (XI
                                                                    (XI (XO
                                                                    XH)))))))
                                                                    m_CTRL)
                                                                    then 
                                                                    eret
                                                                    (CUndo n0)
                                                                    else 
                                                                    if 
                                                                    is
                                                                    (KUnknown,
                                                                    m_NONE)
                                                                    then 
                                                                    eret CNoop
                                                                    else 
                                                                    if 
                                                                    is
                                                                    (KPasteStart,
                                                                    m_NONE)
                                                                    then 
                                                                    ebind
                                                                    eget
                                                                    (fun s1 ->
                                                                    ebind
                                                                    (read_pasted
                                                                    u cfg (S
                                                                    (stream_size
                                                                    s1.e_inp))
                                                                    [])
                                                                    (fun text ->
                                                                    eret
                                                                    (CInsert
                                                                    ((S O),
                                                                    text))))
                                                                    else 
                                                                    ebind
                                                                    (custom_seq_binding
                                                                    u cfg
                                                                    fuel
                                                                    (k :: []))
                                                                    (fun r ->
                                                                    eret
                                                                    (match 
                                                                    fst r with
                                                                    | Some c ->
                                                                    c
                                                                    | None ->
                                                                    CUnknown)))

(** val is_ctrl_or_ctrl_alt : mods -> bool **)

let is_ctrl_or_ctrl_alt m0 =
  (||) (mods_eqb m0 m_CTRL) (mods_eqb m0 m_CTRL_ALT)

(** val emacs : uData -> config -> nat -> key -> cmd e **)

let emacs u cfg fuel k0 =
  ebind
    (let (k, m0) = k0 in
     (match k with
      | KChar c ->
        if (&&) (mods_eqb m0 m_ALT)
             ((||) (N.eqb c (Npos (XI (XO (XI (XI (XO XH))))))) (is_digit c))
        then emacs_digit_argument u cfg fuel c
        else eret k0
      | _ -> eret k0)) (fun k ->
    ebind emacs_num_args (fun np ->
      let (n0, positive0) = np in
      ebind (custom_binding cfg k n0 positive0) (fun cb ->
        match cb with
        | Some c -> if is_repeatable c then cmd_redo c (Some n0) else eret c
        | None ->
          ebind (term_binding cfg k) (fun tb ->
            match tb with
            | Some c -> eret c
            | None ->
              let is = fun k' -> key_eqb k k' in
              let (k1, m0) = k in
              (match k1 with
               | KChar c ->
                 if mods_eqb m0 m_NONE
                 then eret
                        (if positive0 then CSelfInsert (n0, c) else CUnknown)
                 else if is
                           (kc (Npos (XI (XO (XO (XO (XO (XO XH))))))) m_CTRL)
                      then eret (CMove MBeginningOfLine)
                      else if is
                                (kc (Npos (XO (XI (XO (XO (XO (XO XH)))))))
                                  m_CTRL)
                           then eret (CMove
                                  (if positive0
                                   then MBackwardChar n0
                                   else MForwardChar n0))
                           else if is
                                     (kc (Npos (XI (XO (XI (XO (XO (XO
                                       XH))))))) m_CTRL)
                                then eret (CMove MEndOfLine)
                                else if is
                                          (kc (Npos (XO (XI (XI (XO (XO (XO
                                            XH))))))) m_CTRL)
                                     then eret (CMove
                                            (if positive0
                                             then MForwardChar n0
                                             else MBackwardChar n0))
                                     else if (&&)
                                               (N.eqb c (Npos (XI (XI (XI (XO
                                                 (XO (XO XH))))))))
                                               (is_ctrl_or_ctrl_alt m0)
                                          then eret CAbort
                                          else if is
                                                    (kc (Npos (XO (XO (XO (XI
                                                      (XO (XO XH)))))))
                                                      m_CTRL)
                                               then eret (CKill
                                                      (if positive0
                                                       then MBackwardChar n0
                                                       else MForwardChar n0))
                                               else if is
                                                         (kc (Npos (XI (XO
                                                           (XO (XI (XO (XO
                                                           XH))))))) m_CTRL)
                                                    then eret
                                                           (if positive0
                                                            then CComplete
                                                            else CCompleteBackward)
                                                    else if is
                                                              (kc (Npos (XI
                                                                (XI (XO (XI
                                                                (XO (XO
                                                                XH)))))))
                                                                m_CTRL)
                                                         then eret (CKill
                                                                (if positive0
                                                                 then 
                                                                   MEndOfLine
                                                                 else 
                                                                   MBeginningOfLine))
                                                         else if is
                                                                   (kc (Npos
                                                                    (XO (XO
                                                                    (XI (XI
                                                                    (XO (XO
                                                                    XH)))))))
                                                                    m_CTRL)
                                                              then eret
                                                                    CClearScreen
                                                              else if 
                                                                    is
                                                                    (kc (Npos
                                                                    (XO (XI
                                                                    (XI (XI
                                                                    (XO (XO
                                                                    XH)))))))
                                                                    m_CTRL)
                                                                   then 
                                                                    eret
                                                                    CNextHistory
                                                                   else 
                                                                    if 
                                                                    is
                                                                    (kc (Npos
                                                                    (XO (XO
                                                                    (XO (XO
                                                                    (XI (XO
                                                                    XH)))))))
                                                                    m_CTRL)
                                                                    then 
                                                                    eret
                                                                    CPreviousHistory
                                                                    else 
                                                                    if 
                                                                    is
                                                                    (kc (Npos
                                                                    (XO (XO
                                                                    (XO (XI
                                                                    (XI (XO
                                                                    XH)))))))
                                                                    m_CTRL)
                                                                    then 
                                                                    ebind
                                                                    (custom_seq_binding
                                                                    u cfg
                                                                    fuel
                                                                    (k :: []))
                                                                    (fun r ->
                                                                    match 
                                                                    fst r with
                                                                    | Some c' ->
                                                                    eret c'
                                                                    | None ->
                                                                    ebind
                                                                    (match 
                                                                    snd r with
                                                                    | [] ->
                                                                    next_key
                                                                    u cfg true
                                                                    | _ :: l ->
                                                                    (match l with
                                                                    | [] ->
                                                                    next_key
                                                                    u cfg true
                                                                    | k2 :: _ ->
                                                                    eret k2))
                                                                    (fun snd_key ->
                                                                    if 
                                                                    (||)
                                                                    (key_eqb
                                                                    snd_key
                                                                    (kc (Npos
                                                                    (XI (XI
                                                                    (XI (XO
                                                                    (XO (XO
                                                                    XH)))))))
                                                                    m_CTRL))
                                                                    (key_eqb
                                                                    snd_key
                                                                    (KEsc,
                                                                    m_NONE))
                                                                    then 
                                                                    eret
                                                                    CAbort
                                                                    else 
                                                                    if 
                                                                    key_eqb
                                                                    snd_key
                                                                    (kc (Npos
                                                                    (XI (XO
                                                                    (XI (XO
                                                                    (XI (XO
                                                                    XH)))))))
                                                                    m_CTRL)
                                                                    then 
                                                                    eret
                                                                    (CUndo n0)
                                                                    else 
                                                                    if 
                                                                    key_eqb
                                                                    snd_key
                                                                    (KBackspace,
                                                                    m_NONE)
                                                                    then 
                                                                    eret
                                                                    (CKill
                                                                    (if positive0
                                                                    then 
                                                                    MBeginningOfLine
                                                                    else 
                                                                    MEndOfLine))
                                                                    else 
                                                                    eret
                                                                    CUnknown))
                                                                    else 
                                                                    if 
                                                                    (&&)
                                                                    (N.eqb c
                                                                    (Npos (XI
                                                                    (XO (XI
                                                                    (XI (XI
                                                                    (XO
                                                                    XH))))))))
                                                                    (is_ctrl_or_ctrl_alt
                                                                    m0)
                                                                    then 
                                                                    ebind
                                                                    (next_key
                                                                    u cfg
                                                                    false)
                                                                    (fun ch ->
                                                                    let (
                                                                    k2, m') =
                                                                    ch
                                                                    in
                                                                    (
                                                                    match k2 with
                                                                    | KChar x ->
                                                                    if 
                                                                    mods_eqb
                                                                    m' m_NONE
                                                                    then 
                                                                    eret
                                                                    (CMove
                                                                    (MViCharSearch
                                                                    (n0,
                                                                    (if positive0
                                                                    then 
                                                                    if m0.m_alt
                                                                    then 
                                                                    CsBackward
                                                                    x
                                                                    else 
                                                                    CsForwardBefore
                                                                    x
                                                                    else 
                                                                    if m0.m_alt
                                                                    then 
                                                                    CsForwardBefore
                                                                    x
                                                                    else 
                                                                    CsBackward
                                                                    x))))
                                                                    else 
                                                                    eret
                                                                    CUnknown
                                                                    | _ ->
                                                                    eret
                                                                    CUnknown))
                                                                    else 
                                                                    if 
                                                                    mods_eqb
                                                                    m0 m_ALT
                                                                    then 
                                                                    if 
                                                                    N.eqb c
                                                                    (Npos (XO
                                                                    (XO (XI
                                                                    (XI (XI
                                                                    XH))))))
                                                                    then 
                                                                    eret
                                                                    CBeginningOfHistory
                                                                    else 
                                                                    if 
                                                                    N.eqb c
                                                                    (Npos (XO
                                                                    (XI (XI
                                                                    (XI (XI
                                                                    XH))))))
                                                                    then 
                                                                    eret
                                                                    CEndOfHistory
                                                                    else 
                                                                    if 
                                                                    (||)
                                                                    (N.eqb c
                                                                    (Npos (XO
                                                                    (XI (XO
                                                                    (XO (XO
                                                                    (XO
                                                                    XH))))))))
                                                                    (N.eqb c
                                                                    (Npos (XO
                                                                    (XI (XO
                                                                    (XO (XO
                                                                    (XI
                                                                    XH))))))))
                                                                    then 
                                                                    eret
                                                                    (CMove
                                                                    (if positive0
                                                                    then 
                                                                    MBackwardWord
                                                                    (n0,
                                                                    WEmacs)
                                                                    else 
                                                                    MForwardWord
                                                                    (n0,
                                                                    AtAfterEnd,
                                                                    WEmacs)))
                                                                    else 
                                                                    if 
                                                                    (||)
                                                                    (N.eqb c
                                                                    (Npos (XI
                                                                    (XI (XO
                                                                    (XO (XO
                                                                    (XO
                                                                    XH))))))))
                                                                    (N.eqb c
                                                                    (Npos (XI
                                                                    (XI (XO
                                                                    (XO (XO
                                                                    (XI
                                                                    XH))))))))
                                                                    then 
                                                                    eret
                                                                    CCapitalizeWord
                                                                    else 
                                                                    if 
                                                                    (||)
                                                                    (N.eqb c
                                                                    (Npos (XO
                                                                    (XO (XI
                                                                    (XO (XO
                                                                    (XO
                                                                    XH))))))))
                                                                    (N.eqb c
                                                                    (Npos (XO
                                                                    (XO (XI
                                                                    (XO (XO
                                                                    (XI
                                                                    XH))))))))
                                                                    then 
                                                                    eret
                                                                    (CKill
                                                                    (if positive0
                                                                    then 
                                                                    MForwardWord
                                                                    (n0,
                                                                    AtAfterEnd,
                                                                    WEmacs)
                                                                    else 
                                                                    MBackwardWord
                                                                    (n0,
                                                                    WEmacs)))
                                                                    else 
                                                                    if 
                                                                    (||)
                                                                    (N.eqb c
                                                                    (Npos (XO
                                                                    (XI (XI
                                                                    (XO (XO
                                                                    (XO
                                                                    XH))))))))
                                                                    (N.eqb c
                                                                    (Npos (XO
                                                                    (XI (XI
                                                                    (XO (XO
                                                                    (XI
                                                                    XH))))))))
                                                                    then 
                                                                    eret
                                                                    (CMove
                                                                    (if positive0
                                                                    then 
                                                                    MForwardWord
                                                                    (n0,
                                                                    AtAfterEnd,
                                                                    WEmacs)
                                                                    else 
                                                                    MBackwardWord
                                                                    (n0,
                                                                    WEmacs)))
                                                                    else 
                                                                    if 
                                                                    (||)
                                                                    (N.eqb c
                                                                    (Npos (XO
                                                                    (XO (XI
                                                                    (XI (XO
                                                                    (XO
                                                                    XH))))))))
                                                                    (N.eqb c
                                                                    (Npos (XO
                                                                    (XO (XI
                                                                    (XI (XO
                                                                    (XI
                                                                    XH))))))))
                                                                    then 
                                                                    eret
                                                                    CDowncaseWord
                                                                    else 
                                                                    if 
                                                                    (||)
                                                                    (N.eqb c
                                                                    (Npos (XO
                                                                    (XO (XI
                                                                    (XO (XI
                                                                    (XO
                                                                    XH))))))))
                                                                    (N.eqb c
                                                                    (Npos (XO
                                                                    (XO (XI
                                                                    (XO (XI
                                                                    (XI
                                                                    XH))))))))
                                                                    then 
                                                                    eret
                                                                    (CTransposeWords
                                                                    n0)
                                                                    else 
                                                                    if 
                                                                    (||)
                                                                    (N.eqb c
                                                                    (Npos (XI
                                                                    (XO (XI
                                                                    (XO (XI
                                                                    (XO
                                                                    XH))))))))
                                                                    (N.eqb c
                                                                    (Npos (XI
                                                                    (XO (XI
                                                                    (XO (XI
                                                                    (XI
                                                                    XH))))))))
                                                                    then 
                                                                    eret
                                                                    CUpcaseWord
                                                                    else 
                                                                    if 
                                                                    (||)
                                                                    (N.eqb c
                                                                    (Npos (XI
                                                                    (XO (XO
                                                                    (XI (XI
                                                                    (XO
                                                                    XH))))))))
                                                                    (N.eqb c
                                                                    (Npos (XI
                                                                    (XO (XO
                                                                    (XI (XI
                                                                    (XI
                                                                    XH))))))))
                                                                    then 
                                                                    eret
                                                                    CYankPop
                                                                    else 
                                                                    common u
                                                                    cfg fuel
                                                                    k n0
                                                                    positive0
                                                                    else 
                                                                    common u
                                                                    cfg fuel
                                                                    k n0
                                                                    positive0
               | _ ->
                 if is (KEsc, m_NONE)
                 then eret CAbort
                 else if is (KBackspace, m_NONE)
                      then eret (CKill
                             (if positive0
                              then MBackwardChar n0
                              else MForwardChar n0))
                      else if is (KBackTab, m_NONE)
                           then eret CCompleteBackward
                           else if is (KTab, m_NONE)
                                then eret
                                       (if positive0
                                        then CComplete
                                        else CCompleteBackward)
                                else if is (KRight, m_NONE)
                                     then ebind has_hint_at_end (fun h ->
                                            if h
                                            then eret CCompleteHint
                                            else common u cfg fuel k n0
                                                   positive0)
                                     else if is (KBackspace, m_ALT)
                                          then eret (CKill
                                                 (if positive0
                                                  then MBackwardWord (n0,
                                                         WEmacs)
                                                  else MForwardWord (n0,
                                                         AtAfterEnd, WEmacs)))
                                          else if (||) (is (KLeft, m_ALT))
                                                    (is (KLeft, m_CTRL))
                                               then eret (CMove
                                                      (if positive0
                                                       then MBackwardWord
                                                              (n0, WEmacs)
                                                       else MForwardWord (n0,
                                                              AtAfterEnd,
                                                              WEmacs)))
                                               else if (||)
                                                         (is (KRight, m_ALT))
                                                         (is (KRight, m_CTRL))
                                                    then eret (CMove
                                                           (if positive0
                                                            then MForwardWord
                                                                   (n0,
                                                                   AtAfterEnd,
                                                                   WEmacs)
                                                            else MBackwardWord
                                                                   (n0,
                                                                   WEmacs)))
                                                    else common u cfg fuel k
                                                           n0 positive0)))))

(** val vi_char_search : uData -> config -> n -> char_search option e **)

let vi_char_search u cfg c =
  ebind (next_key u cfg false) (fun ch ->
    let (k, m0) = ch in
    (match k with
     | KChar x ->
       if mods_eqb m0 m_NONE
       then let cs =
              if N.eqb c (Npos (XO (XI (XI (XO (XO (XI XH)))))))
              then CsForward x
              else if N.eqb c (Npos (XO (XO (XI (XO (XI (XI XH)))))))
                   then CsForwardBefore x
                   else if N.eqb c (Npos (XO (XI (XI (XO (XO (XO XH)))))))
                        then CsBackward x
                        else CsBackwardAfter x
            in
            ebind (set_last_cs (Some cs)) (fun _ -> eret (Some cs))
       else eret None
     | _ -> eret None))

(** val is_fFtT : n -> bool **)

let is_fFtT c =
  (||)
    ((||)
      ((||) (N.eqb c (Npos (XO (XI (XI (XO (XO (XI XH))))))))
        (N.eqb c (Npos (XO (XI (XI (XO (XO (XO XH)))))))))
      (N.eqb c (Npos (XO (XO (XI (XO (XI (XI XH)))))))))
    (N.eqb c (Npos (XO (XO (XI (XO (XI (XO XH))))))))

(** val sat_mul_u16 : nat -> nat -> nat **)

let sat_mul_u16 a b =
  Nat.min
    (N.to_nat (Npos (XI (XI (XI (XI (XI (XI (XI (XI (XI (XI (XI (XI (XI (XI
      (XI XH))))))))))))))))) (mul a b)

(** val vi_cmd_motion :
    uData -> config -> nat -> key -> nat -> movement option e **)

let vi_cmd_motion u cfg fuel k n0 =
  ebind (next_key u cfg false) (fun mvt0 ->
    if key_eqb mvt0 k
    then eret (Some MWholeLine)
    else ebind
           (let (k0, m0) = mvt0 in
            (match k0 with
             | KChar c ->
               if (&&) (mods_eqb m0 m_NONE)
                    ((&&) (N.leb (Npos (XI (XO (XO (XO (XI XH)))))) c)
                      (N.leb c (Npos (XI (XO (XO (XI (XI XH))))))))
               then ebind (vi_arg_digit u cfg fuel c) (fun mvt' ->
                      ebind vi_num_args (fun a ->
                        eret (mvt', (sat_mul_u16 a n0))))
               else eret (mvt0, n0)
             | _ -> eret (mvt0, n0))) (fun mn ->
           let (mvt, n1) = mn in
           let is_c =
             key_eqb k (kc (Npos (XI (XI (XO (XO (XO (XI XH))))))) m_NONE)
           in
           let (k0, m0) = mvt in
           (match k0 with
            | KChar c ->
              if mods_eqb m0 m_NONE
              then if N.eqb c (Npos (XO (XO (XI (XO (XO XH))))))
                   then eret (Some MEndOfLine)
                   else if N.eqb c (Npos (XO (XO (XO (XO (XI XH))))))
                        then eret (Some MBeginningOfLine)
                        else if N.eqb c (Npos (XO (XI (XI (XI (XI (XO
                                  XH)))))))
                             then eret (Some MViFirstPrint)
                             else if N.eqb c (Npos (XO (XI (XO (XO (XO (XI
                                       XH)))))))
                                  then eret (Some (MBackwardWord (n1, WVi)))
                                  else if N.eqb c (Npos (XO (XI (XO (XO (XO
                                            (XO XH)))))))
                                       then eret (Some (MBackwardWord (n1,
                                              WBig)))
                                       else if N.eqb c (Npos (XI (XO (XI (XO
                                                 (XO (XI XH)))))))
                                            then eret (Some (MForwardWord
                                                   (n1, AtAfterEnd, WVi)))
                                            else if N.eqb c (Npos (XI (XO (XI
                                                      (XO (XO (XO XH)))))))
                                                 then eret (Some
                                                        (MForwardWord (n1,
                                                        AtAfterEnd, WBig)))
                                                 else if is_fFtT c
                                                      then ebind
                                                             (vi_char_search
                                                               u cfg c)
                                                             (fun cs ->
                                                             eret
                                                               (match cs with
                                                                | Some x ->
                                                                  Some
                                                                    (MViCharSearch
                                                                    (n1, x))
                                                                | None -> None))
                                                      else if N.eqb c (Npos
                                                                (XI (XI (XO
                                                                (XI (XI
                                                                XH))))))
                                                           then ebind eget
                                                                  (fun s ->
                                                                  eret
                                                                    (
                                                                    match s.i_last_cs with
                                                                    | Some x ->
                                                                    Some
                                                                    (MViCharSearch
                                                                    (n1, x))
                                                                    | None ->
                                                                    None))
                                                           else if N.eqb c
                                                                    (Npos (XO
                                                                    (XO (XI
                                                                    (XI (XO
                                                                    XH))))))
                                                                then 
                                                                  ebind eget
                                                                    (fun s ->
                                                                    eret
                                                                    (match s.i_last_cs with
                                                                    | Some x ->
                                                                    Some
                                                                    (MViCharSearch
                                                                    (n1,
                                                                    (cs_opposite
                                                                    x)))
                                                                    | None ->
                                                                    None))
                                                                else 
                                                                  if 
                                                                    N.eqb c
                                                                    (Npos (XO
                                                                    (XO (XO
                                                                    (XI (XO
                                                                    (XI
                                                                    XH)))))))
                                                                  then 
                                                                    eret
                                                                    (Some
                                                                    (MBackwardChar
                                                                    n1))
                                                                  else 
                                                                    if 
                                                                    (||)
                                                                    (N.eqb c
                                                                    (Npos (XO
                                                                    (XO (XI
                                                                    (XI (XO
                                                                    (XI
                                                                    XH))))))))
                                                                    (N.eqb c
                                                                    (Npos (XO
                                                                    (XO (XO
                                                                    (XO (XO
                                                                    XH)))))))
                                                                    then 
                                                                    eret
                                                                    (Some
                                                                    (MForwardChar
                                                                    n1))
                                                                    else 
                                                                    if 
                                                                    (||)
                                                                    (N.eqb c
                                                                    (Npos (XO
                                                                    (XI (XO
                                                                    (XI (XO
                                                                    (XI
                                                                    XH))))))))
                                                                    (N.eqb c
                                                                    (Npos (XI
                                                                    (XI (XO
                                                                    (XI (XO
                                                                    XH)))))))
                                                                    then 
                                                                    eret
                                                                    (Some
                                                                    (MLineDown
                                                                    n1))
                                                                    else 
                                                                    if 
                                                                    (||)
                                                                    (N.eqb c
                                                                    (Npos (XI
                                                                    (XI (XO
                                                                    (XI (XO
                                                                    (XI
                                                                    XH))))))))
                                                                    (N.eqb c
                                                                    (Npos (XI
                                                                    (XO (XI
                                                                    (XI (XO
                                                                    XH)))))))
                                                                    then 
                                                                    eret
                                                                    (Some
                                                                    (MLineUp
                                                                    n1))
                                                                    else 
                                                                    if 
                                                                    N.eqb c
                                                                    (Npos (XI
                                                                    (XI (XI
                                                                    (XO (XI
                                                                    (XI
                                                                    XH)))))))
                                                                    then 
                                                                    eret
                                                                    (Some
                                                                    (if is_c
                                                                    then 
                                                                    MForwardWord
                                                                    (n1,
                                                                    AtAfterEnd,
                                                                    WVi)
                                                                    else 
                                                                    MForwardWord
                                                                    (n1,
                                                                    AtStart,
                                                                    WVi)))
                                                                    else 
                                                                    if 
                                                                    N.eqb c
                                                                    (Npos (XI
                                                                    (XI (XI
                                                                    (XO (XI
                                                                    (XO
                                                                    XH)))))))
                                                                    then 
                                                                    eret
                                                                    (Some
                                                                    (if is_c
                                                                    then 
                                                                    MForwardWord
                                                                    (n1,
                                                                    AtAfterEnd,
                                                                    WBig)
                                                                    else 
                                                                    MForwardWord
                                                                    (n1,
                                                                    AtStart,
                                                                    WBig)))
                                                                    else 
                                                                    eret None
              else if key_eqb mvt
                        (kc (Npos (XO (XO (XO (XI (XO (XO XH))))))) m_CTRL)
                   then eret (Some (MBackwardChar n1))
                   else eret None
            | _ ->
              if key_eqb mvt (KBackspace, m_NONE)
              then eret (Some (MBackwardChar n1))
              else eret None)))

(** val doing_insert : unit e **)

let doing_insert =
  ebind changes_begin (fun _ -> eret ())

(** val done_inserting : unit e **)

let done_inserting =
  ebind changes_end (fun _ -> eret ())

(** val vi_command : uData -> config -> nat -> key -> cmd e **)

let vi_command u cfg fuel k0 =
  ebind
    (let (k, m0) = k0 in
     (match k with
      | KChar c ->
        if (&&) (mods_eqb m0 m_NONE)
             ((&&) (N.leb (Npos (XI (XO (XO (XO (XI XH)))))) c)
               (N.leb c (Npos (XI (XO (XO (XI (XI XH))))))))
        then vi_arg_digit u cfg fuel c
        else eret k0
      | _ -> eret k0)) (fun k ->
    ebind eget (fun s0 ->
      let no_num_args = Z.eqb s0.i_num_args Z0 in
      ebind vi_num_args (fun n0 ->
        ebind (custom_binding cfg k n0 true) (fun cb ->
          match cb with
          | Some c ->
            if is_repeatable c
            then cmd_redo c (if no_num_args then None else Some n0)
            else eret c
          | None ->
            ebind (term_binding cfg k) (fun tb ->
              match tb with
              | Some c -> eret c
              | None ->
                let is = fun k' -> key_eqb k k' in
                ebind
                  (let (k1, m0) = k in
                   (match k1 with
                    | KChar c ->
                      if mods_eqb m0 m_NONE
                      then if N.eqb c (Npos (XO (XO (XI (XO (XO XH))))))
                           then eret (CMove MEndOfLine)
                           else if N.eqb c (Npos (XO (XI (XI (XI (XO XH))))))
                                then ebind eget (fun s ->
                                       if negb (is_repeatable s.i_last_cmd)
                                       then eret CNoop
                                       else cmd_redo s.i_last_cmd
                                              (if no_num_args
                                               then None
                                               else Some n0))
                                else if N.eqb c (Npos (XO (XO (XO (XO (XI
                                          XH))))))
                                     then eret (CMove MBeginningOfLine)
                                     else if N.eqb c (Npos (XO (XI (XI (XI
                                               (XI (XO XH)))))))
                                          then eret (CMove MViFirstPrint)
                                          else if N.eqb c (Npos (XI (XO (XO
                                                    (XO (XO (XI XH)))))))
                                               then ebind
                                                      (set_input_mode
                                                        IMInsert) (fun _ ->
                                                      ebind doing_insert
                                                        (fun _ ->
                                                        eret (CMove
                                                          (MForwardChar n0))))
                                               else if N.eqb c (Npos (XI (XO
                                                         (XO (XO (XO (XO
                                                         XH)))))))
                                                    then ebind
                                                           (set_input_mode
                                                             IMInsert)
                                                           (fun _ ->
                                                           ebind doing_insert
                                                             (fun _ ->
                                                             eret (CMove
                                                               MEndOfLine)))
                                                    else if N.eqb c (Npos (XO
                                                              (XI (XO (XO (XO
                                                              (XI XH)))))))
                                                         then eret (CMove
                                                                (MBackwardWord
                                                                (n0, WVi)))
                                                         else if N.eqb c
                                                                   (Npos (XO
                                                                   (XI (XO
                                                                   (XO (XO
                                                                   (XO
                                                                   XH)))))))
                                                              then eret
                                                                    (CMove
                                                                    (MBackwardWord
                                                                    (n0,
                                                                    WBig)))
                                                              else if 
                                                                    N.eqb c
                                                                    (Npos (XI
                                                                    (XI (XO
                                                                    (XO (XO
                                                                    (XI
                                                                    XH)))))))
                                                                   then 
                                                                    ebind
                                                                    (set_input_mode
                                                                    IMInsert)
                                                                    (fun _ ->
                                                                    ebind
                                                                    (vi_cmd_motion
                                                                    u cfg
                                                                    fuel k n0)
                                                                    (fun m' ->
                                                                    eret
                                                                    (match m' with
                                                                    | Some mv ->
                                                                    CReplace
                                                                    (mv, None)
                                                                    | None ->
                                                                    CUnknown)))
                                                                   else 
                                                                    if 
                                                                    N.eqb c
                                                                    (Npos (XI
                                                                    (XI (XO
                                                                    (XO (XO
                                                                    (XO
                                                                    XH)))))))
                                                                    then 
                                                                    ebind
                                                                    (set_input_mode
                                                                    IMInsert)
                                                                    (fun _ ->
                                                                    eret
                                                                    (CReplace
                                                                    (MEndOfLine,
                                                                    None)))
                                                                    else 
                                                                    if 
                                                                    N.eqb c
                                                                    (Npos (XO
                                                                    (XO (XI
                                                                    (XO (XO
                                                                    (XI
                                                                    XH)))))))
                                                                    then 
                                                                    ebind
                                                                    (vi_cmd_motion
                                                                    u cfg
                                                                    fuel k n0)
                                                                    (fun m' ->
                                                                    eret
                                                                    (match m' with
                                                                    | Some mv ->
                                                                    CKill mv
                                                                    | None ->
                                                                    CUnknown))
                                                                    else 
                                                                    if 
                                                                    N.eqb c
                                                                    (Npos (XO
                                                                    (XO (XI
                                                                    (XO (XO
                                                                    (XO
                                                                    XH)))))))
                                                                    then 
                                                                    eret
                                                                    (CKill
                                                                    MEndOfLine)
                                                                    else 
                                                                    if 
                                                                    N.eqb c
                                                                    (Npos (XI
                                                                    (XO (XI
                                                                    (XO (XO
                                                                    (XI
                                                                    XH)))))))
                                                                    then 
                                                                    eret
                                                                    (CMove
                                                                    (MForwardWord
                                                                    (n0,
                                                                    AtBeforeEnd,
                                                                    WVi)))
                                                                    else 
                                                                    if 
                                                                    N.eqb c
                                                                    (Npos (XI
                                                                    (XO (XI
                                                                    (XO (XO
                                                                    (XO
                                                                    XH)))))))
                                                                    then 
                                                                    eret
                                                                    (CMove
                                                                    (MForwardWord
                                                                    (n0,
                                                                    AtBeforeEnd,
                                                                    WBig)))
                                                                    else 
                                                                    if 
                                                                    N.eqb c
                                                                    (Npos (XI
                                                                    (XO (XO
                                                                    (XI (XO
                                                                    (XI
                                                                    XH)))))))
                                                                    then 
                                                                    ebind
                                                                    (set_input_mode
                                                                    IMInsert)
                                                                    (fun _ ->
                                                                    ebind
                                                                    doing_insert
                                                                    (fun _ ->
                                                                    eret CNoop))
                                                                    else 
                                                                    if 
                                                                    N.eqb c
                                                                    (Npos (XI
                                                                    (XO (XO
                                                                    (XI (XO
                                                                    (XO
                                                                    XH)))))))
                                                                    then 
                                                                    ebind
                                                                    (set_input_mode
                                                                    IMInsert)
                                                                    (fun _ ->
                                                                    ebind
                                                                    doing_insert
                                                                    (fun _ ->
                                                                    eret
                                                                    (CMove
                                                                    MBeginningOfLine)))
                                                                    else 
                                                                    if 
                                                                    is_fFtT c
                                                                    then 
                                                                    ebind
                                                                    (vi_char_search
                                                                    u cfg c)
                                                                    (fun cs ->
                                                                    eret
                                                                    (match cs with
                                                                    | Some x ->
                                                                    CMove
                                                                    (MViCharSearch
                                                                    (n0, x))
                                                                    | None ->
                                                                    CUnknown))
                                                                    else 
                                                                    if 
                                                                    N.eqb c
                                                                    (Npos (XI
                                                                    (XI (XO
                                                                    (XI (XI
                                                                    XH))))))
                                                                    then 
                                                                    ebind
                                                                    eget
                                                                    (fun s ->
                                                                    eret
                                                                    (match s.i_last_cs with
                                                                    | Some x ->
                                                                    CMove
                                                                    (MViCharSearch
                                                                    (n0, x))
                                                                    | None ->
                                                                    CNoop))
                                                                    else 
                                                                    if 
                                                                    N.eqb c
                                                                    (Npos (XO
                                                                    (XO (XI
                                                                    (XI (XO
                                                                    XH))))))
                                                                    then 
                                                                    ebind
                                                                    eget
                                                                    (fun s ->
                                                                    eret
                                                                    (match s.i_last_cs with
                                                                    | Some x ->
                                                                    CMove
                                                                    (MViCharSearch
                                                                    (n0,
                                                                    (cs_opposite
                                                                    x)))
                                                                    | None ->
                                                                    CNoop))
                                                                    else 
                                                                    if 
                                                                    N.eqb c
                                                                    (Npos (XO
                                                                    (XO (XO
                                                                    (XO (XI
                                                                    (XI
                                                                    XH)))))))
                                                                    then 
                                                                    eret
                                                                    (CYank
                                                                    (n0,
                                                                    AAfter))
                                                                    else 
                                                                    if 
                                                                    N.eqb c
                                                                    (Npos (XO
                                                                    (XO (XO
                                                                    (XO (XI
                                                                    (XO
                                                                    XH)))))))
                                                                    then 
                                                                    eret
                                                                    (CYank
                                                                    (n0,
                                                                    ABefore))
                                                                    else 
                                                                    if 
                                                                    N.eqb c
                                                                    (Npos (XO
                                                                    (XI (XO
                                                                    (XO (XI
                                                                    (XI
                                                                    XH)))))))
                                                                    then 
                                                                    ebind
                                                                    (next_key
                                                                    u cfg
                                                                    false)
                                                                    (fun ch ->
                                                                    let (
                                                                    k2, m') =
                                                                    ch
                                                                    in
                                                                    (
                                                                    match k2 with
                                                                    | KChar x ->
                                                                    if 
                                                                    mods_eqb
                                                                    m' m_NONE
                                                                    then 
                                                                    eret
                                                                    (CReplaceChar
                                                                    (n0, x))
                                                                    else 
                                                                    eret
                                                                    CUnknown
                                                                    | _ ->
                                                                    if 
                                                                    key_eqb
                                                                    ch (KEsc,
                                                                    m_NONE)
                                                                    then 
                                                                    eret CNoop
                                                                    else 
                                                                    eret
                                                                    CUnknown))
                                                                    else 
                                                                    if 
                                                                    N.eqb c
                                                                    (Npos (XO
                                                                    (XI (XO
                                                                    (XO (XI
                                                                    (XO
                                                                    XH)))))))
                                                                    then 
                                                                    ebind
                                                                    (set_input_mode
                                                                    IMReplace)
                                                                    (fun _ ->
                                                                    eret
                                                                    (CReplace
                                                                    ((MForwardChar
                                                                    O), None)))
                                                                    else 
                                                                    if 
                                                                    N.eqb c
                                                                    (Npos (XI
                                                                    (XI (XO
                                                                    (XO (XI
                                                                    (XI
                                                                    XH)))))))
                                                                    then 
                                                                    ebind
                                                                    (set_input_mode
                                                                    IMInsert)
                                                                    (fun _ ->
                                                                    eret
                                                                    (CReplace
                                                                    ((MForwardChar
                                                                    n0),
                                                                    None)))
                                                                    else 
                                                                    if 
                                                                    N.eqb c
                                                                    (Npos (XI
                                                                    (XI (XO
                                                                    (XO (XI
                                                                    (XO
                                                                    XH)))))))
                                                                    then 
                                                                    ebind
                                                                    (set_input_mode
                                                                    IMInsert)
                                                                    (fun _ ->
                                                                    eret
                                                                    (CReplace
                                                                    (MWholeLine,
                                                                    None)))
                                                                    else 
                                                                    if 
                                                                    N.eqb c
                                                                    (Npos (XI
                                                                    (XO (XI
                                                                    (XO (XI
                                                                    (XI
                                                                    XH)))))))
                                                                    then 
                                                                    eret
                                                                    (CUndo n0)
                                                                    else 
                                                                    if 
                                                                    N.eqb c
                                                                    (Npos (XI
                                                                    (XI (XI
                                                                    (XO (XI
                                                                    (XI
                                                                    XH)))))))
                                                                    then 
                                                                    eret
                                                                    (CMove
                                                                    (MForwardWord
                                                                    (n0,
                                                                    AtStart,
                                                                    WVi)))
                                                                    else 
                                                                    if 
                                                                    N.eqb c
                                                                    (Npos (XI
                                                                    (XI (XI
                                                                    (XO (XI
                                                                    (XO
                                                                    XH)))))))
                                                                    then 
                                                                    eret
                                                                    (CMove
                                                                    (MForwardWord
                                                                    (n0,
                                                                    AtStart,
                                                                    WBig)))
                                                                    else 
                                                                    if 
                                                                    N.eqb c
                                                                    (Npos (XO
                                                                    (XO (XO
                                                                    (XI (XI
                                                                    (XI
                                                                    XH)))))))
                                                                    then 
                                                                    eret
                                                                    (CKill
                                                                    (MForwardChar
                                                                    n0))
                                                                    else 
                                                                    if 
                                                                    N.eqb c
                                                                    (Npos (XO
                                                                    (XO (XO
                                                                    (XI (XI
                                                                    (XO
                                                                    XH)))))))
                                                                    then 
                                                                    eret
                                                                    (CKill
                                                                    (MBackwardChar
                                                                    n0))
                                                                    else 
                                                                    if 
                                                                    N.eqb c
                                                                    (Npos (XI
                                                                    (XO (XO
                                                                    (XI (XI
                                                                    (XI
                                                                    XH)))))))
                                                                    then 
                                                                    ebind
                                                                    (vi_cmd_motion
                                                                    u cfg
                                                                    fuel k n0)
                                                                    (fun m' ->
                                                                    eret
                                                                    (match m' with
                                                                    | Some mv ->
                                                                    CViYankTo
                                                                    mv
                                                                    | None ->
                                                                    CUnknown))
                                                                    else 
                                                                    if 
                                                                    N.eqb c
                                                                    (Npos (XO
                                                                    (XO (XO
                                                                    (XI (XO
                                                                    (XI
                                                                    XH)))))))
                                                                    then 
                                                                    eret
                                                                    (CMove
                                                                    (MBackwardChar
                                                                    n0))
                                                                    else 
                                                                    if 
                                                                    (||)
                                                                    (N.eqb c
                                                                    (Npos (XO
                                                                    (XO (XI
                                                                    (XI (XO
                                                                    (XI
                                                                    XH))))))))
                                                                    (N.eqb c
                                                                    (Npos (XO
                                                                    (XO (XO
                                                                    (XO (XO
                                                                    XH)))))))
                                                                    then 
                                                                    eret
                                                                    (CMove
                                                                    (MForwardChar
                                                                    n0))
                                                                    else 
                                                                    if 
                                                                    (||)
                                                                    (N.eqb c
                                                                    (Npos (XI
                                                                    (XI (XO
                                                                    (XI (XO
                                                                    XH)))))))
                                                                    (N.eqb c
                                                                    (Npos (XO
                                                                    (XI (XO
                                                                    (XI (XO
                                                                    (XI
                                                                    XH))))))))
                                                                    then 
                                                                    eret
                                                                    (CLineDownOrNextHistory
                                                                    n0)
                                                                    else 
                                                                    if 
                                                                    (||)
                                                                    (N.eqb c
                                                                    (Npos (XI
                                                                    (XO (XI
                                                                    (XI (XO
                                                                    XH)))))))
                                                                    (N.eqb c
                                                                    (Npos (XI
                                                                    (XI (XO
                                                                    (XI (XO
                                                                    (XI
                                                                    XH))))))))
                                                                    then 
                                                                    eret
                                                                    (CLineUpOrPreviousHistory
                                                                    n0)
                                                                    else 
                                                                    if 
                                                                    N.eqb c
                                                                    (Npos (XO
                                                                    (XO (XI
                                                                    (XI (XI
                                                                    XH))))))
                                                                    then 
                                                                    ebind
                                                                    (vi_cmd_motion
                                                                    u cfg
                                                                    fuel k n0)
                                                                    (fun m' ->
                                                                    eret
                                                                    (match m' with
                                                                    | Some mv ->
                                                                    CDedent mv
                                                                    | None ->
                                                                    CUnknown))
                                                                    else 
                                                                    if 
                                                                    N.eqb c
                                                                    (Npos (XO
                                                                    (XI (XI
                                                                    (XI (XI
                                                                    XH))))))
                                                                    then 
                                                                    ebind
                                                                    (vi_cmd_motion
                                                                    u cfg
                                                                    fuel k n0)
                                                                    (fun m' ->
                                                                    eret
                                                                    (match m' with
                                                                    | Some mv ->
                                                                    CIndent mv
                                                                    | None ->
                                                                    CUnknown))
                                                                    else 
                                                                    common u
                                                                    cfg fuel
                                                                    k n0 true
                      else if is
                                (kc (Npos (XI (XI (XO (XI (XO (XO XH)))))))
                                  m_CTRL)
                           then eret (CKill MEndOfLine)
                           else if is
                                     (kc (Npos (XO (XO (XO (XI (XO (XO
                                       XH))))))) m_CTRL)
                                then eret (CMove (MBackwardChar n0))
                                else if is
                                          (kc (Npos (XI (XI (XI (XO (XO (XO
                                            XH))))))) m_CTRL)
                                     then eret CAbort
                                     else if is
                                               (kc (Npos (XO (XO (XI (XI (XO
                                                 (XO XH))))))) m_CTRL)
                                          then eret CClearScreen
                                          else if is
                                                    (kc (Npos (XO (XI (XI (XI
                                                      (XO (XO XH)))))))
                                                      m_CTRL)
                                               then eret CNextHistory
                                               else if is
                                                         (kc (Npos (XO (XO
                                                           (XO (XO (XI (XO
                                                           XH))))))) m_CTRL)
                                                    then eret CPreviousHistory
                                                    else if is
                                                              (kc (Npos (XO
                                                                (XI (XO (XO
                                                                (XI (XO
                                                                XH)))))))
                                                                m_CTRL)
                                                         then ebind
                                                                (set_input_mode
                                                                  IMInsert)
                                                                (fun _ ->
                                                                eret
                                                                  CReverseSearchHistory)
                                                         else if is
                                                                   (kc (Npos
                                                                    (XI (XI
                                                                    (XO (XO
                                                                    (XI (XO
                                                                    XH)))))))
                                                                    m_CTRL)
                                                              then ebind
                                                                    (set_input_mode
                                                                    IMInsert)
                                                                    (fun _ ->
                                                                    eret
                                                                    CForwardSearchHistory)
                                                              else common u
                                                                    cfg fuel
                                                                    k n0 true
                    | _ ->
                      if is (KEnd, m_NONE)
                      then eret (CMove MEndOfLine)
                      else if is (KBackspace, m_NONE)
                           then eret (CMove (MBackwardChar n0))
                           else if is (KEsc, m_NONE)
                                then eret CNoop
                                else common u cfg fuel k n0 true)) (fun c ->
                  ebind
                    (if is_repeatable_change c
                     then set_last_cmd c
                     else eret ()) (fun _ -> eret c)))))))

(** val vi_insert : uData -> config -> nat -> key -> cmd e **)

let vi_insert u cfg fuel k =
  ebind (custom_binding cfg k O true) (fun cb ->
    match cb with
    | Some c -> if is_repeatable c then cmd_redo c None else eret c
    | None ->
      ebind (term_binding cfg k) (fun tb ->
        match tb with
        | Some c -> eret c
        | None ->
          let is = fun k' -> key_eqb k k' in
          ebind
            (let (k0, m0) = k in
             (match k0 with
              | KChar c ->
                if mods_eqb m0 m_NONE
                then ebind eget (fun s ->
                       eret
                         (match s.i_input_mode with
                          | IMReplace -> COverwrite c
                          | _ -> CSelfInsert ((S O), c)))
                else if is (kc (Npos (XO (XO (XO (XI (XO (XO XH))))))) m_CTRL)
                     then eret (CKill (MBackwardChar (S O)))
                     else if is
                               (kc (Npos (XI (XO (XO (XI (XO (XO XH)))))))
                                 m_CTRL)
                          then eret CComplete
                          else if mods_eqb m0 m_ALT
                               then ebind (set_input_mode IMCommand)
                                      (fun _ ->
                                      ebind done_inserting (fun _ ->
                                        vi_command u cfg fuel ((KChar c),
                                          m_NONE)))
                               else common u cfg fuel k (S O) true
              | _ ->
                if is (KBackspace, m_NONE)
                then eret (CKill (MBackwardChar (S O)))
                else if is (KBackTab, m_NONE)
                     then eret CCompleteBackward
                     else if is (KTab, m_NONE)
                          then eret CComplete
                          else if is (KRight, m_NONE)
                               then ebind has_hint_at_end (fun h ->
                                      if h
                                      then eret CCompleteHint
                                      else common u cfg fuel k (S O) true)
                               else if is (KEsc, m_NONE)
                                    then ebind (set_input_mode IMCommand)
                                           (fun _ ->
                                           ebind done_inserting (fun _ ->
                                             eret (CMove (MBackwardChar (S
                                               O)))))
                                    else common u cfg fuel k (S O) true))
            (fun c ->
            ebind eget (fun s ->
              ebind
                (if is_repeatable_change c
                 then (match s.i_last_cmd with
                       | CReplace (_, _) ->
                         (match c with
                          | CSelfInsert (_, _) -> eret ()
                          | _ -> set_last_cmd c)
                       | CSelfInsert (_, _) ->
                         (match c with
                          | CSelfInsert (_, _) -> eret ()
                          | _ -> set_last_cmd c)
                       | _ -> set_last_cmd c)
                 else eret ()) (fun _ -> eret c)))))

(** val next_cmd : uData -> config -> nat -> bool -> cmd e **)

let next_cmd u cfg fuel single_esc_abort =
  ebind (next_key u cfg ((&&) single_esc_abort (is_emacs0 cfg))) (fun k ->
    ebind eget (fun s ->
      ebind
        (if is_emacs0 cfg
         then emacs u cfg fuel k
         else (match s.i_input_mode with
               | IMCommand -> vi_command u cfg fuel k
               | _ -> vi_insert u cfg fuel k)) (fun c ->
        ebind
          (match c with
           | CReplace (_, _) -> ebind changes_begin (fun _ -> eret ())
           | _ -> eret ()) (fun _ -> eret c))))

type status =
| Proceed
| Submit

(** val complete_hint_line : uData -> config -> unit e **)

let complete_hint_line u cfg =
  ebind eget (fun s ->
    match s.e_hint with
    | Some text ->
      ebind (lb_quiet move_end) (fun _ ->
        ebind (lb_changes u (yank text (S O))) (fun r ->
          ebind (match r with
                 | Some _ -> eret ()
                 | None -> beep cfg) (fun _ -> refresh_line u cfg)))
    | None -> eret ())

(** val is_default_prompt : est -> bool **)

let is_default_prompt s =
  s.e_layout.l_default_prompt

(** val starts_with_ws : uData -> str -> bool **)

let starts_with_ws u = function
| [] -> false
| c :: _ -> u.u_is_whitespace c

(** val execute : uData -> config -> cmd -> status e **)

let execute u cfg c =
  ebind eget (fun s0 ->
    ebind
      (match c with
       | CAcceptLine ->
         if (||) (match s0.e_hint with
                  | Some _ -> true
                  | None -> false) (negb (is_default_prompt s0))
         then refresh_line_with_msg u cfg None
         else eret ()
       | CEndOfFile ->
         if (||) (match s0.e_hint with
                  | Some _ -> true
                  | None -> false) (negb (is_default_prompt s0))
         then refresh_line_with_msg u cfg None
         else eret ()
       | CNewline ->
         if (||) (match s0.e_hint with
                  | Some _ -> true
                  | None -> false) (negb (is_default_prompt s0))
         then refresh_line_with_msg u cfg None
         else eret ()
       | CAcceptOrInsertLine _ ->
         if (||) (match s0.e_hint with
                  | Some _ -> true
                  | None -> false) (negb (is_default_prompt s0))
         then refresh_line_with_msg u cfg None
         else eret ()
       | _ -> eret ()) (fun _ ->
      match c with
      | CAcceptLine ->
        ebind (validate u cfg) (fun vr ->
          ebind eget (fun s ->
            let valid = match vr with
                        | VRValid _ -> true
                        | _ -> false in
            let e0 = is_end_of_input u s.e_line in
            (match c with
             | CAcceptLine -> eret Submit
             | CAcceptOrInsertLine aim ->
               if (&&) valid ((||) e0 aim)
               then eret Submit
               else ebind
                      (if (||) valid
                            (negb
                              (match vr with
                               | VRValid msg ->
                                 (match msg with
                                  | Some _ -> true
                                  | None -> false)
                               | VRInvalid msg ->
                                 (match msg with
                                  | Some _ -> true
                                  | None -> false)
                               | _ -> false))
                       then edit_insert u cfg (Npos (XO (XI (XO XH)))) (S O)
                       else eret ()) (fun _ -> eret Proceed)
             | _ -> eret Proceed)))
      | CBeginningOfHistory ->
        ebind (edit_history u cfg true) (fun _ -> eret Proceed)
      | CCapitalizeWord ->
        ebind (grouped u cfg (edit_word u (seg u) Capitalize)) (fun _ ->
          eret Proceed)
      | CClearScreen ->
        ebind
          (write ((Npos (XI (XI (XO (XI XH))))) :: ((Npos (XI (XI (XO (XI (XI
            (XO XH))))))) :: ((Npos (XO (XO (XO (XI (XO (XO
            XH))))))) :: ((Npos (XI (XI (XO (XI XH))))) :: ((Npos (XI (XI (XO
            (XI (XI (XO XH))))))) :: ((Npos (XO (XI (XO (XI (XO (XO
            XH))))))) :: []))))))) (fun _ ->
          ebind eget (fun s ->
            ebind
              (set_layout { l_prompt_size = s.e_layout.l_prompt_size;
                l_default_prompt = s.e_layout.l_default_prompt; l_cursor =
                p0; l_end = p0 }) (fun _ ->
              ebind (refresh_line u cfg) (fun _ -> eret Proceed))))
      | CCompleteHint ->
        ebind (complete_hint_line u cfg) (fun _ -> eret Proceed)
      | CDedent m0 ->
        ebind (lb_changes u (indent u (seg u) m0 cfg.c_indent_size true))
          (fun r ->
          ebind (if r then refresh_line u cfg else eret ()) (fun _ ->
            eret Proceed))
      | CDowncaseWord ->
        ebind (grouped u cfg (edit_word u (seg u) Lowercase)) (fun _ ->
          eret Proceed)
      | CEndOfFile ->
        ebind eget (fun s ->
          if Nat.eqb (lb_len s.e_line) O
          then efail EEof
          else if negb (is_emacs0 cfg) then eret Submit else eret Proceed)
      | CEndOfHistory ->
        ebind (edit_history u cfg false) (fun _ -> eret Proceed)
      | CHistorySearchBackward ->
        ebind (edit_history_search u cfg Reverse) (fun _ -> eret Proceed)
      | CHistorySearchForward ->
        ebind (edit_history_search u cfg Forward) (fun _ -> eret Proceed)
      | CIndent m0 ->
        ebind (lb_changes u (indent u (seg u) m0 cfg.c_indent_size false))
          (fun r ->
          ebind (if r then refresh_line u cfg else eret ()) (fun _ ->
            eret Proceed))
      | CInsert (n0, text) ->
        ebind (edit_yank u cfg text ABefore n0) (fun _ -> eret Proceed)
      | CInterrupt -> ebind move_cursor_to_end (fun _ -> efail EInterrupted)
      | CKill m0 -> ebind (edit_kill u cfg m0) (fun _ -> eret Proceed)
      | CMove m0 ->
        (match m0 with
         | MBeginningOfLine ->
           ebind (moved u cfg move_home) (fun _ -> eret Proceed)
         | MEndOfLine -> ebind (moved u cfg move_end) (fun _ -> eret Proceed)
         | MBackwardWord (n0, w) ->
           ebind (moved u cfg (move_to_prev_word u (seg u) w n0)) (fun _ ->
             eret Proceed)
         | MForwardWord (n0, a, w) ->
           ebind (moved u cfg (move_to_next_word u (seg u) a w n0)) (fun _ ->
             eret Proceed)
         | MViCharSearch (n0, cs) ->
           ebind (moved u cfg (move_to (seg u) cs n0)) (fun _ -> eret Proceed)
         | MViFirstPrint ->
           ebind (moved u cfg move_home) (fun _ ->
             ebind eget (fun s ->
               ebind
                 (if starts_with_ws u s.e_line.buf
                  then moved u cfg
                         (move_to_next_word u (seg u) AtStart WBig (S O))
                  else eret ()) (fun _ -> eret Proceed)))
         | MBackwardChar n0 ->
           ebind (moved u cfg (move_backward (seg u) n0)) (fun _ ->
             eret Proceed)
         | MForwardChar n0 ->
           ebind (moved u cfg (move_forward (seg u) n0)) (fun _ ->
             eret Proceed)
         | MLineUp n0 ->
           ebind (edit_move_line_up u cfg n0) (fun _ -> eret Proceed)
         | MLineDown n0 ->
           ebind (edit_move_line_down u cfg n0) (fun _ -> eret Proceed)
         | MBeginningOfBuffer ->
           ebind (moved u cfg move_buffer_start) (fun _ -> eret Proceed)
         | MEndOfBuffer ->
           ebind (moved u cfg move_buffer_end) (fun _ -> eret Proceed)
         | _ -> eret Proceed)
      | CNextHistory ->
        ebind (edit_history_next u cfg false) (fun _ -> eret Proceed)
      | CRepaint -> ebind (refresh_line u cfg) (fun _ -> eret Proceed)
      | COverwrite ch ->
        ebind (edit_overwrite_char u cfg ch) (fun _ -> eret Proceed)
      | CPreviousHistory ->
        ebind (edit_history_next u cfg true) (fun _ -> eret Proceed)
      | CReplaceChar (n0, ch) ->
        ebind (edit_replace_char u cfg ch n0) (fun _ -> eret Proceed)
      | CReplace (m0, text) ->
        ebind (edit_kill u cfg m0) (fun _ ->
          ebind
            (match text with
             | Some t ->
               ebind (edit_insert_text u cfg t) (fun _ ->
                 ebind changes_end (fun _ -> eret ()))
             | None -> eret ()) (fun _ -> eret Proceed))
      | CSelfInsert (n0, ch) ->
        ebind (edit_insert u cfg ch n0) (fun _ -> eret Proceed)
      | CTransposeChars ->
        ebind (grouped u cfg (transpose_chars (seg u))) (fun _ ->
          eret Proceed)
      | CTransposeWords n0 ->
        ebind (grouped u cfg (transpose_words u (seg u) n0)) (fun _ ->
          eret Proceed)
      | CUndo n0 ->
        ebind eget (fun s ->
          match cs_undo s.e_changes s.e_line n0 with
          | Ok a ->
            let (p, undone) = a in
            let (c', b') = p in
            ebind (set_changes c') (fun _ ->
              ebind (set_line b') (fun _ ->
                ebind (if undone then refresh_line u cfg else eret ())
                  (fun _ -> eret Proceed)))
          | Panic -> epanic)
      | CUpcaseWord ->
        ebind (grouped u cfg (edit_word u (seg u) Uppercase)) (fun _ ->
          eret Proceed)
      | CViYankTo m0 ->
        ebind eget (fun s ->
          match copy u (seg u) s.e_line m0 with
          | Ok a ->
            (match a with
             | Some text ->
               (match kr_kill s.e_kr text KAppend with
                | Ok k' -> ebind (set_kr k') (fun _ -> eret Proceed)
                | Panic -> epanic)
             | None -> eret Proceed)
          | Panic -> epanic)
      | CYank (n0, a) ->
        ebind eget (fun s ->
          let (k', t) = kr_yank s.e_kr in
          ebind (set_kr k') (fun _ ->
            ebind
              (match t with
               | Some text ->
                 ebind (edit_yank u cfg text a n0) (fun _ ->
                   ebind eget (fun s2 ->
                     set_kr
                       (if is_emacs0 cfg
                        then kr_repeated s2.e_kr n0
                        else kr_reset s2.e_kr)))
               | None -> eret ()) (fun _ -> eret Proceed)))
      | CYankPop ->
        ebind eget (fun s ->
          let (k', r) = kr_yank_pop s.e_kr in
          ebind (set_kr k') (fun _ ->
            ebind
              (match r with
               | Some p ->
                 let (size, text) = p in edit_yank_pop u cfg size text
               | None -> eret ()) (fun _ -> eret Proceed)))
      | CLineUpOrPreviousHistory n0 ->
        ebind (edit_move_line_up u cfg n0) (fun r ->
          ebind (if r then eret () else edit_history_next u cfg true)
            (fun _ -> eret Proceed))
      | CLineDownOrNextHistory n0 ->
        ebind (edit_move_line_down u cfg n0) (fun r ->
          ebind (if r then eret () else edit_history_next u cfg false)
            (fun _ -> eret Proceed))
      | CNewline ->
        ebind (edit_insert u cfg (Npos (XO (XI (XO XH)))) (S O)) (fun _ ->
          eret Proceed)
      | CAcceptOrInsertLine _ ->
        ebind (validate u cfg) (fun vr ->
          ebind eget (fun s ->
            let valid = match vr with
                        | VRValid _ -> true
                        | _ -> false in
            let e0 = is_end_of_input u s.e_line in
            (match c with
             | CAcceptLine -> eret Submit
             | CAcceptOrInsertLine aim ->
               if (&&) valid ((||) e0 aim)
               then eret Submit
               else ebind
                      (if (||) valid
                            (negb
                              (match vr with
                               | VRValid msg ->
                                 (match msg with
                                  | Some _ -> true
                                  | None -> false)
                               | VRInvalid msg ->
                                 (match msg with
                                  | Some _ -> true
                                  | None -> false)
                               | _ -> false))
                       then edit_insert u cfg (Npos (XO (XI (XO XH)))) (S O)
                       else eret ()) (fun _ -> eret Proceed)
             | _ -> eret Proceed)))
      | _ -> eret Proceed))

(** val lcp2 : str -> str -> str **)

let rec lcp2 a b =
  match a with
  | [] -> []
  | x :: a' ->
    (match b with
     | [] -> []
     | y :: b' -> if N.eqb x y then x :: (lcp2 a' b') else [])

(** val lcp_all : str list -> str option **)

let lcp_all = function
| [] -> None
| c :: rest ->
  (match rest with
   | [] -> Some c
   | _ :: _ ->
     (match fold_left lcp2 rest c with
      | [] -> None
      | n0 :: l -> Some (n0 :: l)))

(** val completer_update : uData -> nat -> str -> unit e **)

let completer_update u start elected =
  ebind eget (fun s -> lb_changes u (replace start s.e_line.pos elected))

(** val show_candidate :
    uData -> nat -> str list -> (str * nat) -> nat -> unit e **)

let show_candidate u start cands backup0 i =
  if Nat.ltb i (length cands)
  then (match nth_error cands i with
        | Some c -> completer_update u start c
        | None -> eret ())
  else lb_changes u (update (fst backup0) (snd backup0))

(** val circular_branch :
    uData -> config -> (nat -> cmd option e) -> str list -> (str * nat) ->
    nat -> nat -> cmd -> cmd option e **)

let circular_branch u cfg rec0 cands backup0 mark i c = match c with
| CAbort ->
  ebind
    (if Nat.ltb i (length cands)
     then ebind (lb_changes u (update (fst backup0) (snd backup0))) (fun _ ->
            refresh_line u cfg)
     else eret ()) (fun _ ->
    ebind eget (fun s ->
      ebind (set_changes (cs_truncate s.e_changes mark)) (fun _ -> eret None)))
| CComplete ->
  let i' = Nat.modulo (add i (S O)) (add (length cands) (S O)) in
  ebind (if Nat.eqb i' (length cands) then beep cfg else eret ()) (fun _ ->
    rec0 i')
| CCompleteBackward ->
  ebind (if Nat.eqb i O then beep cfg else eret ()) (fun _ ->
    rec0
      (if Nat.eqb i O
       then length cands
       else Nat.modulo (sub i (S O)) (add (length cands) (S O))))
| _ -> ebind changes_end (fun _ -> eret (Some c))

(** val complete_circular :
    uData -> config -> nat -> nat -> str list -> (str * nat) -> nat -> nat ->
    cmd option e **)

let rec complete_circular u cfg fuel start cands backup0 mark i =
  match fuel with
  | O -> efuel
  | S f ->
    ebind (show_candidate u start cands backup0 i) (fun _ ->
      ebind (refresh_line u cfg) (fun _ ->
        ebind (next_cmd u cfg f true) (fun c ->
          circular_branch u cfg (fun i' ->
            complete_circular u cfg f start cands backup0 mark i') cands
            backup0 mark i c)))

(** val msg_display_all : nat -> str **)

let msg_display_all n0 =
  app ((Npos (XO (XI (XO XH)))) :: ((Npos (XO (XO (XI (XO (XO (XO
    XH))))))) :: ((Npos (XI (XO (XO (XI (XO (XI XH))))))) :: ((Npos (XI (XI
    (XO (XO (XI (XI XH))))))) :: ((Npos (XO (XO (XO (XO (XI (XI
    XH))))))) :: ((Npos (XO (XO (XI (XI (XO (XI XH))))))) :: ((Npos (XI (XO
    (XO (XO (XO (XI XH))))))) :: ((Npos (XI (XO (XO (XI (XI (XI
    XH))))))) :: ((Npos (XO (XO (XO (XO (XO XH)))))) :: ((Npos (XI (XO (XO
    (XO (XO (XI XH))))))) :: ((Npos (XO (XO (XI (XI (XO (XI
    XH))))))) :: ((Npos (XO (XO (XI (XI (XO (XI XH))))))) :: ((Npos (XO (XO
    (XO (XO (XO XH)))))) :: [])))))))))))))
    (app (dec n0) ((Npos (XO (XO (XO (XO (XO XH)))))) :: ((Npos (XO (XO (XO
      (XO (XI (XI XH))))))) :: ((Npos (XI (XI (XI (XI (XO (XI
      XH))))))) :: ((Npos (XI (XI (XO (XO (XI (XI XH))))))) :: ((Npos (XI (XI
      (XO (XO (XI (XI XH))))))) :: ((Npos (XI (XO (XO (XI (XO (XI
      XH))))))) :: ((Npos (XO (XI (XO (XO (XO (XI XH))))))) :: ((Npos (XI (XO
      (XO (XI (XO (XI XH))))))) :: ((Npos (XO (XO (XI (XI (XO (XI
      XH))))))) :: ((Npos (XI (XO (XO (XI (XO (XI XH))))))) :: ((Npos (XO (XO
      (XI (XO (XI (XI XH))))))) :: ((Npos (XI (XO (XO (XI (XO (XI
      XH))))))) :: ((Npos (XI (XO (XI (XO (XO (XI XH))))))) :: ((Npos (XI (XI
      (XO (XO (XI (XI XH))))))) :: ((Npos (XI (XI (XI (XI (XI
      XH)))))) :: ((Npos (XO (XO (XO (XO (XO XH)))))) :: ((Npos (XO (XO (XO
      (XI (XO XH)))))) :: ((Npos (XI (XO (XO (XI (XI (XI XH))))))) :: ((Npos
      (XO (XO (XO (XO (XO XH)))))) :: ((Npos (XI (XI (XI (XI (XO (XI
      XH))))))) :: ((Npos (XO (XI (XO (XO (XI (XI XH))))))) :: ((Npos (XO (XO
      (XO (XO (XO XH)))))) :: ((Npos (XO (XI (XI (XI (XO (XI
      XH))))))) :: ((Npos (XI (XO (XO (XI (XO
      XH)))))) :: [])))))))))))))))))))))))))

(** val page_completions_simple :
    uData -> config -> str list -> cmd option e **)

let page_completions_simple u cfg cands =
  let max_width =
    Nat.min (cols cfg)
      (add (fold_left Nat.max (map (layout_w u) cands) O) (S (S O)))
  in
  if Nat.eqb max_width O
  then epanic
  else let num_cols = Nat.div (cols cfg) max_width in
       if Nat.eqb num_cols O
       then epanic
       else let nbc = length cands in
            let num_rows = Nat.div (sub (add nbc num_cols) (S O)) num_cols in
            let row_text = fun row0 ->
              concat
                (map (fun col ->
                  let i = add (mul col num_rows) row0 in
                  (match nth_error cands i with
                   | Some c ->
                     app c
                       (if Nat.ltb (add (mul (add col (S O)) num_rows) row0)
                             nbc
                        then repeat (Npos (XO (XO (XO (XO (XO XH))))))
                               (sub max_width (layout_w u c))
                        else [])
                   | None -> [])) (seq O num_cols))
            in
            ebind
              (let rec rows k row0 =
                 match k with
                 | O -> eret ()
                 | S k' ->
                   ebind (write ((Npos (XO (XI (XO XH)))) :: [])) (fun _ ->
                     ebind (write (row_text row0)) (fun _ -> rows k' (S row0)))
               in rows num_rows O) (fun _ ->
              ebind (write ((Npos (XO (XI (XO XH)))) :: [])) (fun _ ->
                ebind eget (fun s ->
                  let lay = s.e_layout in
                  ebind
                    (set_layout { l_prompt_size = lay.l_prompt_size;
                      l_default_prompt = lay.l_default_prompt; l_cursor =
                      { p_col = lay.l_cursor.p_col; p_row = O }; l_end =
                      { p_col = lay.l_end.p_col; p_row = O } }) (fun _ ->
                    ebind (refresh_line u cfg) (fun _ -> eret None)))))

(** val wait_yn : uData -> config -> nat -> cmd -> cmd e **)

let rec wait_yn u cfg fuel c =
  match fuel with
  | O -> efuel
  | S f ->
    (match c with
     | CKill m0 ->
       (match m0 with
        | MBackwardChar n0 ->
          (match n0 with
           | O ->
             ebind (next_cmd u cfg f false) (fun c' -> wait_yn u cfg f c')
           | S n1 ->
             (match n1 with
              | O -> eret c
              | S _ ->
                ebind (next_cmd u cfg f false) (fun c' -> wait_yn u cfg f c')))
        | _ -> ebind (next_cmd u cfg f false) (fun c' -> wait_yn u cfg f c'))
     | CSelfInsert (n0, c0) ->
       (match n0 with
        | O -> ebind (next_cmd u cfg f false) (fun c' -> wait_yn u cfg f c')
        | S n1 ->
          (match n1 with
           | O ->
             (match c0 with
              | N0 ->
                ebind (next_cmd u cfg f false) (fun c' -> wait_yn u cfg f c')
              | Npos p ->
                (match p with
                 | XI p1 ->
                   (match p1 with
                    | XO p2 ->
                      (match p2 with
                       | XO p3 ->
                         (match p3 with
                          | XI p4 ->
                            (match p4 with
                             | XI p5 ->
                               (match p5 with
                                | XI p6 ->
                                  (match p6 with
                                   | XH -> eret c
                                   | _ ->
                                     ebind (next_cmd u cfg f false)
                                       (fun c' -> wait_yn u cfg f c'))
                                | XO p6 ->
                                  (match p6 with
                                   | XH -> eret c
                                   | _ ->
                                     ebind (next_cmd u cfg f false)
                                       (fun c' -> wait_yn u cfg f c'))
                                | XH ->
                                  ebind (next_cmd u cfg f false) (fun c' ->
                                    wait_yn u cfg f c'))
                             | _ ->
                               ebind (next_cmd u cfg f false) (fun c' ->
                                 wait_yn u cfg f c'))
                          | _ ->
                            ebind (next_cmd u cfg f false) (fun c' ->
                              wait_yn u cfg f c'))
                       | _ ->
                         ebind (next_cmd u cfg f false) (fun c' ->
                           wait_yn u cfg f c'))
                    | _ ->
                      ebind (next_cmd u cfg f false) (fun c' ->
                        wait_yn u cfg f c'))
                 | XO p1 ->
                   (match p1 with
                    | XI p2 ->
                      (match p2 with
                       | XI p3 ->
                         (match p3 with
                          | XI p4 ->
                            (match p4 with
                             | XO p5 ->
                               (match p5 with
                                | XI p6 ->
                                  (match p6 with
                                   | XH -> eret c
                                   | _ ->
                                     ebind (next_cmd u cfg f false)
                                       (fun c' -> wait_yn u cfg f c'))
                                | XO p6 ->
                                  (match p6 with
                                   | XH -> eret c
                                   | _ ->
                                     ebind (next_cmd u cfg f false)
                                       (fun c' -> wait_yn u cfg f c'))
                                | XH ->
                                  ebind (next_cmd u cfg f false) (fun c' ->
                                    wait_yn u cfg f c'))
                             | _ ->
                               ebind (next_cmd u cfg f false) (fun c' ->
                                 wait_yn u cfg f c'))
                          | _ ->
                            ebind (next_cmd u cfg f false) (fun c' ->
                              wait_yn u cfg f c'))
                       | _ ->
                         ebind (next_cmd u cfg f false) (fun c' ->
                           wait_yn u cfg f c'))
                    | _ ->
                      ebind (next_cmd u cfg f false) (fun c' ->
                        wait_yn u cfg f c'))
                 | XH ->
                   ebind (next_cmd u cfg f false) (fun c' ->
                     wait_yn u cfg f c')))
           | S _ ->
             ebind (next_cmd u cfg f false) (fun c' -> wait_yn u cfg f c')))
     | _ -> ebind (next_cmd u cfg f false) (fun c' -> wait_yn u cfg f c'))

(** val list_span_step : uData -> config -> nat -> str list -> unit e **)

let list_span_step u cfg start cands =
  ebind eget (fun s ->
    match lcp_all cands with
    | Some lcp ->
      if (||) (Nat.ltb (sub s.e_line.pos start) (blen lcp))
           (Nat.eqb (length cands) (S O))
      then ebind (completer_update u start lcp) (fun _ -> refresh_line u cfg)
      else eret ()
    | None -> eret ())

(** val complete_line : uData -> config -> nat -> cmd option e **)

let complete_line u cfg fuel =
  ebind eget (fun s ->
    let (start, cands) = cfg.c_complete s.e_line.buf s.e_line.pos in
    (match cands with
     | [] -> ebind (beep cfg) (fun _ -> eret None)
     | _ :: _ ->
       (match cfg.c_completion with
        | CTCircular ->
          ebind changes_begin (fun mark ->
            complete_circular u cfg fuel start cands (s.e_line.buf,
              s.e_line.pos) mark O)
        | CTList ->
          ebind (list_span_step u cfg start cands) (fun _ ->
            if Nat.ltb (S O) (length cands)
            then ebind (beep cfg) (fun _ ->
                   ebind
                     (if cfg.c_show_all
                      then eret CComplete
                      else next_cmd u cfg fuel true) (fun c ->
                     match c with
                     | CComplete ->
                       ebind eget (fun s1 ->
                         let save_pos = s1.e_line.pos in
                         ebind (moved u cfg move_end) (fun _ ->
                           ebind (lb_quiet (set_pos save_pos)) (fun _ ->
                             if Nat.ltb cfg.c_prompt_limit (length cands)
                             then ebind
                                    (write (msg_display_all (length cands)))
                                    (fun _ ->
                                    ebind eget (fun s2 ->
                                      let lay = s2.e_layout in
                                      ebind
                                        (set_layout { l_prompt_size =
                                          lay.l_prompt_size;
                                          l_default_prompt =
                                          lay.l_default_prompt; l_cursor =
                                          lay.l_cursor; l_end = { p_col =
                                          lay.l_end.p_col; p_row = (S
                                          lay.l_end.p_row) } }) (fun _ ->
                                        ebind (wait_yn u cfg fuel c)
                                          (fun c2 ->
                                          match c2 with
                                          | CSelfInsert (n0, c0) ->
                                            (match n0 with
                                             | O ->
                                               ebind (refresh_line u cfg)
                                                 (fun _ -> eret None)
                                             | S n1 ->
                                               (match n1 with
                                                | O ->
                                                  (match c0 with
                                                   | N0 ->
                                                     ebind
                                                       (refresh_line u cfg)
                                                       (fun _ -> eret None)
                                                   | Npos p ->
                                                     (match p with
                                                      | XI p1 ->
                                                        (match p1 with
                                                         | XO p2 ->
                                                           (match p2 with
                                                            | XO p3 ->
                                                              (match p3 with
                                                               | XI p4 ->
                                                                 (match p4 with
                                                                  | XI p5 ->
                                                                    (match p5 with
                                                                    | XI p6 ->
                                                                    (match p6 with
                                                                    | XH ->
                                                                    page_completions_simple
                                                                    u cfg
                                                                    cands
                                                                    | _ ->
                                                                    ebind
                                                                    (refresh_line
                                                                    u cfg)
                                                                    (fun _ ->
                                                                    eret None))
                                                                    | XO p6 ->
                                                                    (match p6 with
                                                                    | XH ->
                                                                    page_completions_simple
                                                                    u cfg
                                                                    cands
                                                                    | _ ->
                                                                    ebind
                                                                    (refresh_line
                                                                    u cfg)
                                                                    (fun _ ->
                                                                    eret None))
                                                                    | XH ->
                                                                    ebind
                                                                    (refresh_line
                                                                    u cfg)
                                                                    (fun _ ->
                                                                    eret None))
                                                                  | _ ->
                                                                    ebind
                                                                    (refresh_line
                                                                    u cfg)
                                                                    (fun _ ->
                                                                    eret None))
                                                               | _ ->
                                                                 ebind
                                                                   (refresh_line
                                                                    u cfg)
                                                                   (fun _ ->
                                                                   eret None))
                                                            | _ ->
                                                              ebind
                                                                (refresh_line
                                                                  u cfg)
                                                                (fun _ ->
                                                                eret None))
                                                         | _ ->
                                                           ebind
                                                             (refresh_line u
                                                               cfg) (fun _ ->
                                                             eret None))
                                                      | _ ->
                                                        ebind
                                                          (refresh_line u cfg)
                                                          (fun _ -> eret None)))
                                                | S _ ->
                                                  ebind (refresh_line u cfg)
                                                    (fun _ -> eret None)))
                                          | _ ->
                                            ebind (refresh_line u cfg)
                                              (fun _ -> eret None)))))
                             else page_completions_simple u cfg cands)))
                     | _ -> eret (Some c)))
            else eret None))))

(** val search_prompt : bool -> str -> str **)

let search_prompt success term0 =
  app
    (if success
     then (Npos (XO (XO (XO (XI (XO XH)))))) :: []
     else (Npos (XO (XO (XO (XI (XO XH)))))) :: ((Npos (XO (XI (XI (XO (XO
            (XI XH))))))) :: ((Npos (XI (XO (XO (XO (XO (XI
            XH))))))) :: ((Npos (XI (XO (XO (XI (XO (XI XH))))))) :: ((Npos
            (XO (XO (XI (XI (XO (XI XH))))))) :: ((Npos (XI (XO (XI (XO (XO
            (XI XH))))))) :: ((Npos (XO (XO (XI (XO (XO (XI
            XH))))))) :: ((Npos (XO (XO (XO (XO (XO XH)))))) :: []))))))))
    (app ((Npos (XO (XI (XO (XO (XI (XI XH))))))) :: ((Npos (XI (XO (XI (XO
      (XO (XI XH))))))) :: ((Npos (XO (XI (XI (XO (XI (XI XH))))))) :: ((Npos
      (XI (XO (XI (XO (XO (XI XH))))))) :: ((Npos (XO (XI (XO (XO (XI (XI
      XH))))))) :: ((Npos (XI (XI (XO (XO (XI (XI XH))))))) :: ((Npos (XI (XO
      (XI (XO (XO (XI XH))))))) :: ((Npos (XI (XO (XI (XI (XO
      XH)))))) :: ((Npos (XI (XO (XO (XI (XO (XI XH))))))) :: ((Npos (XI (XO
      (XI (XI (XO XH)))))) :: ((Npos (XI (XI (XO (XO (XI (XI
      XH))))))) :: ((Npos (XI (XO (XI (XO (XO (XI XH))))))) :: ((Npos (XI (XO
      (XO (XO (XO (XI XH))))))) :: ((Npos (XO (XI (XO (XO (XI (XI
      XH))))))) :: ((Npos (XI (XI (XO (XO (XO (XI XH))))))) :: ((Npos (XO (XO
      (XO (XI (XO (XI XH))))))) :: ((Npos (XI (XO (XO (XI (XO
      XH)))))) :: ((Npos (XO (XO (XO (XO (XO (XI
      XH))))))) :: []))))))))))))))))))
      (app term0 ((Npos (XI (XI (XI (XO (XO XH)))))) :: ((Npos (XO (XI (XO
        (XI (XI XH)))))) :: ((Npos (XO (XO (XO (XO (XO XH)))))) :: [])))))

(** val isearch_branch :
    uData -> config -> (str -> nat -> sdir -> bool -> cmd option e) ->
    (str * nat) -> nat -> str -> nat -> sdir -> bool -> cmd -> cmd option e **)

let isearch_branch u cfg rec0 backup0 mark term0 idx d success c =
  ebind eget (fun s ->
    let do_search = fun term' idx' d' ->
      match h_search (hist_of s) term' idx' d' with
      | Some p1 ->
        let (p2, entry) = p1 in
        let (i, p) = p2 in
        ebind (lb_changes u (update entry p)) (fun _ -> rec0 term' i d' true)
      | None -> rec0 term' idx' d' false
    in
    (match c with
     | CAbort ->
       ebind (lb_changes u (update (fst backup0) (snd backup0))) (fun _ ->
         ebind (refresh_line u cfg) (fun _ ->
           ebind eget (fun s1 ->
             ebind (set_changes (cs_truncate s1.e_changes mark)) (fun _ ->
               eret None))))
     | CForwardSearchHistory ->
       if Nat.ltb idx (sub (hlen_e s) (S O))
       then do_search term0 (S idx) Forward
       else rec0 term0 idx Forward false
     | CKill m0 ->
       (match m0 with
        | MBackwardChar _ -> rec0 (removelast term0) idx d success
        | _ -> ebind changes_end (fun _ -> eret (Some c)))
     | CMove _ ->
       ebind (refresh_line u cfg) (fun _ ->
         ebind changes_end (fun _ -> eret (Some c)))
     | CReverseSearchHistory ->
       if Nat.ltb O idx
       then do_search term0 (sub idx (S O)) Reverse
       else rec0 term0 idx Reverse false
     | CSelfInsert (_, ch) -> do_search (app term0 (ch :: [])) idx d
     | _ -> ebind changes_end (fun _ -> eret (Some c))))

(** val isearch_loop :
    uData -> config -> nat -> (str * nat) -> nat -> str -> nat -> sdir ->
    bool -> cmd option e **)

let rec isearch_loop u cfg fuel backup0 mark term0 idx d success =
  match fuel with
  | O -> efuel
  | S f ->
    ebind (refresh_prompt_and_line u cfg (search_prompt success term0))
      (fun _ ->
      ebind (next_cmd u cfg f true) (fun c ->
        isearch_branch u cfg (fun t i d' su ->
          isearch_loop u cfg f backup0 mark t i d' su) backup0 mark term0 idx
          d success c))

(** val incremental_search : uData -> config -> nat -> cmd option e **)

let incremental_search u cfg fuel =
  ebind eget (fun s ->
    if Nat.eqb (hlen_e s) O
    then eret None
    else ebind changes_begin (fun mark ->
           isearch_loop u cfg fuel (s.e_line.buf, s.e_line.pos) mark []
             (sub (hlen_e s) (S O)) Reverse true))

(** val ends_with_lf_str : str -> bool **)

let ends_with_lf_str =
  ends_with_lf

(** val external_print : uData -> config -> str -> unit e **)

let external_print u cfg m0 =
  ebind eget (fun s ->
    ebind (write (clear_old_rows s.e_layout)) (fun _ ->
      ebind
        (let lay = s.e_layout in
         set_layout { l_prompt_size = lay.l_prompt_size; l_default_prompt =
           lay.l_default_prompt; l_cursor = { p_col = lay.l_cursor.p_col;
           p_row = O }; l_end = { p_col = lay.l_end.p_col; p_row = O } })
        (fun _ ->
        ebind (write m0) (fun _ ->
          ebind
            (if ends_with_lf_str m0
             then eret ()
             else write ((Npos (XO (XI (XO XH)))) :: [])) (fun _ ->
            refresh_line u cfg)))))

(** val drain_prints : uData -> config -> nat -> unit e **)

let rec drain_prints u cfg = function
| O -> eret ()
| S f ->
  ebind eget (fun s ->
    match peek_print s.e_inp with
    | Some p ->
      let (m0, i) = p in
      ebind (set_inp i) (fun _ ->
        ebind (external_print u cfg m0) (fun _ -> drain_prints u cfg f))
    | None -> eret ())

type outcome =
| OLine of str
| OEof
| OInterrupted
| OInvalidData
| OValidatorError
| OHangup
| OPanic
| OOutOfFuel

(** val main_loop : uData -> config -> nat -> unit e **)

let rec main_loop u cfg = function
| O -> efuel
| S f ->
  ebind eget (fun s00 ->
    ebind (drain_prints u cfg (S (stream_size s00.e_inp))) (fun _ ->
      ebind (next_cmd u cfg f false) (fun c0 ->
        ebind
          (if should_reset_kill_ring c0
           then ebind eget (fun s -> set_kr (kr_reset s.e_kr))
           else eret ()) (fun _ ->
          ebind
            (match c0 with
             | CComplete ->
               if cfg.c_has_helper
               then complete_line u cfg f
               else eret (Some c0)
             | _ -> eret (Some c0)) (fun oc ->
            match oc with
            | Some c1 ->
              ebind
                (match c1 with
                 | CReverseSearchHistory -> incremental_search u cfg f
                 | _ -> eret (Some c1)) (fun oc2 ->
                match oc2 with
                | Some c2 ->
                  (match c2 with
                   | CQuotedInsert ->
                     ebind next_char (fun ch ->
                       ebind (edit_insert u cfg ch (S O)) (fun _ ->
                         main_loop u cfg f))
                   | CSuspend ->
                     ebind (refresh_line u cfg) (fun _ -> main_loop u cfg f)
                   | _ ->
                     ebind (execute u cfg c2) (fun st ->
                       match st with
                       | Proceed -> main_loop u cfg f
                       | Submit -> eret ()))
                | None -> main_loop u cfg f)
            | None -> main_loop u cfg f)))))

(** val initial_state :
    uData -> config -> str -> str list -> killring -> istream -> est **)

let initial_state u cfg prompt history kr inp =
  { e_line = { buf = []; pos = O; cap = (N.to_nat max_line); grow = true };
    e_changes = cs_new; e_kr = kr; e_hist = history; e_hidx =
    (length history); e_saved = ([], O); e_hint = None; e_layout = layout0;
    e_prompt = prompt; e_prompt_size = (calc u cfg prompt p0); i_input_mode =
    IMInsert; i_num_args = Z0; i_last_cmd = CNoop; i_last_cs = None; e_inp =
    inp; e_out = []; e_obs = [] }

(** val read_line :
    uData -> config -> str -> (str * str) option -> str list -> killring ->
    istream -> outcome * est option **)

let read_line u cfg prompt initial history kr inp =
  let s0 = initial_state u cfg prompt history (kr_reset kr) inp in
  let fuel = mul (S (S (stream_size inp))) (S (S (S (S O)))) in
  let prog =
    ebind
      (match initial with
       | Some p -> let (l, r) = p in lb_changes u (update (app l r) (blen l))
       | None -> eret ()) (fun _ ->
      ebind (refresh_line u cfg) (fun _ ->
        ebind (main_loop u cfg fuel) (fun _ -> moved u cfg move_buffer_end)))
  in
  (match prog s0 with
   | EOk (_, s) -> ((OLine s.e_line.buf), (Some s))
   | EErr (e0, s) ->
     (match e0 with
      | EEof -> (OEof, (Some s))
      | EInvalidData -> (OInvalidData, (Some s))
      | EInterrupted -> (OInterrupted, (Some s))
      | EValidator -> (OValidatorError, (Some s))
      | EHangup -> (OHangup, (Some s)))
   | EPanic -> (OPanic, None)
   | EFuel -> (OOutOfFuel, None))

(** val script_complete : str list -> str -> nat -> nat * str list **)

let script_complete cands line p =
  let before =
    match bsplit line p with
    | Some p1 -> let (l, _) = p1 in l
    | None -> line
  in
  let start =
    match rfind_char (Npos (XO (XO (XO (XO (XO XH)))))) before with
    | Some i -> add i (S O)
    | None -> O
  in
  let word =
    match bsplit before start with
    | Some p1 -> let (_, w) = p1 in w
    | None -> []
  in
  (start,
  (match cands with
   | [] -> filter (fun c -> prefix_b word c) cands
   | s :: rest ->
     (match s with
      | [] -> filter (fun c -> prefix_b word c) cands
      | n0 :: l ->
        (match n0 with
         | N0 -> filter (fun c -> prefix_b word c) cands
         | Npos p1 ->
           (match p1 with
            | XO p2 ->
              (match p2 with
               | XI p3 ->
                 (match p3 with
                  | XO p4 ->
                    (match p4 with
                     | XI p5 ->
                       (match p5 with
                        | XO p6 ->
                          (match p6 with
                           | XH ->
                             (match l with
                              | [] -> rest
                              | _ :: _ ->
                                filter (fun c -> prefix_b word c) cands)
                           | _ -> filter (fun c -> prefix_b word c) cands)
                        | _ -> filter (fun c -> prefix_b word c) cands)
                     | _ -> filter (fun c -> prefix_b word c) cands)
                  | _ -> filter (fun c -> prefix_b word c) cands)
               | _ -> filter (fun c -> prefix_b word c) cands)
            | _ -> filter (fun c -> prefix_b word c) cands)))))

(** val script_hint : str list -> str -> nat -> str option **)

let script_hint hints line p =
  match line with
  | [] -> None
  | _ :: _ ->
    if Nat.ltb p (blen line)
    then None
    else (match find (fun h ->
                  (&&) (prefix_b line h) (Nat.ltb (length line) (length h)))
                  hints with
          | Some h -> Some (skipn (length line) h)
          | None -> None)

(** val contains : str -> str -> bool **)

let rec contains t s =
  (||) (prefix_b t s) (match s with
                       | [] -> false
                       | _ :: s' -> contains t s')

(** val script_validate : str -> vresult **)

let script_validate line =
  if (||)
       (contains ((Npos (XI (XI (XO (XO (XO XH)))))) :: ((Npos (XI (XI (XO
         (XO (XO XH)))))) :: [])) line)
       (contains ((Npos (XI (XI (XO (XO (XO XH)))))) :: ((Npos (XO (XO (XO
         (XO (XO (XO XH))))))) :: [])) line)
  then VRError
  else if contains ((Npos (XI (XO (XO (XO (XO XH)))))) :: ((Npos (XI (XO (XO
            (XO (XO XH)))))) :: [])) line
       then VRInvalid (Some ((Npos (XO (XO (XO (XO (XO XH)))))) :: ((Npos (XO
              (XO (XI (XI (XI XH)))))) :: ((Npos (XI (XO (XI (XI (XO
              XH)))))) :: ((Npos (XI (XO (XI (XI (XO XH)))))) :: ((Npos (XO
              (XO (XO (XO (XO XH)))))) :: ((Npos (XO (XI (XO (XO (XO (XI
              XH))))))) :: ((Npos (XI (XO (XO (XO (XO (XI XH))))))) :: ((Npos
              (XO (XO (XI (XO (XO (XI XH))))))) :: [])))))))))
       else if contains ((Npos (XO (XI (XI (XI (XI (XI XH))))))) :: ((Npos
                 (XO (XI (XI (XI (XI (XI XH))))))) :: [])) line
            then VRInvalid (Some [])
            else if contains ((Npos (XI (XI (XI (XI (XI XH)))))) :: ((Npos
                      (XI (XI (XI (XI (XI XH)))))) :: [])) line
                 then VRInvalid None
                 else if ends_with line (Npos (XO (XO (XI (XI (XI (XO
                           XH)))))))
                      then VRIncomplete
                      else if contains ((Npos (XI (XI (XI (XI (XO (XI
                                XH))))))) :: ((Npos (XI (XI (XO (XI (XO (XI
                                XH))))))) :: [])) line
                           then VRValid (Some ((Npos (XO (XO (XO (XO (XO
                                  XH)))))) :: ((Npos (XO (XI (XI (XO (XO (XI
                                  XH))))))) :: ((Npos (XI (XO (XO (XI (XO (XI
                                  XH))))))) :: ((Npos (XO (XI (XI (XI (XO (XI
                                  XH))))))) :: ((Npos (XI (XO (XI (XO (XO (XI
                                  XH))))))) :: []))))))
                           else VRValid None

(** val msg_unclosed : n -> str **)

let msg_unclosed c =
  app ((Npos (XI (XO (XI (XI (XO (XO XH))))))) :: ((Npos (XI (XO (XO (XI (XO
    (XI XH))))))) :: ((Npos (XI (XI (XO (XO (XI (XI XH))))))) :: ((Npos (XI
    (XO (XI (XI (XO (XI XH))))))) :: ((Npos (XI (XO (XO (XO (XO (XI
    XH))))))) :: ((Npos (XO (XO (XI (XO (XI (XI XH))))))) :: ((Npos (XI (XI
    (XO (XO (XO (XI XH))))))) :: ((Npos (XO (XO (XO (XI (XO (XI
    XH))))))) :: ((Npos (XI (XO (XI (XO (XO (XI XH))))))) :: ((Npos (XO (XO
    (XI (XO (XO (XI XH))))))) :: ((Npos (XO (XO (XO (XO (XO
    XH)))))) :: ((Npos (XO (XI (XO (XO (XO (XI XH))))))) :: ((Npos (XO (XI
    (XO (XO (XI (XI XH))))))) :: ((Npos (XI (XO (XO (XO (XO (XI
    XH))))))) :: ((Npos (XI (XI (XO (XO (XO (XI XH))))))) :: ((Npos (XI (XI
    (XO (XI (XO (XI XH))))))) :: ((Npos (XI (XO (XI (XO (XO (XI
    XH))))))) :: ((Npos (XO (XO (XI (XO (XI (XI XH))))))) :: ((Npos (XI (XI
    (XO (XO (XI (XI XH))))))) :: ((Npos (XO (XI (XO (XI (XI
    XH)))))) :: ((Npos (XO (XO (XO (XO (XO XH)))))) :: ((Npos (XI (XI (XI (XO
    (XO XH)))))) :: []))))))))))))))))))))))
    (app (c :: []) ((Npos (XI (XI (XI (XO (XO XH)))))) :: ((Npos (XO (XO (XO
      (XO (XO XH)))))) :: ((Npos (XI (XO (XO (XI (XO (XI XH))))))) :: ((Npos
      (XI (XI (XO (XO (XI (XI XH))))))) :: ((Npos (XO (XO (XO (XO (XO
      XH)))))) :: ((Npos (XO (XI (XI (XI (XO (XI XH))))))) :: ((Npos (XI (XI
      (XI (XI (XO (XI XH))))))) :: ((Npos (XO (XO (XI (XO (XI (XI
      XH))))))) :: ((Npos (XO (XO (XO (XO (XO XH)))))) :: ((Npos (XO (XO (XO
      (XO (XI (XI XH))))))) :: ((Npos (XO (XI (XO (XO (XI (XI
      XH))))))) :: ((Npos (XI (XI (XI (XI (XO (XI XH))))))) :: ((Npos (XO (XO
      (XO (XO (XI (XI XH))))))) :: ((Npos (XI (XO (XI (XO (XO (XI
      XH))))))) :: ((Npos (XO (XI (XO (XO (XI (XI XH))))))) :: ((Npos (XO (XO
      (XI (XI (XO (XI XH))))))) :: ((Npos (XI (XO (XO (XI (XI (XI
      XH))))))) :: ((Npos (XO (XO (XO (XO (XO XH)))))) :: ((Npos (XI (XI (XO
      (XO (XO (XI XH))))))) :: ((Npos (XO (XO (XI (XI (XO (XI
      XH))))))) :: ((Npos (XI (XI (XI (XI (XO (XI XH))))))) :: ((Npos (XI (XI
      (XO (XO (XI (XI XH))))))) :: ((Npos (XI (XO (XI (XO (XO (XI
      XH))))))) :: ((Npos (XO (XO (XI (XO (XO (XI
      XH))))))) :: [])))))))))))))))))))))))))

(** val msg_unpaired : n -> str **)

let msg_unpaired c =
  app ((Npos (XI (XO (XI (XI (XO (XO XH))))))) :: ((Npos (XI (XO (XO (XI (XO
    (XI XH))))))) :: ((Npos (XI (XI (XO (XO (XI (XI XH))))))) :: ((Npos (XI
    (XO (XI (XI (XO (XI XH))))))) :: ((Npos (XI (XO (XO (XO (XO (XI
    XH))))))) :: ((Npos (XO (XO (XI (XO (XI (XI XH))))))) :: ((Npos (XI (XI
    (XO (XO (XO (XI XH))))))) :: ((Npos (XO (XO (XO (XI (XO (XI
    XH))))))) :: ((Npos (XI (XO (XI (XO (XO (XI XH))))))) :: ((Npos (XO (XO
    (XI (XO (XO (XI XH))))))) :: ((Npos (XO (XO (XO (XO (XO
    XH)))))) :: ((Npos (XO (XI (XO (XO (XO (XI XH))))))) :: ((Npos (XO (XI
    (XO (XO (XI (XI XH))))))) :: ((Npos (XI (XO (XO (XO (XO (XI
    XH))))))) :: ((Npos (XI (XI (XO (XO (XO (XI XH))))))) :: ((Npos (XI (XI
    (XO (XI (XO (XI XH))))))) :: ((Npos (XI (XO (XI (XO (XO (XI
    XH))))))) :: ((Npos (XO (XO (XI (XO (XI (XI XH))))))) :: ((Npos (XI (XI
    (XO (XO (XI (XI XH))))))) :: ((Npos (XO (XI (XO (XI (XI
    XH)))))) :: ((Npos (XO (XO (XO (XO (XO XH)))))) :: ((Npos (XI (XI (XI (XO
    (XO XH)))))) :: []))))))))))))))))))))))
    (app (c :: []) ((Npos (XI (XI (XI (XO (XO XH)))))) :: ((Npos (XO (XO (XO
      (XO (XO XH)))))) :: ((Npos (XI (XO (XO (XI (XO (XI XH))))))) :: ((Npos
      (XI (XI (XO (XO (XI (XI XH))))))) :: ((Npos (XO (XO (XO (XO (XO
      XH)))))) :: ((Npos (XI (XO (XI (XO (XI (XI XH))))))) :: ((Npos (XO (XI
      (XI (XI (XO (XI XH))))))) :: ((Npos (XO (XO (XO (XO (XI (XI
      XH))))))) :: ((Npos (XI (XO (XO (XO (XO (XI XH))))))) :: ((Npos (XI (XO
      (XO (XI (XO (XI XH))))))) :: ((Npos (XO (XI (XO (XO (XI (XI
      XH))))))) :: ((Npos (XI (XO (XI (XO (XO (XI XH))))))) :: ((Npos (XO (XO
      (XI (XO (XO (XI XH))))))) :: []))))))))))))))

(** val brackets_v : str -> n list -> vresult **)

let rec brackets_v s stack =
  match s with
  | [] -> (match stack with
           | [] -> VRValid None
           | _ :: _ -> VRIncomplete)
  | c :: t ->
    if (||)
         ((||) (N.eqb c (Npos (XO (XO (XO (XI (XO XH)))))))
           (N.eqb c (Npos (XI (XI (XO (XI (XI (XO XH)))))))))
         (N.eqb c (Npos (XI (XI (XO (XI (XI (XI XH))))))))
    then brackets_v t (c :: stack)
    else if (||)
              ((||) (N.eqb c (Npos (XI (XO (XO (XI (XO XH)))))))
                (N.eqb c (Npos (XI (XO (XI (XI (XI (XO XH)))))))))
              (N.eqb c (Npos (XI (XO (XI (XI (XI (XI XH))))))))
         then (match stack with
               | [] -> VRInvalid (Some (msg_unpaired c))
               | o :: st ->
                 if (||)
                      ((||)
                        ((&&) (N.eqb o (Npos (XO (XO (XO (XI (XO XH)))))))
                          (N.eqb c (Npos (XI (XO (XO (XI (XO XH))))))))
                        ((&&)
                          (N.eqb o (Npos (XI (XI (XO (XI (XI (XO XH))))))))
                          (N.eqb c (Npos (XI (XO (XI (XI (XI (XO XH))))))))))
                      ((&&) (N.eqb o (Npos (XI (XI (XO (XI (XI (XI XH))))))))
                        (N.eqb c (Npos (XI (XO (XI (XI (XI (XI XH)))))))))
                 then brackets_v t st
                 else VRInvalid (Some (msg_unclosed o)))
         else brackets_v t stack

(** val script_validate_req : str -> vresult **)

let script_validate_req line = match line with
| [] ->
  VRInvalid (Some ((Npos (XO (XO (XO (XO (XO XH)))))) :: ((Npos (XO (XO (XI
    (XI (XI XH)))))) :: ((Npos (XI (XO (XI (XI (XO XH)))))) :: ((Npos (XI (XO
    (XI (XI (XO XH)))))) :: ((Npos (XO (XO (XO (XO (XO XH)))))) :: ((Npos (XO
    (XI (XO (XO (XI (XI XH))))))) :: ((Npos (XI (XO (XI (XO (XO (XI
    XH))))))) :: ((Npos (XI (XO (XO (XO (XI (XI XH))))))) :: ((Npos (XI (XO
    (XI (XO (XI (XI XH))))))) :: ((Npos (XI (XO (XO (XI (XO (XI
    XH))))))) :: ((Npos (XO (XI (XO (XO (XI (XI XH))))))) :: ((Npos (XI (XO
    (XI (XO (XO (XI XH))))))) :: ((Npos (XO (XO (XI (XO (XO (XI
    XH))))))) :: []))))))))))))))
| _ :: _ -> script_validate line

(** val script_validate_inc : str -> vresult **)

let script_validate_inc line = match line with
| [] -> VRIncomplete
| _ :: _ -> script_validate line

type vkind =
| VKNone
| VKBrackets
| VKScript
| VKScriptReq
| VKScriptInc

(** val mk_config :
    edit_mode -> completion_type -> bool -> nat -> bool -> str list -> str
    list -> vkind -> (key list * cmd) list -> config **)

let mk_config mode ct timeout_none cols0 has_helper cands hints vk bindings =
  { c_mode = mode; c_completion = ct; c_timeout_none = timeout_none; c_cols =
    cols0; c_tab_stop = default_tab_stop; c_indent_size =
    default_indent_size; c_prompt_limit = default_completion_prompt_limit;
    c_show_all = false; c_bell = true; c_has_helper = has_helper;
    c_complete = (script_complete cands); c_hint = (script_hint hints);
    c_validate =
    (match vk with
     | VKNone -> (fun _ -> VRValid None)
     | VKBrackets -> (fun l -> brackets_v l [])
     | VKScript -> script_validate
     | VKScriptReq -> script_validate_req
     | VKScriptInc -> script_validate_inc); c_bindings = bindings; c_veof =
    ((KChar (Npos (XO (XO (XI (XO (XO (XO XH)))))))), m_CTRL); c_vintr =
    ((KChar (Npos (XI (XI (XO (XO (XO (XO XH)))))))), m_CTRL); c_vquit =
    ((KChar (Npos (XO (XO (XI (XI (XI (XO XH)))))))), m_CTRL); c_vsusp =
    ((KChar (Npos (XO (XI (XO (XI (XI (XO XH)))))))), m_CTRL) }

type read_result = { rr_outcome : outcome; rr_obs : observation list;
                     rr_out : n list list }

(** val run_reads :
    uData -> config -> str -> (str * str) option -> str list -> killring ->
    istream -> nat -> read_result list **)

let rec run_reads u cfg prompt initial history kr inp = function
| O -> []
| S k ->
  let (o, o0) = read_line u cfg prompt initial history kr inp in
  (match o0 with
   | Some s ->
     { rr_outcome = o; rr_obs = (rev s.e_obs); rr_out =
       (rev s.e_out) } :: (run_reads u cfg prompt None history s.e_kr
                            { in_cur = []; in_rest = s.e_inp.in_rest } k)
   | None -> { rr_outcome = o; rr_obs = []; rr_out = [] } :: [])

type row = { r_id : nat; r_sess : nat; r_entry : str }

type sqlh = { q_rows : row list; q_nsess : nat; q_cache : nat; q_sess : 
              nat; q_max : nat; q_igs : bool; q_igd : bool; q_cfg_max : 
              nat }

(** val sql_new : nat -> bool -> bool -> sqlh **)

let sql_new max0 igs igd =
  { q_rows = []; q_nsess = O; q_cache = O; q_sess = O; q_max = max0; q_igs =
    igs; q_igd = igd; q_cfg_max = max0 }

(** val max_id : row list -> nat **)

let max_id rows =
  fold_left (fun a r -> Nat.max a r.r_id) rows O

(** val sql_ignore : uData -> sqlh -> str -> bool **)

let sql_ignore u h line =
  (||) (Nat.eqb h.q_max O)
    (match line with
     | [] -> true
     | c :: _ -> (&&) h.q_igs (u.u_is_whitespace c))

(** val same_key : nat -> str -> row -> bool **)

let same_key sess line r =
  (&&) (Nat.eqb r.r_sess sess) (str_eqb r.r_entry line)

(** val sql_add : uData -> sqlh -> str -> sqlh * bool **)

let sql_add u h line =
  if sql_ignore u h line
  then (h, false)
  else if Nat.eqb h.q_sess O
       then let sess = S h.q_nsess in
            let nsess = S h.q_nsess in
            let kept =
              if h.q_igd
              then filter (fun r -> negb (same_key sess line r)) h.q_rows
              else h.q_rows
            in
            let id = S (max_id h.q_rows) in
            ({ q_rows =
            (app kept ({ r_id = id; r_sess = sess; r_entry = line } :: []));
            q_nsess = nsess; q_cache = id; q_sess = sess; q_max = h.q_max;
            q_igs = h.q_igs; q_igd = h.q_igd; q_cfg_max = h.q_cfg_max }, true)
       else let sess = h.q_sess in
            let nsess = h.q_nsess in
            let kept =
              if h.q_igd
              then filter (fun r -> negb (same_key sess line r)) h.q_rows
              else h.q_rows
            in
            let id = S (max_id h.q_rows) in
            ({ q_rows =
            (app kept ({ r_id = id; r_sess = sess; r_entry = line } :: []));
            q_nsess = nsess; q_cache = id; q_sess = sess; q_max = h.q_max;
            q_igs = h.q_igs; q_igd = h.q_igd; q_cfg_max = h.q_cfg_max }, true)

(** val find_ge : row list -> nat -> row option **)

let rec find_ge rows rid =
  match rows with
  | [] -> None
  | r :: rest -> if Nat.leb rid r.r_id then Some r else find_ge rest rid

(** val find_le : row list -> nat -> row option **)

let rec find_le rows rid =
  match rows with
  | [] -> None
  | r :: rest ->
    if Nat.leb r.r_id rid
    then (match find_le rest rid with
          | Some r' -> Some r'
          | None -> Some r)
    else None

(** val sql_get : sqlh -> nat -> sdir -> sqlh * (nat * str) option **)

let sql_get h index d =
  if Nat.eqb h.q_cache O
  then (h, None)
  else (match match d with
              | Forward -> find_ge h.q_rows (S index)
              | Reverse -> find_le h.q_rows (S index) with
        | Some r ->
          ({ q_rows = h.q_rows; q_nsess = h.q_nsess; q_cache =
            (Nat.max h.q_cache r.r_id); q_sess = h.q_sess; q_max = h.q_max;
            q_igs = h.q_igs; q_igd = h.q_igd; q_cfg_max = h.q_cfg_max },
            (Some ((sub r.r_id (S O)), r.r_entry)))
        | None -> (h, None))

(** val sql_set_max : sqlh -> nat -> sqlh **)

let sql_set_max h n0 =
  let count = length h.q_rows in
  { q_rows = (skipn (sub count n0) h.q_rows); q_nsess = h.q_nsess; q_cache =
  h.q_cache; q_sess = h.q_sess; q_max = n0; q_igs = h.q_igs; q_igd = h.q_igd;
  q_cfg_max = h.q_cfg_max }

(** val sql_reopen : sqlh -> sqlh **)

let sql_reopen h =
  { q_rows = h.q_rows; q_nsess = h.q_nsess; q_cache = (max_id h.q_rows);
    q_sess = O; q_max = h.q_cfg_max; q_igs = h.q_igs; q_igd = h.q_igd;
    q_cfg_max = h.q_cfg_max }

(** val sql_reopen_cfg : sqlh -> bool -> bool -> sqlh **)

let sql_reopen_cfg h igs igd =
  { q_rows = h.q_rows; q_nsess = h.q_nsess; q_cache = (max_id h.q_rows);
    q_sess = O; q_max = h.q_cfg_max; q_igs = igs; q_igd = igd; q_cfg_max =
    h.q_cfg_max }

(** val has_dup_rows : row list -> bool **)

let rec has_dup_rows = function
| [] -> false
| r :: rest ->
  (||) (existsb (same_key r.r_sess r.r_entry) rest) (has_dup_rows rest)

(** val sql_set_dups : sqlh -> bool -> sqlh * bool **)

let sql_set_dups h yes =
  if eqb h.q_igd yes
  then (h, true)
  else if (&&) yes (has_dup_rows h.q_rows)
       then (h, false)
       else ({ q_rows = h.q_rows; q_nsess = h.q_nsess; q_cache = h.q_cache;
              q_sess = h.q_sess; q_max = h.q_max; q_igs = h.q_igs; q_igd =
              yes; q_cfg_max = h.q_cfg_max }, true)

(** val sql_set_space : sqlh -> bool -> sqlh **)

let sql_set_space h yes =
  { q_rows = h.q_rows; q_nsess = h.q_nsess; q_cache = h.q_cache; q_sess =
    h.q_sess; q_max = h.q_max; q_igs = yes; q_igd = h.q_igd; q_cfg_max =
    h.q_cfg_max }

type sop =
| SAdd of str
| SGet of nat * sdir
| SLen
| SSetMax of nat
| SReopen
| SReopenCfg of bool * bool
| SSetDups of bool
| SSetSpace of bool

type sout =
| SoBool of bool
| SoGet of (nat * str) option
| SoNat of nat
| SoUnit
| SoRefused

(** val sql_step : uData -> sqlh -> sop -> sqlh * sout **)

let sql_step u h = function
| SAdd l -> let (h', b) = sql_add u h l in (h', (SoBool b))
| SGet (i, d) -> let (h', r) = sql_get h i d in (h', (SoGet r))
| SLen -> (h, (SoNat h.q_cache))
| SSetMax n0 -> ((sql_set_max h n0), SoUnit)
| SReopen -> ((sql_reopen h), SoUnit)
| SReopenCfg (igs, igd) -> ((sql_reopen_cfg h igs igd), SoUnit)
| SSetDups yes ->
  let (h', ok) = sql_set_dups h yes in
  (h', (if ok then SoUnit else SoRefused))
| SSetSpace yes -> ((sql_set_space h yes), SoUnit)

(** val sql_run : uData -> sqlh -> sop list -> sqlh * sout list **)

let rec sql_run u h = function
| [] -> (h, [])
| o :: rest ->
  let (h1, x) = sql_step u h o in
  let (h2, xs) = sql_run u h1 rest in (h2, (x :: xs))

type wr =
| PasteOn
| PasteOff
| Other

type 'settings term = { t_tio : 'settings; t_out : wr list }

type exit =
| XLine
| XEof
| XInterrupted
| XInvalidData
| XHelperError
| XHelperPanic

(** val write0 : 'a1 term -> wr list -> 'a1 term **)

let write0 t ws =
  { t_tio = t.t_tio; t_out = (app t.t_out ws) }

(** val try_write :
    'a1 term -> wr -> bool list -> ('a1 term * bool) * bool list **)

let try_write t w = function
| [] -> (((write0 t (w :: [])), true), [])
| b :: rest ->
  if b then (((write0 t (w :: [])), true), rest) else ((t, false), rest)

(** val enable_raw :
    ('a1 -> 'a1) -> bool -> 'a1 term -> bool list -> (('a1
    term * 'a1) * bool) * bool list **)

let enable_raw raw_of paste t oracle =
  let orig = t.t_tio in
  let t1 = { t_tio = (raw_of orig); t_out = t.t_out } in
  if paste
  then let (p, o2) = try_write t1 PasteOn oracle in
       let (t2, ok) = p in (((t2, orig), ok), o2)
  else (((t1, orig), false), oracle)

(** val disable_raw :
    'a1 -> bool -> 'a1 term -> bool list -> ('a1 term * bool) * bool list **)

let disable_raw orig paste_out t oracle =
  let t1 = { t_tio = orig; t_out = t.t_out } in
  if paste_out then try_write t1 PasteOff oracle else ((t1, true), oracle)

type 'settings action =
| AWrite
| ASuspend of ('settings -> 'settings)

type outcome0 =
| OExit of exit
| OIoError

(** val run_actions :
    ('a1 -> 'a1) -> bool -> 'a1 -> bool -> 'a1 action list -> exit -> 'a1
    term -> bool list -> ('a1 term * outcome0) * bool list **)

let rec run_actions raw_of paste orig paste_out acts x t oracle =
  match acts with
  | [] -> ((t, (OExit x)), oracle)
  | a :: rest ->
    (match a with
     | AWrite ->
       let (p, o1) = try_write t Other oracle in
       let (t1, ok) = p in
       if ok
       then run_actions raw_of paste orig paste_out rest x t1 o1
       else ((t1, OIoError), o1)
     | ASuspend f ->
       let (p, o1) = disable_raw orig paste_out t oracle in
       let (t1, ok) = p in
       if negb ok
       then ((t1, OIoError), o1)
       else let t2 = { t_tio = (f t1.t_tio); t_out = t1.t_out } in
            let (p1, o3) = enable_raw raw_of paste t2 o1 in
            let (p2, _) = p1 in
            let (t3, _) = p2 in
            let (p3, o4) = try_write t3 Other o3 in
            let (t4, ok4) = p3 in
            if ok4
            then run_actions raw_of paste orig paste_out rest x t4 o4
            else ((t4, OIoError), o4))

(** val read_steps :
    ('a1 -> 'a1) -> bool -> 'a1 action list -> exit -> 'a1 term -> bool list
    -> ('a1 term * outcome0) * bool list **)

let read_steps raw_of paste acts x t oracle =
  let (p, o1) = enable_raw raw_of paste t oracle in
  let (p1, paste_out) = p in
  let (t1, orig) = p1 in
  let (p2, o2) = run_actions raw_of paste orig paste_out acts x t1 o1 in
  let (t2, res0) = p2 in
  let (p3, o3) = disable_raw orig paste_out t2 o2 in
  let (t3, _) = p3 in ((t3, res0), o3)

(** val switches : wr list -> bool list **)

let rec switches = function
| [] -> []
| w :: r ->
  (match w with
   | PasteOn -> true :: (switches r)
   | PasteOff -> false :: (switches r)
   | Other -> switches r)
