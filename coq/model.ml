
(** val negb : bool -> bool **)

let negb = function
| true -> false
| false -> true

type nat =
| O
| S of nat

(** val fst : ('a1 * 'a2) -> 'a1 **)

let fst = function
| (x, _) -> x

(** val snd : ('a1 * 'a2) -> 'a2 **)

let snd = function
| (_, y) -> y

(** val length : 'a1 list -> nat **)

let rec length = function
| [] -> O
| _ :: l' -> S (length l')

(** val app : 'a1 list -> 'a1 list -> 'a1 list **)

let rec app l m =
  match l with
  | [] -> m
  | a :: l1 -> a :: (app l1 m)

type comparison =
| Eq
| Lt
| Gt

(** val add : nat -> nat -> nat **)

let rec add n0 m =
  match n0 with
  | O -> m
  | S p -> S (add p m)

(** val sub : nat -> nat -> nat **)

let rec sub n0 m =
  match n0 with
  | O -> n0
  | S k -> (match m with
            | O -> n0
            | S l -> sub k l)

module Nat =
 struct
  (** val eqb : nat -> nat -> bool **)

  let rec eqb n0 m =
    match n0 with
    | O -> (match m with
            | O -> true
            | S _ -> false)
    | S n' -> (match m with
               | O -> false
               | S m' -> eqb n' m')

  (** val leb : nat -> nat -> bool **)

  let rec leb n0 m =
    match n0 with
    | O -> true
    | S n' -> (match m with
               | O -> false
               | S m' -> leb n' m')

  (** val ltb : nat -> nat -> bool **)

  let ltb n0 m =
    leb (S n0) m

  (** val min : nat -> nat -> nat **)

  let rec min n0 m =
    match n0 with
    | O -> O
    | S n' -> (match m with
               | O -> O
               | S m' -> S (min n' m'))

  (** val even : nat -> bool **)

  let rec even = function
  | O -> true
  | S n1 -> (match n1 with
             | O -> false
             | S n' -> even n')
 end

(** val tl : 'a1 list -> 'a1 list **)

let tl = function
| [] -> []
| _ :: m -> m

(** val nth_error : 'a1 list -> nat -> 'a1 option **)

let rec nth_error l = function
| O -> (match l with
        | [] -> None
        | x :: _ -> Some x)
| S n1 -> (match l with
           | [] -> None
           | _ :: l0 -> nth_error l0 n1)

(** val removelast : 'a1 list -> 'a1 list **)

let rec removelast = function
| [] -> []
| a :: l0 -> (match l0 with
              | [] -> []
              | _ :: _ -> a :: (removelast l0))

(** val rev : 'a1 list -> 'a1 list **)

let rec rev = function
| [] -> []
| x :: l' -> app (rev l') (x :: [])

(** val concat : 'a1 list list -> 'a1 list **)

let rec concat = function
| [] -> []
| x :: l0 -> app x (concat l0)

(** val map : ('a1 -> 'a2) -> 'a1 list -> 'a2 list **)

let rec map f = function
| [] -> []
| a :: t -> (f a) :: (map f t)

(** val flat_map : ('a1 -> 'a2 list) -> 'a1 list -> 'a2 list **)

let rec flat_map f = function
| [] -> []
| x :: t -> app (f x) (flat_map f t)

(** val fold_left : ('a1 -> 'a2 -> 'a1) -> 'a2 list -> 'a1 -> 'a1 **)

let rec fold_left f l a0 =
  match l with
  | [] -> a0
  | b :: t -> fold_left f t (f a0 b)

(** val find : ('a1 -> bool) -> 'a1 list -> 'a1 option **)

let rec find f = function
| [] -> None
| x :: tl0 -> if f x then Some x else find f tl0

(** val skipn : nat -> 'a1 list -> 'a1 list **)

let rec skipn n0 l =
  match n0 with
  | O -> l
  | S n1 -> (match l with
             | [] -> []
             | _ :: l0 -> skipn n1 l0)

type positive =
| XI of positive
| XO of positive
| XH

type n =
| N0
| Npos of positive

module Pos =
 struct
  type mask =
  | IsNul
  | IsPos of positive
  | IsNeg
 end

module Coq_Pos =
 struct
  (** val succ : positive -> positive **)

  let rec succ = function
  | XI p -> XO (succ p)
  | XO p -> XI p
  | XH -> XO XH

  (** val add : positive -> positive -> positive **)

  let rec add x y =
    match x with
    | XI p ->
      (match y with
       | XI q -> XO (add_carry p q)
       | XO q -> XI (add p q)
       | XH -> XO (succ p))
    | XO p ->
      (match y with
       | XI q -> XI (add p q)
       | XO q -> XO (add p q)
       | XH -> XI p)
    | XH -> (match y with
             | XI q -> XO (succ q)
             | XO q -> XI q
             | XH -> XO XH)

  (** val add_carry : positive -> positive -> positive **)

  and add_carry x y =
    match x with
    | XI p ->
      (match y with
       | XI q -> XI (add_carry p q)
       | XO q -> XO (add_carry p q)
       | XH -> XI (succ p))
    | XO p ->
      (match y with
       | XI q -> XO (add_carry p q)
       | XO q -> XI (add p q)
       | XH -> XO (succ p))
    | XH ->
      (match y with
       | XI q -> XI (succ q)
       | XO q -> XO (succ q)
       | XH -> XI XH)

  (** val pred_double : positive -> positive **)

  let rec pred_double = function
  | XI p -> XI (XO p)
  | XO p -> XI (pred_double p)
  | XH -> XH

  type mask = Pos.mask =
  | IsNul
  | IsPos of positive
  | IsNeg

  (** val succ_double_mask : mask -> mask **)

  let succ_double_mask = function
  | IsNul -> IsPos XH
  | IsPos p -> IsPos (XI p)
  | IsNeg -> IsNeg

  (** val double_mask : mask -> mask **)

  let double_mask = function
  | IsPos p -> IsPos (XO p)
  | x0 -> x0

  (** val double_pred_mask : positive -> mask **)

  let double_pred_mask = function
  | XI p -> IsPos (XO (XO p))
  | XO p -> IsPos (XO (pred_double p))
  | XH -> IsNul

  (** val sub_mask : positive -> positive -> mask **)

  let rec sub_mask x y =
    match x with
    | XI p ->
      (match y with
       | XI q -> double_mask (sub_mask p q)
       | XO q -> succ_double_mask (sub_mask p q)
       | XH -> IsPos (XO p))
    | XO p ->
      (match y with
       | XI q -> succ_double_mask (sub_mask_carry p q)
       | XO q -> double_mask (sub_mask p q)
       | XH -> IsPos (pred_double p))
    | XH -> (match y with
             | XH -> IsNul
             | _ -> IsNeg)

  (** val sub_mask_carry : positive -> positive -> mask **)

  and sub_mask_carry x y =
    match x with
    | XI p ->
      (match y with
       | XI q -> succ_double_mask (sub_mask_carry p q)
       | XO q -> double_mask (sub_mask p q)
       | XH -> IsPos (pred_double p))
    | XO p ->
      (match y with
       | XI q -> double_mask (sub_mask_carry p q)
       | XO q -> succ_double_mask (sub_mask_carry p q)
       | XH -> double_pred_mask p)
    | XH -> IsNeg

  (** val mul : positive -> positive -> positive **)

  let rec mul x y =
    match x with
    | XI p -> add y (XO (mul p y))
    | XO p -> XO (mul p y)
    | XH -> y

  (** val compare_cont : comparison -> positive -> positive -> comparison **)

  let rec compare_cont r x y =
    match x with
    | XI p ->
      (match y with
       | XI q -> compare_cont r p q
       | XO q -> compare_cont Gt p q
       | XH -> Gt)
    | XO p ->
      (match y with
       | XI q -> compare_cont Lt p q
       | XO q -> compare_cont r p q
       | XH -> Gt)
    | XH -> (match y with
             | XH -> r
             | _ -> Lt)

  (** val compare : positive -> positive -> comparison **)

  let compare =
    compare_cont Eq

  (** val eqb : positive -> positive -> bool **)

  let rec eqb p q =
    match p with
    | XI p0 -> (match q with
                | XI q0 -> eqb p0 q0
                | _ -> false)
    | XO p0 -> (match q with
                | XO q0 -> eqb p0 q0
                | _ -> false)
    | XH -> (match q with
             | XH -> true
             | _ -> false)
 end

module N =
 struct
  (** val succ_double : n -> n **)

  let succ_double = function
  | N0 -> Npos XH
  | Npos p -> Npos (XI p)

  (** val double : n -> n **)

  let double = function
  | N0 -> N0
  | Npos p -> Npos (XO p)

  (** val add : n -> n -> n **)

  let add n0 m =
    match n0 with
    | N0 -> m
    | Npos p -> (match m with
                 | N0 -> n0
                 | Npos q -> Npos (Coq_Pos.add p q))

  (** val sub : n -> n -> n **)

  let sub n0 m =
    match n0 with
    | N0 -> N0
    | Npos n' ->
      (match m with
       | N0 -> n0
       | Npos m' ->
         (match Coq_Pos.sub_mask n' m' with
          | Coq_Pos.IsPos p -> Npos p
          | _ -> N0))

  (** val mul : n -> n -> n **)

  let mul n0 m =
    match n0 with
    | N0 -> N0
    | Npos p -> (match m with
                 | N0 -> N0
                 | Npos q -> Npos (Coq_Pos.mul p q))

  (** val compare : n -> n -> comparison **)

  let compare n0 m =
    match n0 with
    | N0 -> (match m with
             | N0 -> Eq
             | Npos _ -> Lt)
    | Npos n' -> (match m with
                  | N0 -> Gt
                  | Npos m' -> Coq_Pos.compare n' m')

  (** val eqb : n -> n -> bool **)

  let eqb n0 m =
    match n0 with
    | N0 -> (match m with
             | N0 -> true
             | Npos _ -> false)
    | Npos p -> (match m with
                 | N0 -> false
                 | Npos q -> Coq_Pos.eqb p q)

  (** val leb : n -> n -> bool **)

  let leb x y =
    match compare x y with
    | Gt -> false
    | _ -> true

  (** val ltb : n -> n -> bool **)

  let ltb x y =
    match compare x y with
    | Lt -> true
    | _ -> false

  (** val pos_div_eucl : positive -> n -> n * n **)

  let rec pos_div_eucl a b =
    match a with
    | XI a' ->
      let (q, r) = pos_div_eucl a' b in
      let r' = succ_double r in
      if leb b r' then ((succ_double q), (sub r' b)) else ((double q), r')
    | XO a' ->
      let (q, r) = pos_div_eucl a' b in
      let r' = double r in
      if leb b r' then ((succ_double q), (sub r' b)) else ((double q), r')
    | XH ->
      (match b with
       | N0 -> (N0, (Npos XH))
       | Npos p -> (match p with
                    | XH -> ((Npos XH), N0)
                    | _ -> (N0, (Npos XH))))

  (** val div_eucl : n -> n -> n * n **)

  let div_eucl a b =
    match a with
    | N0 -> (N0, N0)
    | Npos na -> (match b with
                  | N0 -> (N0, a)
                  | Npos _ -> pos_div_eucl na b)

  (** val div : n -> n -> n **)

  let div a b =
    fst (div_eucl a b)

  (** val modulo : n -> n -> n **)

  let modulo a b =
    snd (div_eucl a b)
 end

type 'a res =
| Ok of 'a
| Panic

(** val omap : ('a1 -> 'a2) -> 'a1 option -> 'a2 option **)

let omap f = function
| Some a -> Some (f a)
| None -> None

type str = n list

(** val clen : n -> nat **)

let clen c =
  if N.ltb c (Npos (XO (XO (XO (XO (XO (XO (XO XH))))))))
  then S O
  else if N.ltb c (Npos (XO (XO (XO (XO (XO (XO (XO (XO (XO (XO (XO
            XH))))))))))))
       then S (S O)
       else if N.ltb c (Npos (XO (XO (XO (XO (XO (XO (XO (XO (XO (XO (XO (XO
                 (XO (XO (XO (XO XH)))))))))))))))))
            then S (S (S O))
            else S (S (S (S O)))

(** val blen : str -> nat **)

let rec blen = function
| [] -> O
| c :: t -> add (clen c) (blen t)

(** val valid_char : n -> bool **)

let valid_char c =
  (||)
    (N.ltb c (Npos (XO (XO (XO (XO (XO (XO (XO (XO (XO (XO (XO (XI (XI (XO
      (XI XH)))))))))))))))))
    ((&&)
      (N.leb (Npos (XO (XO (XO (XO (XO (XO (XO (XO (XO (XO (XO (XO (XO (XI
        (XI XH)))))))))))))))) c)
      (N.leb c (Npos (XI (XI (XI (XI (XI (XI (XI (XI (XI (XI (XI (XI (XI (XI
        (XI (XI (XO (XO (XO (XO XH)))))))))))))))))))))))

(** val bsplit : str -> nat -> (str * str) option **)

let rec bsplit s p = match p with
| O -> Some ([], s)
| S _ ->
  (match s with
   | [] -> None
   | c :: t ->
     if Nat.leb (clen c) p
     then (match bsplit t (sub p (clen c)) with
           | Some p0 -> let (l, r) = p0 in Some ((c :: l), r)
           | None -> None)
     else None)

(** val is_boundary : str -> nat -> bool **)

let is_boundary s p =
  match bsplit s p with
  | Some _ -> true
  | None -> false

(** val str_eqb : str -> str -> bool **)

let rec str_eqb a b =
  match a with
  | [] -> (match b with
           | [] -> true
           | _ :: _ -> false)
  | x :: a' ->
    (match b with
     | [] -> false
     | y :: b' -> (&&) (N.eqb x y) (str_eqb a' b'))

(** val prefix_b : str -> str -> bool **)

let rec prefix_b p s =
  match p with
  | [] -> true
  | x :: p' ->
    (match s with
     | [] -> false
     | y :: s' -> (&&) (N.eqb x y) (prefix_b p' s'))

(** val find_sub : str -> str -> nat option **)

let rec find_sub t s =
  if prefix_b t s
  then Some O
  else (match s with
        | [] -> None
        | c :: s' ->
          (match find_sub t s' with
           | Some k -> Some (add (clen c) k)
           | None -> None))

type gcat =
| GC_Any
| GC_CR
| GC_Control
| GC_Extend
| GC_ExtPict
| GC_InCBConsonant
| GC_L
| GC_LF
| GC_LV
| GC_LVT
| GC_Prepend
| GC_RI
| GC_SpacingMark
| GC_T
| GC_V
| GC_ZWJ

type uData = { u_is_whitespace : (n -> bool);
               u_is_alphanumeric : (n -> bool);
               u_is_alphabetic : (n -> bool); u_is_control : (n -> bool);
               u_is_lowercase : (n -> bool); u_is_uppercase : (n -> bool);
               u_to_upper : (n -> n list); u_to_lower : (n -> n list);
               u_width : (n -> nat); u_gcat : (n -> gcat);
               u_incb_extend : (n -> bool); u_incb_linker : (n -> bool) }

(** val gcat_eqb : gcat -> gcat -> bool **)

let gcat_eqb a b =
  match a with
  | GC_Any -> (match b with
               | GC_Any -> true
               | _ -> false)
  | GC_CR -> (match b with
              | GC_CR -> true
              | _ -> false)
  | GC_Control -> (match b with
                   | GC_Control -> true
                   | _ -> false)
  | GC_Extend -> (match b with
                  | GC_Extend -> true
                  | _ -> false)
  | GC_ExtPict -> (match b with
                   | GC_ExtPict -> true
                   | _ -> false)
  | GC_InCBConsonant -> (match b with
                         | GC_InCBConsonant -> true
                         | _ -> false)
  | GC_L -> (match b with
             | GC_L -> true
             | _ -> false)
  | GC_LF -> (match b with
              | GC_LF -> true
              | _ -> false)
  | GC_LV -> (match b with
              | GC_LV -> true
              | _ -> false)
  | GC_LVT -> (match b with
               | GC_LVT -> true
               | _ -> false)
  | GC_Prepend -> (match b with
                   | GC_Prepend -> true
                   | _ -> false)
  | GC_RI -> (match b with
              | GC_RI -> true
              | _ -> false)
  | GC_SpacingMark -> (match b with
                       | GC_SpacingMark -> true
                       | _ -> false)
  | GC_T -> (match b with
             | GC_T -> true
             | _ -> false)
  | GC_V -> (match b with
             | GC_V -> true
             | _ -> false)
  | GC_ZWJ -> (match b with
               | GC_ZWJ -> true
               | _ -> false)

(** val gcat_of : uData -> n -> gcat **)

let gcat_of u c =
  if N.leb c (Npos (XO (XI (XI (XI (XI (XI XH)))))))
  then if N.leb (Npos (XO (XO (XO (XO (XO XH)))))) c
       then GC_Any
       else if N.eqb c (Npos (XO (XI (XO XH))))
            then GC_LF
            else if N.eqb c (Npos (XI (XO (XI XH))))
                 then GC_CR
                 else GC_Control
  else u.u_gcat c

type pair_result =
| PNotBreak
| PBreak
| PExtended
| PInCb
| PRegional
| PEmoji

(** val is_ctl : gcat -> bool **)

let is_ctl = function
| GC_CR -> true
| GC_Control -> true
| GC_LF -> true
| _ -> false

(** val check_pair : gcat -> gcat -> pair_result **)

let check_pair b a =
  match b with
  | GC_CR ->
    (match a with
     | GC_LF -> PNotBreak
     | _ ->
       if is_ctl b
       then PBreak
       else if is_ctl a
            then PBreak
            else (match b with
                  | GC_L ->
                    (match a with
                     | GC_Extend -> PNotBreak
                     | GC_InCBConsonant -> PInCb
                     | GC_L -> PNotBreak
                     | GC_LV -> PNotBreak
                     | GC_LVT -> PNotBreak
                     | GC_SpacingMark -> PExtended
                     | GC_V -> PNotBreak
                     | GC_ZWJ -> PNotBreak
                     | _ -> PBreak)
                  | GC_LV ->
                    (match a with
                     | GC_Extend -> PNotBreak
                     | GC_InCBConsonant -> PInCb
                     | GC_SpacingMark -> PExtended
                     | GC_T -> PNotBreak
                     | GC_V -> PNotBreak
                     | GC_ZWJ -> PNotBreak
                     | _ -> PBreak)
                  | GC_LVT ->
                    (match a with
                     | GC_Extend -> PNotBreak
                     | GC_InCBConsonant -> PInCb
                     | GC_SpacingMark -> PExtended
                     | GC_T -> PNotBreak
                     | GC_ZWJ -> PNotBreak
                     | _ -> PBreak)
                  | GC_Prepend ->
                    (match a with
                     | GC_Extend -> PNotBreak
                     | GC_ZWJ -> PNotBreak
                     | _ -> PExtended)
                  | GC_RI ->
                    (match a with
                     | GC_Extend -> PNotBreak
                     | GC_InCBConsonant -> PInCb
                     | GC_RI -> PRegional
                     | GC_SpacingMark -> PExtended
                     | GC_ZWJ -> PNotBreak
                     | _ -> PBreak)
                  | GC_T ->
                    (match a with
                     | GC_Extend -> PNotBreak
                     | GC_InCBConsonant -> PInCb
                     | GC_SpacingMark -> PExtended
                     | GC_T -> PNotBreak
                     | GC_ZWJ -> PNotBreak
                     | _ -> PBreak)
                  | GC_V ->
                    (match a with
                     | GC_Extend -> PNotBreak
                     | GC_InCBConsonant -> PInCb
                     | GC_SpacingMark -> PExtended
                     | GC_T -> PNotBreak
                     | GC_V -> PNotBreak
                     | GC_ZWJ -> PNotBreak
                     | _ -> PBreak)
                  | GC_ZWJ ->
                    (match a with
                     | GC_Extend -> PNotBreak
                     | GC_ExtPict -> PEmoji
                     | GC_InCBConsonant -> PInCb
                     | GC_SpacingMark -> PExtended
                     | GC_ZWJ -> PNotBreak
                     | _ -> PBreak)
                  | _ ->
                    (match a with
                     | GC_Extend -> PNotBreak
                     | GC_InCBConsonant -> PInCb
                     | GC_SpacingMark -> PExtended
                     | GC_ZWJ -> PNotBreak
                     | _ -> PBreak)))
  | _ ->
    if is_ctl b
    then PBreak
    else if is_ctl a
         then PBreak
         else (match b with
               | GC_L ->
                 (match a with
                  | GC_Extend -> PNotBreak
                  | GC_InCBConsonant -> PInCb
                  | GC_L -> PNotBreak
                  | GC_LV -> PNotBreak
                  | GC_LVT -> PNotBreak
                  | GC_SpacingMark -> PExtended
                  | GC_V -> PNotBreak
                  | GC_ZWJ -> PNotBreak
                  | _ -> PBreak)
               | GC_LV ->
                 (match a with
                  | GC_Extend -> PNotBreak
                  | GC_InCBConsonant -> PInCb
                  | GC_SpacingMark -> PExtended
                  | GC_T -> PNotBreak
                  | GC_V -> PNotBreak
                  | GC_ZWJ -> PNotBreak
                  | _ -> PBreak)
               | GC_LVT ->
                 (match a with
                  | GC_Extend -> PNotBreak
                  | GC_InCBConsonant -> PInCb
                  | GC_SpacingMark -> PExtended
                  | GC_T -> PNotBreak
                  | GC_ZWJ -> PNotBreak
                  | _ -> PBreak)
               | GC_Prepend ->
                 (match a with
                  | GC_Extend -> PNotBreak
                  | GC_ZWJ -> PNotBreak
                  | _ -> PExtended)
               | GC_RI ->
                 (match a with
                  | GC_Extend -> PNotBreak
                  | GC_InCBConsonant -> PInCb
                  | GC_RI -> PRegional
                  | GC_SpacingMark -> PExtended
                  | GC_ZWJ -> PNotBreak
                  | _ -> PBreak)
               | GC_T ->
                 (match a with
                  | GC_Extend -> PNotBreak
                  | GC_InCBConsonant -> PInCb
                  | GC_SpacingMark -> PExtended
                  | GC_T -> PNotBreak
                  | GC_ZWJ -> PNotBreak
                  | _ -> PBreak)
               | GC_V ->
                 (match a with
                  | GC_Extend -> PNotBreak
                  | GC_InCBConsonant -> PInCb
                  | GC_SpacingMark -> PExtended
                  | GC_T -> PNotBreak
                  | GC_V -> PNotBreak
                  | GC_ZWJ -> PNotBreak
                  | _ -> PBreak)
               | GC_ZWJ ->
                 (match a with
                  | GC_Extend -> PNotBreak
                  | GC_ExtPict -> PEmoji
                  | GC_InCBConsonant -> PInCb
                  | GC_SpacingMark -> PExtended
                  | GC_ZWJ -> PNotBreak
                  | _ -> PBreak)
               | _ ->
                 (match a with
                  | GC_Extend -> PNotBreak
                  | GC_InCBConsonant -> PInCb
                  | GC_SpacingMark -> PExtended
                  | GC_ZWJ -> PNotBreak
                  | _ -> PBreak))

(** val incb_break : uData -> n list -> bool -> bool **)

let rec incb_break u rb seen_linker =
  match rb with
  | [] -> true
  | c :: t ->
    if u.u_incb_linker c
    then incb_break u t true
    else if u.u_incb_extend c
         then incb_break u t seen_linker
         else negb
                ((&&) seen_linker (gcat_eqb (gcat_of u c) GC_InCBConsonant))

(** val ri_run : uData -> n list -> nat **)

let rec ri_run u = function
| [] -> O
| c :: t -> if gcat_eqb (gcat_of u c) GC_RI then S (ri_run u t) else O

(** val emoji_break : uData -> n list -> bool **)

let rec emoji_break u = function
| [] -> true
| c :: t ->
  (match gcat_of u c with
   | GC_Extend -> emoji_break u t
   | GC_ExtPict -> false
   | _ -> true)

(** val is_break : uData -> n list -> n -> bool **)

let is_break u rb a =
  match rb with
  | [] -> true
  | b :: rest ->
    (match check_pair (gcat_of u b) (gcat_of u a) with
     | PBreak -> true
     | PInCb -> incb_break u rb false
     | PRegional -> Nat.even (ri_run u rb)
     | PEmoji -> emoji_break u rest
     | _ -> false)

(** val seg_go : uData -> n list -> n list -> str -> str list **)

let rec seg_go u rb cur = function
| [] -> (match cur with
         | [] -> []
         | _ :: _ -> (rev cur) :: [])
| c :: t ->
  (match cur with
   | [] -> seg_go u (c :: rb) (c :: []) t
   | _ :: _ ->
     if is_break u rb c
     then (rev cur) :: (seg_go u (c :: rb) (c :: []) t)
     else seg_go u (c :: rb) (c :: cur) t)

(** val useg : uData -> str -> str list **)

let useg u s =
  seg_go u [] [] s

(** val encode_char : n -> n list **)

let encode_char c =
  if N.ltb c (Npos (XO (XO (XO (XO (XO (XO (XO XH))))))))
  then c :: []
  else if N.ltb c (Npos (XO (XO (XO (XO (XO (XO (XO (XO (XO (XO (XO
            XH))))))))))))
       then (N.add (Npos (XO (XO (XO (XO (XO (XO (XI XH))))))))
              (N.div c (Npos (XO (XO (XO (XO (XO (XO XH))))))))) :: (
              (N.add (Npos (XO (XO (XO (XO (XO (XO (XO XH))))))))
                (N.modulo c (Npos (XO (XO (XO (XO (XO (XO XH))))))))) :: [])
       else if N.ltb c (Npos (XO (XO (XO (XO (XO (XO (XO (XO (XO (XO (XO (XO
                 (XO (XO (XO (XO XH)))))))))))))))))
            then (N.add (Npos (XO (XO (XO (XO (XO (XI (XI XH))))))))
                   (N.div c (Npos (XO (XO (XO (XO (XO (XO (XO (XO (XO (XO (XO
                     (XO XH))))))))))))))) :: ((N.add (Npos (XO (XO (XO (XO
                                                 (XO (XO (XO XH))))))))
                                                 (N.modulo
                                                   (N.div c (Npos (XO (XO (XO
                                                     (XO (XO (XO XH))))))))
                                                   (Npos (XO (XO (XO (XO (XO
                                                   (XO XH))))))))) :: (
                   (N.add (Npos (XO (XO (XO (XO (XO (XO (XO XH))))))))
                     (N.modulo c (Npos (XO (XO (XO (XO (XO (XO XH))))))))) :: []))
            else (N.add (Npos (XO (XO (XO (XO (XI (XI (XI XH))))))))
                   (N.div c (Npos (XO (XO (XO (XO (XO (XO (XO (XO (XO (XO (XO
                     (XO (XO (XO (XO (XO (XO (XO XH))))))))))))))))))))) :: (
                   (N.add (Npos (XO (XO (XO (XO (XO (XO (XO XH))))))))
                     (N.modulo
                       (N.div c (Npos (XO (XO (XO (XO (XO (XO (XO (XO (XO (XO
                         (XO (XO XH)))))))))))))) (Npos (XO (XO (XO (XO (XO
                       (XO XH))))))))) :: ((N.add (Npos (XO (XO (XO (XO (XO
                                             (XO (XO XH))))))))
                                             (N.modulo
                                               (N.div c (Npos (XO (XO (XO (XO
                                                 (XO (XO XH)))))))) (Npos (XO
                                               (XO (XO (XO (XO (XO XH))))))))) :: (
                   (N.add (Npos (XO (XO (XO (XO (XO (XO (XO XH))))))))
                     (N.modulo c (Npos (XO (XO (XO (XO (XO (XO XH))))))))) :: [])))

(** val encode : str -> n list **)

let encode s =
  flat_map encode_char s

(** val is_cont : n -> bool **)

let is_cont b =
  (&&) (N.leb (Npos (XO (XO (XO (XO (XO (XO (XO XH)))))))) b)
    (N.ltb b (Npos (XO (XO (XO (XO (XO (XO (XI XH)))))))))

(** val decode1 : n list -> (n * n list) option **)

let decode1 = function
| [] -> None
| b0 :: t0 ->
  if N.ltb b0 (Npos (XO (XO (XO (XO (XO (XO (XO XH))))))))
  then Some (b0, t0)
  else if N.ltb b0 (Npos (XO (XO (XO (XO (XO (XO (XI XH))))))))
       then None
       else if N.ltb b0 (Npos (XO (XO (XO (XO (XO (XI (XI XH))))))))
            then (match t0 with
                  | [] -> None
                  | b1 :: t1 ->
                    let c =
                      N.add
                        (N.mul
                          (N.sub b0 (Npos (XO (XO (XO (XO (XO (XO (XI
                            XH))))))))) (Npos (XO (XO (XO (XO (XO (XO
                          XH))))))))
                        (N.sub b1 (Npos (XO (XO (XO (XO (XO (XO (XO
                          XH)))))))))
                    in
                    if (&&) (is_cont b1)
                         (N.leb (Npos (XO (XO (XO (XO (XO (XO (XO XH))))))))
                           c)
                    then Some (c, t1)
                    else None)
            else if N.ltb b0 (Npos (XO (XO (XO (XO (XI (XI (XI XH))))))))
                 then (match t0 with
                       | [] -> None
                       | b1 :: l ->
                         (match l with
                          | [] -> None
                          | b2 :: t2 ->
                            let c =
                              N.add
                                (N.add
                                  (N.mul
                                    (N.sub b0 (Npos (XO (XO (XO (XO (XO (XI
                                      (XI XH))))))))) (Npos (XO (XO (XO (XO
                                    (XO (XO (XO (XO (XO (XO (XO (XO
                                    XH))))))))))))))
                                  (N.mul
                                    (N.sub b1 (Npos (XO (XO (XO (XO (XO (XO
                                      (XO XH))))))))) (Npos (XO (XO (XO (XO
                                    (XO (XO XH)))))))))
                                (N.sub b2 (Npos (XO (XO (XO (XO (XO (XO (XO
                                  XH)))))))))
                            in
                            if (&&)
                                 ((&&) ((&&) (is_cont b1) (is_cont b2))
                                   (N.leb (Npos (XO (XO (XO (XO (XO (XO (XO
                                     (XO (XO (XO (XO XH)))))))))))) c))
                                 (valid_char c)
                            then Some (c, t2)
                            else None))
                 else if N.ltb b0 (Npos (XO (XO (XO (XI (XI (XI (XI XH))))))))
                      then (match t0 with
                            | [] -> None
                            | b1 :: l ->
                              (match l with
                               | [] -> None
                               | b2 :: l0 ->
                                 (match l0 with
                                  | [] -> None
                                  | b3 :: t3 ->
                                    let c =
                                      N.add
                                        (N.add
                                          (N.add
                                            (N.mul
                                              (N.sub b0 (Npos (XO (XO (XO (XO
                                                (XI (XI (XI XH))))))))) (Npos
                                              (XO (XO (XO (XO (XO (XO (XO (XO
                                              (XO (XO (XO (XO (XO (XO (XO (XO
                                              (XO (XO XH))))))))))))))))))))
                                            (N.mul
                                              (N.sub b1 (Npos (XO (XO (XO (XO
                                                (XO (XO (XO XH))))))))) (Npos
                                              (XO (XO (XO (XO (XO (XO (XO (XO
                                              (XO (XO (XO (XO XH)))))))))))))))
                                          (N.mul
                                            (N.sub b2 (Npos (XO (XO (XO (XO
                                              (XO (XO (XO XH))))))))) (Npos
                                            (XO (XO (XO (XO (XO (XO XH)))))))))
                                        (N.sub b3 (Npos (XO (XO (XO (XO (XO
                                          (XO (XO XH)))))))))
                                    in
                                    if (&&)
                                         ((&&)
                                           ((&&)
                                             ((&&) (is_cont b1) (is_cont b2))
                                             (is_cont b3))
                                           (N.leb (Npos (XO (XO (XO (XO (XO
                                             (XO (XO (XO (XO (XO (XO (XO (XO
                                             (XO (XO (XO XH)))))))))))))))))
                                             c))
                                         (N.leb c (Npos (XI (XI (XI (XI (XI
                                           (XI (XI (XI (XI (XI (XI (XI (XI
                                           (XI (XI (XI (XO (XO (XO (XO
                                           XH))))))))))))))))))))))
                                    then Some (c, t3)
                                    else None)))
                      else None

(** val decode_fuel : nat -> n list -> str option **)

let rec decode_fuel fuel bs = match bs with
| [] -> Some []
| _ :: _ ->
  (match fuel with
   | O -> None
   | S f ->
     (match decode1 bs with
      | Some p ->
        let (c, rest) = p in
        (match decode_fuel f rest with
         | Some s -> Some (c :: s)
         | None -> None)
      | None -> None))

(** val decode : n list -> str option **)

let decode bs =
  decode_fuel (length bs) bs

type hist = { h_entries : str list; h_max : nat; h_ign_space : bool;
              h_ign_dups : bool }

(** val hist_new : nat -> bool -> bool -> hist **)

let hist_new max ign_space ign_dups =
  { h_entries = []; h_max = max; h_ign_space = ign_space; h_ign_dups =
    ign_dups }

(** val hlen : hist -> nat **)

let hlen h =
  length h.h_entries

(** val last_opt : 'a1 list -> 'a1 option **)

let rec last_opt = function
| [] -> None
| x :: t -> (match t with
             | [] -> Some x
             | _ :: _ -> last_opt t)

(** val h_ignore : uData -> hist -> str -> bool **)

let h_ignore u h line =
  if Nat.eqb h.h_max O
  then true
  else if match line with
          | [] -> true
          | c :: _ -> (&&) h.h_ign_space (u.u_is_whitespace c)
       then true
       else if h.h_ign_dups
            then (match last_opt h.h_entries with
                  | Some s -> str_eqb s line
                  | None -> false)
            else false

(** val h_insert : hist -> str -> hist **)

let h_insert h line =
  let es = if Nat.eqb (hlen h) h.h_max then tl h.h_entries else h.h_entries in
  { h_entries = (app es (line :: [])); h_max = h.h_max; h_ign_space =
  h.h_ign_space; h_ign_dups = h.h_ign_dups }

(** val h_add : uData -> hist -> str -> hist * bool **)

let h_add u h line =
  if h_ignore u h line then (h, false) else ((h_insert h line), true)

(** val h_set_max_len : hist -> nat -> hist **)

let h_set_max_len h n0 =
  { h_entries =
    (if Nat.ltb n0 (hlen h)
     then skipn (sub (hlen h) n0) h.h_entries
     else h.h_entries); h_max = n0; h_ign_space = h.h_ign_space; h_ign_dups =
    h.h_ign_dups }

(** val h_set_ign_dups : hist -> bool -> hist **)

let h_set_ign_dups h b =
  { h_entries = h.h_entries; h_max = h.h_max; h_ign_space = h.h_ign_space;
    h_ign_dups = b }

(** val h_set_ign_space : hist -> bool -> hist **)

let h_set_ign_space h b =
  { h_entries = h.h_entries; h_max = h.h_max; h_ign_space = b; h_ign_dups =
    h.h_ign_dups }

(** val h_clear : hist -> hist **)

let h_clear h =
  { h_entries = []; h_max = h.h_max; h_ign_space = h.h_ign_space;
    h_ign_dups = h.h_ign_dups }

(** val h_get : hist -> nat -> str option **)

let h_get h i =
  nth_error h.h_entries i

type sdir =
| Forward
| Reverse

(** val find_first :
    (str -> nat option) -> str list -> nat -> ((nat * nat) * str) option **)

let rec find_first test l i =
  match l with
  | [] -> None
  | e :: t ->
    (match test e with
     | Some c -> Some ((i, c), e)
     | None -> find_first test t (S i))

(** val h_search_match :
    hist -> str -> nat -> sdir -> (str -> nat option) -> ((nat * nat) * str)
    option **)

let h_search_match h term start dir test =
  match term with
  | [] -> None
  | _ :: _ ->
    if Nat.leb (hlen h) start
    then None
    else (match dir with
          | Forward ->
            (match find_first test (skipn start h.h_entries) O with
             | Some p ->
               let (p0, e) = p in
               let (i, c) = p0 in Some (((add i start), c), e)
             | None -> None)
          | Reverse ->
            (match find_first test
                     (skipn (sub (sub (hlen h) (S O)) start)
                       (rev h.h_entries)) O with
             | Some p ->
               let (p0, e) = p in
               let (i, c) = p0 in Some (((sub start i), c), e)
             | None -> None))

(** val h_search :
    hist -> str -> nat -> sdir -> ((nat * nat) * str) option **)

let h_search h term start dir =
  h_search_match h term start dir (fun e -> find_sub term e)

(** val h_starts_with :
    hist -> str -> nat -> sdir -> ((nat * nat) * str) option **)

let h_starts_with h term start dir =
  h_search_match h term start dir (fun e ->
    if prefix_b term e then Some (blen term) else None)

type hop =
| HAdd of str
| HAddOwned of str
| HSetMax of nat
| HIgnDups of bool
| HIgnSpace of bool
| HClear
| HGet of nat
| HSearch of str * nat * sdir
| HStartsWith of str * nat * sdir
| HLen

type hout =
| OBool of bool
| OUnit
| OEntry of str option
| OSearch of ((nat * nat) * str) option
| ONat of nat

(** val h_step : uData -> hist -> hop -> hist * hout **)

let h_step u h = function
| HAdd l -> let (h', b) = h_add u h l in (h', (OBool b))
| HAddOwned l -> let (h', b) = h_add u h l in (h', (OBool b))
| HSetMax n0 -> ((h_set_max_len h n0), OUnit)
| HIgnDups b -> ((h_set_ign_dups h b), OUnit)
| HIgnSpace b -> ((h_set_ign_space h b), OUnit)
| HClear -> ((h_clear h), OUnit)
| HGet i -> (h, (OEntry (h_get h i)))
| HSearch (t, s, d) -> (h, (OSearch (h_search h t s d)))
| HStartsWith (t, s, d) -> (h, (OSearch (h_starts_with h t s d)))
| HLen -> (h, (ONat (hlen h)))

(** val h_run : uData -> hist -> hop list -> hist * hout list **)

let rec h_run u h = function
| [] -> (h, [])
| o :: t ->
  let (h1, r) = h_step u h o in let (h2, rs) = h_run u h1 t in (h2, (r :: rs))

(** val file_version_v2 : n list **)

let file_version_v2 =
  (Npos (XI (XI (XO (XO (XO XH)))))) :: ((Npos (XO (XI (XI (XO (XI (XO
    XH))))))) :: ((Npos (XO (XI (XO (XO (XI XH)))))) :: []))

(** val default_break_chars : n list **)

let default_break_chars =
  (Npos (XO (XO (XO (XO (XO XH)))))) :: ((Npos (XI (XO (XO XH)))) :: ((Npos
    (XO (XI (XO XH)))) :: ((Npos (XO (XI (XO (XO (XO XH)))))) :: ((Npos (XO
    (XO (XI (XI (XI (XO XH))))))) :: ((Npos (XI (XI (XI (XO (XO
    XH)))))) :: ((Npos (XO (XO (XO (XO (XO (XI XH))))))) :: ((Npos (XO (XO
    (XO (XO (XO (XO XH))))))) :: ((Npos (XO (XO (XI (XO (XO
    XH)))))) :: ((Npos (XO (XI (XI (XI (XI XH)))))) :: ((Npos (XO (XO (XI (XI
    (XI XH)))))) :: ((Npos (XI (XO (XI (XI (XI XH)))))) :: ((Npos (XI (XI (XO
    (XI (XI XH)))))) :: ((Npos (XO (XO (XI (XI (XI (XI XH))))))) :: ((Npos
    (XO (XI (XI (XO (XO XH)))))) :: ((Npos (XI (XI (XO (XI (XI (XI
    XH))))))) :: ((Npos (XO (XO (XO (XI (XO
    XH)))))) :: (N0 :: [])))))))))))))))))

(** val escape_char : n **)

let escape_char =
  Npos (XO (XO (XI (XI (XI (XO XH))))))

(** val double_quotes_special_chars : n list **)

let double_quotes_special_chars =
  (Npos (XO (XI (XO (XO (XO XH)))))) :: ((Npos (XO (XO (XI (XO (XO
    XH)))))) :: ((Npos (XO (XO (XI (XI (XI (XO XH))))))) :: ((Npos (XO (XO
    (XO (XO (XO (XI XH))))))) :: [])))

(** val double_quotes_escape_char : n **)

let double_quotes_escape_char =
  Npos (XO (XO (XI (XI (XI (XO XH))))))

(** val header : n list **)

let header =
  file_version_v2

(** val esc_char : n -> n list **)

let esc_char c =
  if N.eqb c (Npos (XO (XO (XI (XI (XI (XO XH)))))))
  then (Npos (XO (XO (XI (XI (XI (XO XH))))))) :: ((Npos (XO (XO (XI (XI (XI
         (XO XH))))))) :: [])
  else if N.eqb c (Npos (XO (XI (XO XH))))
       then (Npos (XO (XO (XI (XI (XI (XO XH))))))) :: ((Npos (XO (XI (XI (XI
              (XO (XI XH))))))) :: [])
       else if N.eqb c (Npos (XI (XO (XI XH))))
            then (Npos (XO (XO (XI (XI (XI (XO XH))))))) :: ((Npos (XO (XI
                   (XO (XO (XI (XI XH))))))) :: [])
            else c :: []

(** val esc : str -> str **)

let esc s =
  flat_map esc_char s

(** val unesc : str -> str option **)

let rec unesc = function
| [] -> Some []
| c :: t ->
  if N.eqb c (Npos (XO (XO (XI (XI (XI (XO XH)))))))
  then (match t with
        | [] -> Some []
        | d :: t' ->
          if N.eqb d (Npos (XO (XI (XI (XI (XO (XI XH)))))))
          then omap (fun x -> (Npos (XO (XI (XO XH)))) :: x) (unesc t')
          else if N.eqb d (Npos (XO (XO (XI (XI (XI (XO XH)))))))
               then omap (fun x -> (Npos (XO (XO (XI (XI (XI (XO
                      XH))))))) :: x) (unesc t')
               else if N.eqb d (Npos (XO (XI (XO (XO (XI (XI XH)))))))
                    then omap (fun x -> (Npos (XI (XO (XI XH)))) :: x)
                           (unesc t')
                    else None)
  else omap (fun x -> c :: x) (unesc t)

(** val entry_bytes : str -> n list **)

let entry_bytes e =
  app (encode (esc e)) ((Npos (XO (XI (XO XH)))) :: [])

(** val entries_bytes : str list -> n list **)

let entries_bytes es =
  flat_map entry_bytes es

(** val save_bytes : str list -> n list **)

let save_bytes es =
  app header (app ((Npos (XO (XI (XO XH)))) :: []) (entries_bytes es))

(** val split_lines_aux : n list -> n list -> (n list * bool) list **)

let rec split_lines_aux bs cur =
  match bs with
  | [] -> (match cur with
           | [] -> []
           | _ :: _ -> ((rev cur), false) :: [])
  | b :: t ->
    if N.eqb b (Npos (XO (XI (XO XH))))
    then ((rev cur), true) :: (split_lines_aux t [])
    else split_lines_aux t (b :: cur)

(** val split_lines : n list -> (n list * bool) list **)

let split_lines bs =
  split_lines_aux bs []

(** val strip_cr : n list -> n list **)

let strip_cr l =
  match rev l with
  | [] -> l
  | c :: r -> if N.eqb c (Npos (XI (XO (XI XH)))) then rev r else l

(** val decode_line : (n list * bool) -> str option **)

let decode_line = function
| (l, term) ->
  (match decode l with
   | Some _ -> decode (if term then strip_cr l else l)
   | None -> None)

type fhist = { f_mem : hist; f_new : nat; f_pinfo : (nat * nat) option }

(** val f_new_cfg : nat -> bool -> bool -> fhist **)

let f_new_cfg max igs igd =
  { f_mem = (hist_new max igs igd); f_new = O; f_pinfo = None }

(** val f_entries : fhist -> str list **)

let f_entries f =
  f.f_mem.h_entries

(** val f_add : uData -> fhist -> str -> fhist * bool **)

let f_add u f l =
  let (m, b) = h_add u f.f_mem l in
  if b
  then ({ f_mem = m; f_new = (Nat.min (S f.f_new) (hlen m)); f_pinfo =
         f.f_pinfo }, true)
  else (f, false)

(** val f_set_max_len : fhist -> nat -> fhist **)

let f_set_max_len f n0 =
  { f_mem = (h_set_max_len f.f_mem n0); f_new = (Nat.min f.f_new n0);
    f_pinfo = f.f_pinfo }

(** val f_clear : fhist -> fhist **)

let f_clear f =
  { f_mem = (h_clear f.f_mem); f_new = O; f_pinfo = f.f_pinfo }

type loadres =
| LOk of fhist * bool
| LErr of fhist

(** val load_rest :
    uData -> bool -> fhist -> bool -> (n list * bool) list -> loadres **)

let rec load_rest u v2 f app0 = function
| [] -> LOk ({ f_mem = f.f_mem; f_new = O; f_pinfo = f.f_pinfo }, app0)
| lb :: t ->
  (match decode_line lb with
   | Some line ->
     (match line with
      | [] -> load_rest u v2 f app0 t
      | _ :: _ ->
        let line' =
          if v2
          then (match unesc line with
                | Some s -> s
                | None -> line)
          else line
        in
        let (f', b) = f_add u f line' in load_rest u v2 f' ((&&) app0 b) t)
   | None -> LErr f)

(** val load_from : uData -> fhist -> n list -> loadres **)

let load_from u f bytes =
  match split_lines bytes with
  | [] -> LOk ({ f_mem = f.f_mem; f_new = O; f_pinfo = f.f_pinfo }, false)
  | lb :: t ->
    (match decode_line lb with
     | Some line ->
       if str_eqb line header
       then load_rest u true f true t
       else let (f', _) = f_add u f line in load_rest u false f' false t
     | None -> LErr f)

type fsys = { fs_content : n list option; fs_mtime : nat }

(** val fs_write : fsys -> n list -> bool -> fsys **)

let fs_write fs bytes tick =
  { fs_content = (Some bytes); fs_mtime =
    (if tick then S fs.fs_mtime else fs.fs_mtime) }

type ioresult =
| IoOk
| IoErr

(** val f_save : fhist -> fsys -> bool -> (fhist * fsys) * ioresult **)

let f_save f fs tick =
  if (||) (Nat.eqb (hlen f.f_mem) O) (Nat.eqb f.f_new O)
  then ((f, fs), IoOk)
  else let fs' = fs_write fs (save_bytes (f_entries f)) tick in
       (({ f_mem = f.f_mem; f_new = O; f_pinfo = (Some (fs'.fs_mtime,
       (hlen f.f_mem))) }, fs'), IoOk)

(** val can_just_append : fhist -> fsys -> bool **)

let can_just_append f fs =
  match f.f_pinfo with
  | Some p ->
    let (pm, psize) = p in
    if (||)
         ((||) (negb (Nat.eqb pm fs.fs_mtime)) (Nat.leb f.f_mem.h_max psize))
         (Nat.ltb f.f_mem.h_max (add psize f.f_new))
    then false
    else true
  | None -> false

(** val pending : fhist -> str list **)

let pending f =
  skipn (sub (hlen f.f_mem) f.f_new) (f_entries f)

(** val f_add_all : uData -> fhist -> str list -> fhist **)

let rec f_add_all u f = function
| [] -> f
| l :: t -> f_add_all u (fst (f_add u f l)) t

(** val f_append :
    uData -> fhist -> fsys -> bool -> (fhist * fsys) * ioresult **)

let f_append u f fs tick =
  if (||) (Nat.eqb (hlen f.f_mem) O) (Nat.eqb f.f_new O)
  then ((f, fs), IoOk)
  else (match fs.fs_content with
        | Some content ->
          if Nat.eqb f.f_new f.f_mem.h_max
          then f_save f fs tick
          else if can_just_append f fs
               then let fs' =
                      fs_write fs (app content (entries_bytes (pending f)))
                        tick
                    in
                    let size =
                      match f.f_pinfo with
                      | Some p -> let (_, s) = p in add s f.f_new
                      | None -> O
                    in
                    (({ f_mem = f.f_mem; f_new = O; f_pinfo = (Some
                    (fs'.fs_mtime, size)) }, fs'), IoOk)
               else let other =
                      f_new_cfg f.f_mem.h_max f.f_mem.h_ign_space
                        f.f_mem.h_ign_dups
                    in
                    (match load_from u other content with
                     | LOk (other1, _) ->
                       let other2 = f_add_all u other1 (pending f) in
                       let fs' =
                         fs_write fs (save_bytes (f_entries other2)) tick
                       in
                       (({ f_mem = f.f_mem; f_new = O; f_pinfo = (Some
                       (fs'.fs_mtime, (hlen other2.f_mem))) }, fs'), IoOk)
                     | LErr _ -> ((f, fs), IoErr))
        | None -> f_save f fs tick)

(** val f_load : uData -> fhist -> fsys -> fhist * ioresult **)

let f_load u f fs =
  match fs.fs_content with
  | Some content ->
    let len = hlen f.f_mem in
    (match load_from u f content with
     | LOk (f', appendable) ->
       if appendable
       then ({ f_mem = f'.f_mem; f_new = f'.f_new; f_pinfo = (Some
              (fs.fs_mtime, (sub (hlen f'.f_mem) len))) }, IoOk)
       else ({ f_mem = f'.f_mem; f_new = f'.f_new; f_pinfo = None }, IoOk)
     | LErr f' -> (f', IoErr))
  | None -> (f, IoErr)

type fop =
| FNew of nat * nat * bool * bool
| FAdd of nat * str
| FSave of nat * bool
| FAppend of nat * bool
| FLoad of nat
| FSetMax of nat * nat
| FClear of nat
| FPut of n list * bool
| FRemove

type world = { w_sessions : (nat * fhist) list; w_fs : fsys }

(** val w_init : world **)

let w_init =
  { w_sessions = []; w_fs = { fs_content = None; fs_mtime = O } }

(** val sess_get : (nat * fhist) list -> nat -> fhist option **)

let rec sess_get ss i =
  match ss with
  | [] -> None
  | p :: t -> let (j, f) = p in if Nat.eqb i j then Some f else sess_get t i

(** val sess_set :
    (nat * fhist) list -> nat -> fhist -> (nat * fhist) list **)

let rec sess_set ss i f =
  match ss with
  | [] -> (i, f) :: []
  | p :: t ->
    let (j, g) = p in
    if Nat.eqb i j then (j, f) :: t else (j, g) :: (sess_set t i f)

type fout =
| FoUnit
| FoBool of bool
| FoIo of ioresult
| FoNoSession

(** val w_step : uData -> world -> fop -> world * fout **)

let w_step u w o =
  let ss = w.w_sessions in
  let fs = w.w_fs in
  let with_sess = fun i k ->
    match sess_get ss i with
    | Some f -> k f
    | None -> (w, FoNoSession)
  in
  (match o with
   | FNew (i, max, igs, igd) ->
     ({ w_sessions = (sess_set ss i (f_new_cfg max igs igd)); w_fs = fs },
       FoUnit)
   | FAdd (i, l) ->
     with_sess i (fun f ->
       let (f', b) = f_add u f l in
       ({ w_sessions = (sess_set ss i f'); w_fs = fs }, (FoBool b)))
   | FSave (i, tick) ->
     with_sess i (fun f ->
       let (p, r) = f_save f fs tick in
       let (f', fs') = p in
       ({ w_sessions = (sess_set ss i f'); w_fs = fs' }, (FoIo r)))
   | FAppend (i, tick) ->
     with_sess i (fun f ->
       let (p, r) = f_append u f fs tick in
       let (f', fs') = p in
       ({ w_sessions = (sess_set ss i f'); w_fs = fs' }, (FoIo r)))
   | FLoad i ->
     with_sess i (fun f ->
       let (f', r) = f_load u f fs in
       ({ w_sessions = (sess_set ss i f'); w_fs = fs }, (FoIo r)))
   | FSetMax (i, n0) ->
     with_sess i (fun f -> ({ w_sessions =
       (sess_set ss i (f_set_max_len f n0)); w_fs = fs }, FoUnit))
   | FClear i ->
     with_sess i (fun f -> ({ w_sessions = (sess_set ss i (f_clear f));
       w_fs = fs }, FoUnit))
   | FPut (bytes, tick) ->
     ({ w_sessions = ss; w_fs = (fs_write fs bytes tick) }, FoUnit)
   | FRemove ->
     ({ w_sessions = ss; w_fs = { fs_content = None; fs_mtime =
       fs.fs_mtime } }, FoUnit))

type fobs = { ob_out : fout; ob_entries : str list; ob_file : n list option }

(** val fop_session : fop -> nat option **)

let fop_session = function
| FNew (i, _, _, _) -> Some i
| FAdd (i, _) -> Some i
| FSave (i, _) -> Some i
| FAppend (i, _) -> Some i
| FLoad i -> Some i
| FSetMax (i, _) -> Some i
| FClear i -> Some i
| _ -> None

(** val w_observe : world -> fop -> fout -> fobs **)

let w_observe w o out =
  { ob_out = out; ob_entries =
    (match fop_session o with
     | Some i ->
       (match sess_get w.w_sessions i with
        | Some f -> f_entries f
        | None -> [])
     | None -> []); ob_file = w.w_fs.fs_content }

(** val w_run : uData -> world -> fop list -> fobs list **)

let rec w_run u w = function
| [] -> []
| o :: t ->
  let (w', out) = w_step u w o in (w_observe w' o out) :: (w_run u w' t)

(** val str_truncate : str -> nat -> str res **)

let str_truncate s n0 =
  if Nat.ltb (blen s) n0
  then Ok s
  else (match bsplit s n0 with
        | Some p -> let (l, _) = p in Ok l
        | None -> Panic)

(** val apply_bs_go : str list -> str -> nat list -> str res **)

let rec apply_bs_go gs out sizes =
  match gs with
  | [] -> Ok out
  | g :: t ->
    if str_eqb g ((Npos (XO (XO (XO XH)))) :: [])
    then (match sizes with
          | [] -> apply_bs_go t out sizes
          | n0 :: sizes' ->
            if Nat.ltb (blen out) n0
            then Panic
            else (match str_truncate out (sub (blen out) n0) with
                  | Ok out' -> apply_bs_go t out' sizes'
                  | Panic -> Panic))
    else apply_bs_go t (app out g) ((blen g) :: sizes)

(** val apply_bs_impl : (str -> str list) -> str -> str res **)

let apply_bs_impl seg s =
  apply_bs_go (seg s) [] []

(** val bs_stack : str list -> str list **)

let bs_stack gs =
  fold_left (fun st g ->
    if str_eqb g ((Npos (XO (XO (XO XH)))) :: []) then tl st else g :: st) gs
    []

(** val apply_bs : (str -> str list) -> str -> str **)

let apply_bs seg s =
  concat (rev (bs_stack (seg s)))

type vres =
| VValid
| VInvalidMsg
| VInvalid
| VIncomplete
| VError

type dres =
| DLine of str
| DEof
| DErr
| DPanic

(** val dlines_aux : str -> str -> str list **)

let rec dlines_aux inp cur =
  match inp with
  | [] -> (match cur with
           | [] -> []
           | _ :: _ -> (rev cur) :: [])
  | c :: t ->
    if N.eqb c (Npos (XO (XI (XO XH))))
    then (rev (c :: cur)) :: (dlines_aux t [])
    else dlines_aux t (c :: cur)

(** val dlines : str -> str list **)

let dlines inp =
  dlines_aux inp []

(** val ends_with : str -> n -> bool **)

let ends_with s c =
  match rev s with
  | [] -> false
  | x :: _ -> N.eqb x c

(** val pop : str -> str **)

let pop s =
  rev (tl (rev s))

(** val strip_terminator : str -> (str * bool) * bool **)

let strip_terminator s =
  if ends_with s (Npos (XO (XI (XO XH))))
  then let s1 = pop s in
       if ends_with s1 (Npos (XI (XO (XI XH))))
       then (((pop s1), true), true)
       else ((s1, true), false)
  else ((s, false), false)

(** val direct_go :
    (str -> str list) -> (str -> vres) option -> str -> str list -> dres list **)

let rec direct_go seg v acc = function
| [] -> DEof :: []
| l :: t ->
  let (p, tr) = strip_terminator (app acc l) in
  let (s, tn) = p in
  (match apply_bs_impl seg s with
   | Ok inp ->
     (match v with
      | Some vf ->
        (match vf inp with
         | VValid -> (DLine inp) :: (direct_go seg v [] t)
         | VIncomplete ->
           direct_go seg v
             (app inp
               (app (if tr then (Npos (XI (XO (XI XH)))) :: [] else [])
                 (if tn then (Npos (XO (XI (XO XH)))) :: [] else []))) t
         | VError -> DErr :: (direct_go seg v [] t)
         | _ -> direct_go seg v inp t)
      | None -> (DLine inp) :: (direct_go seg v [] t))
   | Panic -> DPanic :: [])

(** val direct_all :
    (str -> str list) -> (str -> vres) option -> str -> dres list **)

let direct_all seg v input =
  direct_go seg v [] (dlines input)

(** val brackets_go : str -> n list -> vres **)

let rec brackets_go s stack =
  match s with
  | [] -> (match stack with
           | [] -> VValid
           | _ :: _ -> VIncomplete)
  | c :: t ->
    if (||)
         ((||) (N.eqb c (Npos (XO (XO (XO (XI (XO XH)))))))
           (N.eqb c (Npos (XI (XI (XO (XI (XI (XO XH)))))))))
         (N.eqb c (Npos (XI (XI (XO (XI (XI (XI XH))))))))
    then brackets_go t (c :: stack)
    else if (||)
              ((||) (N.eqb c (Npos (XI (XO (XO (XI (XO XH)))))))
                (N.eqb c (Npos (XI (XO (XI (XI (XI (XO XH)))))))))
              (N.eqb c (Npos (XI (XO (XI (XI (XI (XI XH))))))))
         then (match stack with
               | [] -> VInvalidMsg
               | o :: st ->
                 if (||)
                      ((||)
                        ((&&) (N.eqb o (Npos (XO (XO (XO (XI (XO XH)))))))
                          (N.eqb c (Npos (XI (XO (XO (XI (XO XH))))))))
                        ((&&)
                          (N.eqb o (Npos (XI (XI (XO (XI (XI (XO XH))))))))
                          (N.eqb c (Npos (XI (XO (XI (XI (XI (XO XH))))))))))
                      ((&&) (N.eqb o (Npos (XI (XI (XO (XI (XI (XI XH))))))))
                        (N.eqb c (Npos (XI (XO (XI (XI (XI (XI XH)))))))))
                 then brackets_go t st
                 else VInvalidMsg)
         else brackets_go t stack

(** val bracket_validator : str -> vres **)

let bracket_validator s =
  brackets_go s []

(** val mem_N : n -> n list -> bool **)

let rec mem_N c = function
| [] -> false
| x :: t -> (||) (N.eqb x c) (mem_N c t)

(** val is_break0 : n -> bool **)

let is_break0 c =
  mem_N c default_break_chars

(** val is_dq_special : n -> bool **)

let is_dq_special c =
  mem_N c double_quotes_special_chars

type quote =
| QDouble
| QSingle
| QNone

(** val unescape : n -> str -> str **)

let rec unescape esc0 = function
| [] -> []
| c :: t ->
  if N.eqb c esc0
  then (match t with
        | [] -> []
        | d :: t' -> d :: (unescape esc0 t'))
  else c :: (unescape esc0 t)

(** val escape : n -> (n -> bool) -> quote -> str -> str **)

let escape esc0 brk q s =
  match q with
  | QSingle -> s
  | _ -> flat_map (fun c -> if brk c then esc0 :: (c :: []) else c :: []) s

(** val extract_go :
    n -> (n -> bool) -> n list -> nat option -> nat -> nat **)

let rec extract_go esc0 brk rev_line pending0 acc =
  match rev_line with
  | [] -> (match pending0 with
           | Some n0 -> n0
           | None -> acc)
  | c :: t ->
    (match pending0 with
     | Some n0 ->
       if N.eqb c esc0
       then extract_go esc0 brk t None (add acc (clen c))
       else n0
     | None ->
       if brk c
       then extract_go esc0 brk t (Some acc) (add acc (clen c))
       else extract_go esc0 brk t None (add acc (clen c)))

(** val extract_word : n -> (n -> bool) -> str -> nat * str **)

let extract_word esc0 brk line =
  let n0 = extract_go esc0 brk (rev line) None O in
  let start = sub (blen line) n0 in
  (match bsplit line start with
   | Some p -> let (_, w) = p in (start, w)
   | None -> (start, []))

type scan_mode =
| MNormal
| MDouble
| MEscape
| MEscapeInDouble
| MSingle

(** val scan : str -> scan_mode -> nat -> nat -> scan_mode * nat **)

let rec scan s mode idx qidx =
  match s with
  | [] -> (mode, qidx)
  | c :: t ->
    let next = add idx (clen c) in
    (match mode with
     | MNormal ->
       if N.eqb c (Npos (XO (XI (XO (XO (XO XH))))))
       then scan t MDouble next idx
       else if N.eqb c (Npos (XO (XO (XI (XI (XI (XO XH)))))))
            then scan t MEscape next qidx
            else if N.eqb c (Npos (XI (XI (XI (XO (XO XH))))))
                 then scan t MSingle next idx
                 else scan t MNormal next qidx
     | MDouble ->
       if N.eqb c (Npos (XO (XI (XO (XO (XO XH))))))
       then scan t MNormal next qidx
       else if N.eqb c (Npos (XO (XO (XI (XI (XI (XO XH)))))))
            then scan t MEscapeInDouble next qidx
            else scan t MDouble next qidx
     | MEscape -> scan t MNormal next qidx
     | MEscapeInDouble -> scan t MDouble next qidx
     | MSingle ->
       if N.eqb c (Npos (XI (XI (XI (XO (XO XH))))))
       then scan t MNormal next qidx
       else scan t MSingle next qidx)

(** val find_unclosed_quote : str -> (nat * quote) option **)

let find_unclosed_quote s =
  let (s0, i) = scan s MNormal O O in
  (match s0 with
   | MNormal -> None
   | MEscape -> None
   | MSingle -> Some (i, QSingle)
   | _ -> Some (i, QDouble))

(** val all_adjacent_agree : nat -> n list list -> bool **)

let rec all_adjacent_agree k = function
| [] -> true
| b1 :: t ->
  (match t with
   | [] -> true
   | b2 :: _ ->
     (match nth_error b1 k with
      | Some x ->
        (match nth_error b2 k with
         | Some y -> (&&) (N.eqb x y) (all_adjacent_agree k t)
         | None -> false)
      | None -> false))

(** val lcp_len : nat -> nat -> n list list -> nat **)

let rec lcp_len fuel k bs =
  match fuel with
  | O -> k
  | S f -> if all_adjacent_agree k bs then lcp_len f (S k) bs else k

(** val backoff : str -> nat -> nat **)

let rec backoff s n0 = match n0 with
| O -> O
| S m -> if is_boundary s n0 then n0 else backoff s m

(** val longest_common_prefix : str list -> str option **)

let longest_common_prefix cands = match cands with
| [] -> None
| c0 :: l ->
  (match l with
   | [] -> Some c0
   | _ :: _ ->
     let bs = map encode cands in
     let n0 = lcp_len (S (length (encode c0))) O bs in
     let n' = backoff c0 n0 in
     if Nat.eqb n' O
     then None
     else (match bsplit c0 n' with
           | Some p -> let (l0, _) = p in Some l0
           | None -> None))

type dentry = { d_name : str; d_is_dir : bool; d_children : (str * bool) list }

(** val sep : n **)

let sep =
  Npos (XI (XI (XI (XI (XO XH)))))

(** val rsplit_sep : str -> str * str **)

let rec rsplit_sep = function
| [] -> ([], [])
| c :: t ->
  let (d, f) = rsplit_sep t in
  (match d with
   | [] -> if N.eqb c sep then ((c :: []), f) else ([], (c :: f))
   | _ :: _ -> ((c :: d), f))

(** val lookup_dir : dentry list -> str -> (str * bool) list option **)

let lookup_dir root dir_name = match dir_name with
| [] -> Some (map (fun d -> (d.d_name, d.d_is_dir)) root)
| _ :: _ ->
  let name = removelast dir_name in
  (match find (fun d -> (&&) (str_eqb d.d_name name) d.d_is_dir) root with
   | Some d -> if mem_N sep name then None else Some d.d_children
   | None -> None)

(** val filename_complete :
    dentry list -> str -> n option -> (n -> bool) -> quote -> (str * str) list **)

let filename_complete root path esc0 brk q =
  let (dir_name, file_name) = rsplit_sep path in
  (match lookup_dir root dir_name with
   | Some ents ->
     flat_map (fun e ->
       let (name, isdir) = e in
       if prefix_b file_name name
       then let p = app dir_name (app name (if isdir then sep :: [] else []))
            in
            (name,
            (match esc0 with
             | Some ec -> escape ec brk q p
             | None -> p)) :: []
       else []) ents
   | None -> [])

(** val complete_path : dentry list -> str -> nat * (str * str) list **)

let complete_path root line =
  match find_unclosed_quote line with
  | Some p ->
    let (idx, q) = p in
    (match q with
     | QDouble ->
       let start = add idx (S O) in
       let word =
         match bsplit line start with
         | Some p0 -> let (_, w) = p0 in w
         | None -> []
       in
       (start,
       (filename_complete root (unescape double_quotes_escape_char word)
         (Some double_quotes_escape_char) is_dq_special QDouble))
     | _ ->
       let start = add idx (S O) in
       let word =
         match bsplit line start with
         | Some p0 -> let (_, w) = p0 in w
         | None -> []
       in
       (start, (filename_complete root word None is_break0 q)))
  | None ->
    let (start, word) = extract_word escape_char is_break0 line in
    (start,
    (filename_complete root (unescape escape_char word) (Some escape_char)
      is_break0 QNone))
