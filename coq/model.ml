
(** val negb : bool -> bool **)

let negb = function
| true -> false
| false -> true

type nat =
| O
| S of nat

(** val fst : ('a1 * 'a2) -> 'a1 **)

let fst = function
| (x, _) -> x

(** val snd : ('a1 * 'a2) -> 'a2 **)

let snd = function
| (_, y) -> y

(** val length : 'a1 list -> nat **)

let rec length = function
| [] -> O
| _ :: l' -> S (length l')

(** val app : 'a1 list -> 'a1 list -> 'a1 list **)

let rec app l m0 =
  match l with
  | [] -> m0
  | a :: l1 -> a :: (app l1 m0)

type comparison =
| Eq
| Lt
| Gt

(** val add : nat -> nat -> nat **)

let rec add n0 m0 =
  match n0 with
  | O -> m0
  | S p -> S (add p m0)

(** val mul : nat -> nat -> nat **)

let rec mul n0 m0 =
  match n0 with
  | O -> O
  | S p -> add m0 (mul p m0)

(** val sub : nat -> nat -> nat **)

let rec sub n0 m0 =
  match n0 with
  | O -> n0
  | S k -> (match m0 with
            | O -> n0
            | S l -> sub k l)

module Nat =
 struct
  (** val eqb : nat -> nat -> bool **)

  let rec eqb n0 m0 =
    match n0 with
    | O -> (match m0 with
            | O -> true
            | S _ -> false)
    | S n' -> (match m0 with
               | O -> false
               | S m' -> eqb n' m')

  (** val leb : nat -> nat -> bool **)

  let rec leb n0 m0 =
    match n0 with
    | O -> true
    | S n' -> (match m0 with
               | O -> false
               | S m' -> leb n' m')

  (** val ltb : nat -> nat -> bool **)

  let ltb n0 m0 =
    leb (S n0) m0

  (** val min : nat -> nat -> nat **)

  let rec min n0 m0 =
    match n0 with
    | O -> O
    | S n' -> (match m0 with
               | O -> O
               | S m' -> S (min n' m'))

  (** val even : nat -> bool **)

  let rec even = function
  | O -> true
  | S n1 -> (match n1 with
             | O -> false
             | S n' -> even n')
 end

(** val tl : 'a1 list -> 'a1 list **)

let tl = function
| [] -> []
| _ :: m0 -> m0

(** val nth_error : 'a1 list -> nat -> 'a1 option **)

let rec nth_error l = function
| O -> (match l with
        | [] -> None
        | x :: _ -> Some x)
| S n1 -> (match l with
           | [] -> None
           | _ :: l0 -> nth_error l0 n1)

(** val removelast : 'a1 list -> 'a1 list **)

let rec removelast = function
| [] -> []
| a :: l0 -> (match l0 with
              | [] -> []
              | _ :: _ -> a :: (removelast l0))

(** val rev : 'a1 list -> 'a1 list **)

let rec rev = function
| [] -> []
| x :: l' -> app (rev l') (x :: [])

(** val concat : 'a1 list list -> 'a1 list **)

let rec concat = function
| [] -> []
| x :: l0 -> app x (concat l0)

(** val map : ('a1 -> 'a2) -> 'a1 list -> 'a2 list **)

let rec map f = function
| [] -> []
| a :: t -> (f a) :: (map f t)

(** val flat_map : ('a1 -> 'a2 list) -> 'a1 list -> 'a2 list **)

let rec flat_map f = function
| [] -> []
| x :: t -> app (f x) (flat_map f t)

(** val fold_left : ('a1 -> 'a2 -> 'a1) -> 'a2 list -> 'a1 -> 'a1 **)

let rec fold_left f l a0 =
  match l with
  | [] -> a0
  | b :: t -> fold_left f t (f a0 b)

(** val existsb : ('a1 -> bool) -> 'a1 list -> bool **)

let rec existsb f = function
| [] -> false
| a :: l0 -> (||) (f a) (existsb f l0)

(** val forallb : ('a1 -> bool) -> 'a1 list -> bool **)

let rec forallb f = function
| [] -> true
| a :: l0 -> (&&) (f a) (forallb f l0)

(** val find : ('a1 -> bool) -> 'a1 list -> 'a1 option **)

let rec find f = function
| [] -> None
| x :: tl0 -> if f x then Some x else find f tl0

(** val firstn : nat -> 'a1 list -> 'a1 list **)

let rec firstn n0 l =
  match n0 with
  | O -> []
  | S n1 -> (match l with
             | [] -> []
             | a :: l0 -> a :: (firstn n1 l0))

(** val skipn : nat -> 'a1 list -> 'a1 list **)

let rec skipn n0 l =
  match n0 with
  | O -> l
  | S n1 -> (match l with
             | [] -> []
             | _ :: l0 -> skipn n1 l0)

(** val repeat : 'a1 -> nat -> 'a1 list **)

let rec repeat x = function
| O -> []
| S k -> x :: (repeat x k)

type positive =
| XI of positive
| XO of positive
| XH

type n =
| N0
| Npos of positive

module Pos =
 struct
  type mask =
  | IsNul
  | IsPos of positive
  | IsNeg
 end

module Coq_Pos =
 struct
  (** val succ : positive -> positive **)

  let rec succ = function
  | XI p -> XO (succ p)
  | XO p -> XI p
  | XH -> XO XH

  (** val add : positive -> positive -> positive **)

  let rec add x y =
    match x with
    | XI p ->
      (match y with
       | XI q -> XO (add_carry p q)
       | XO q -> XI (add p q)
       | XH -> XO (succ p))
    | XO p ->
      (match y with
       | XI q -> XI (add p q)
       | XO q -> XO (add p q)
       | XH -> XI p)
    | XH -> (match y with
             | XI q -> XO (succ q)
             | XO q -> XI q
             | XH -> XO XH)

  (** val add_carry : positive -> positive -> positive **)

  and add_carry x y =
    match x with
    | XI p ->
      (match y with
       | XI q -> XI (add_carry p q)
       | XO q -> XO (add_carry p q)
       | XH -> XI (succ p))
    | XO p ->
      (match y with
       | XI q -> XO (add_carry p q)
       | XO q -> XI (add p q)
       | XH -> XO (succ p))
    | XH ->
      (match y with
       | XI q -> XI (succ q)
       | XO q -> XO (succ q)
       | XH -> XI XH)

  (** val pred_double : positive -> positive **)

  let rec pred_double = function
  | XI p -> XI (XO p)
  | XO p -> XI (pred_double p)
  | XH -> XH

  type mask = Pos.mask =
  | IsNul
  | IsPos of positive
  | IsNeg

  (** val succ_double_mask : mask -> mask **)

  let succ_double_mask = function
  | IsNul -> IsPos XH
  | IsPos p -> IsPos (XI p)
  | IsNeg -> IsNeg

  (** val double_mask : mask -> mask **)

  let double_mask = function
  | IsPos p -> IsPos (XO p)
  | x0 -> x0

  (** val double_pred_mask : positive -> mask **)

  let double_pred_mask = function
  | XI p -> IsPos (XO (XO p))
  | XO p -> IsPos (XO (pred_double p))
  | XH -> IsNul

  (** val sub_mask : positive -> positive -> mask **)

  let rec sub_mask x y =
    match x with
    | XI p ->
      (match y with
       | XI q -> double_mask (sub_mask p q)
       | XO q -> succ_double_mask (sub_mask p q)
       | XH -> IsPos (XO p))
    | XO p ->
      (match y with
       | XI q -> succ_double_mask (sub_mask_carry p q)
       | XO q -> double_mask (sub_mask p q)
       | XH -> IsPos (pred_double p))
    | XH -> (match y with
             | XH -> IsNul
             | _ -> IsNeg)

  (** val sub_mask_carry : positive -> positive -> mask **)

  and sub_mask_carry x y =
    match x with
    | XI p ->
      (match y with
       | XI q -> succ_double_mask (sub_mask_carry p q)
       | XO q -> double_mask (sub_mask p q)
       | XH -> IsPos (pred_double p))
    | XO p ->
      (match y with
       | XI q -> double_mask (sub_mask_carry p q)
       | XO q -> succ_double_mask (sub_mask_carry p q)
       | XH -> double_pred_mask p)
    | XH -> IsNeg

  (** val mul : positive -> positive -> positive **)

  let rec mul x y =
    match x with
    | XI p -> add y (XO (mul p y))
    | XO p -> XO (mul p y)
    | XH -> y

  (** val compare_cont : comparison -> positive -> positive -> comparison **)

  let rec compare_cont r x y =
    match x with
    | XI p ->
      (match y with
       | XI q -> compare_cont r p q
       | XO q -> compare_cont Gt p q
       | XH -> Gt)
    | XO p ->
      (match y with
       | XI q -> compare_cont Lt p q
       | XO q -> compare_cont r p q
       | XH -> Gt)
    | XH -> (match y with
             | XH -> r
             | _ -> Lt)

  (** val compare : positive -> positive -> comparison **)

  let compare =
    compare_cont Eq

  (** val eqb : positive -> positive -> bool **)

  let rec eqb p q =
    match p with
    | XI p0 -> (match q with
                | XI q0 -> eqb p0 q0
                | _ -> false)
    | XO p0 -> (match q with
                | XO q0 -> eqb p0 q0
                | _ -> false)
    | XH -> (match q with
             | XH -> true
             | _ -> false)
 end

module N =
 struct
  (** val succ_double : n -> n **)

  let succ_double = function
  | N0 -> Npos XH
  | Npos p -> Npos (XI p)

  (** val double : n -> n **)

  let double = function
  | N0 -> N0
  | Npos p -> Npos (XO p)

  (** val add : n -> n -> n **)

  let add n0 m0 =
    match n0 with
    | N0 -> m0
    | Npos p -> (match m0 with
                 | N0 -> n0
                 | Npos q -> Npos (Coq_Pos.add p q))

  (** val sub : n -> n -> n **)

  let sub n0 m0 =
    match n0 with
    | N0 -> N0
    | Npos n' ->
      (match m0 with
       | N0 -> n0
       | Npos m' ->
         (match Coq_Pos.sub_mask n' m' with
          | Coq_Pos.IsPos p -> Npos p
          | _ -> N0))

  (** val mul : n -> n -> n **)

  let mul n0 m0 =
    match n0 with
    | N0 -> N0
    | Npos p -> (match m0 with
                 | N0 -> N0
                 | Npos q -> Npos (Coq_Pos.mul p q))

  (** val compare : n -> n -> comparison **)

  let compare n0 m0 =
    match n0 with
    | N0 -> (match m0 with
             | N0 -> Eq
             | Npos _ -> Lt)
    | Npos n' -> (match m0 with
                  | N0 -> Gt
                  | Npos m' -> Coq_Pos.compare n' m')

  (** val eqb : n -> n -> bool **)

  let eqb n0 m0 =
    match n0 with
    | N0 -> (match m0 with
             | N0 -> true
             | Npos _ -> false)
    | Npos p -> (match m0 with
                 | N0 -> false
                 | Npos q -> Coq_Pos.eqb p q)

  (** val leb : n -> n -> bool **)

  let leb x y =
    match compare x y with
    | Gt -> false
    | _ -> true

  (** val ltb : n -> n -> bool **)

  let ltb x y =
    match compare x y with
    | Lt -> true
    | _ -> false

  (** val pos_div_eucl : positive -> n -> n * n **)

  let rec pos_div_eucl a b =
    match a with
    | XI a' ->
      let (q, r) = pos_div_eucl a' b in
      let r' = succ_double r in
      if leb b r' then ((succ_double q), (sub r' b)) else ((double q), r')
    | XO a' ->
      let (q, r) = pos_div_eucl a' b in
      let r' = double r in
      if leb b r' then ((succ_double q), (sub r' b)) else ((double q), r')
    | XH ->
      (match b with
       | N0 -> (N0, (Npos XH))
       | Npos p -> (match p with
                    | XH -> ((Npos XH), N0)
                    | _ -> (N0, (Npos XH))))

  (** val div_eucl : n -> n -> n * n **)

  let div_eucl a b =
    match a with
    | N0 -> (N0, N0)
    | Npos na -> (match b with
                  | N0 -> (N0, a)
                  | Npos _ -> pos_div_eucl na b)

  (** val div : n -> n -> n **)

  let div a b =
    fst (div_eucl a b)

  (** val modulo : n -> n -> n **)

  let modulo a b =
    snd (div_eucl a b)
 end

type 'a res =
| Ok of 'a
| Panic

(** val omap : ('a1 -> 'a2) -> 'a1 option -> 'a2 option **)

let omap f = function
| Some a -> Some (f a)
| None -> None

type str = n list

(** val clen : n -> nat **)

let clen c =
  if N.ltb c (Npos (XO (XO (XO (XO (XO (XO (XO XH))))))))
  then S O
  else if N.ltb c (Npos (XO (XO (XO (XO (XO (XO (XO (XO (XO (XO (XO
            XH))))))))))))
       then S (S O)
       else if N.ltb c (Npos (XO (XO (XO (XO (XO (XO (XO (XO (XO (XO (XO (XO
                 (XO (XO (XO (XO XH)))))))))))))))))
            then S (S (S O))
            else S (S (S (S O)))

(** val blen : str -> nat **)

let rec blen = function
| [] -> O
| c :: t -> add (clen c) (blen t)

(** val valid_char : n -> bool **)

let valid_char c =
  (||)
    (N.ltb c (Npos (XO (XO (XO (XO (XO (XO (XO (XO (XO (XO (XO (XI (XI (XO
      (XI XH)))))))))))))))))
    ((&&)
      (N.leb (Npos (XO (XO (XO (XO (XO (XO (XO (XO (XO (XO (XO (XO (XO (XI
        (XI XH)))))))))))))))) c)
      (N.leb c (Npos (XI (XI (XI (XI (XI (XI (XI (XI (XI (XI (XI (XI (XI (XI
        (XI (XI (XO (XO (XO (XO XH)))))))))))))))))))))))

(** val bsplit : str -> nat -> (str * str) option **)

let rec bsplit s p = match p with
| O -> Some ([], s)
| S _ ->
  (match s with
   | [] -> None
   | c :: t ->
     if Nat.leb (clen c) p
     then (match bsplit t (sub p (clen c)) with
           | Some p0 -> let (l, r) = p0 in Some ((c :: l), r)
           | None -> None)
     else None)

(** val is_boundary : str -> nat -> bool **)

let is_boundary s p =
  match bsplit s p with
  | Some _ -> true
  | None -> false

(** val str_eqb : str -> str -> bool **)

let rec str_eqb a b =
  match a with
  | [] -> (match b with
           | [] -> true
           | _ :: _ -> false)
  | x :: a' ->
    (match b with
     | [] -> false
     | y :: b' -> (&&) (N.eqb x y) (str_eqb a' b'))

(** val prefix_b : str -> str -> bool **)

let rec prefix_b p s =
  match p with
  | [] -> true
  | x :: p' ->
    (match s with
     | [] -> false
     | y :: s' -> (&&) (N.eqb x y) (prefix_b p' s'))

(** val find_sub : str -> str -> nat option **)

let rec find_sub t s =
  if prefix_b t s
  then Some O
  else (match s with
        | [] -> None
        | c :: s' ->
          (match find_sub t s' with
           | Some k -> Some (add (clen c) k)
           | None -> None))

type gcat =
| GC_Any
| GC_CR
| GC_Control
| GC_Extend
| GC_ExtPict
| GC_InCBConsonant
| GC_L
| GC_LF
| GC_LV
| GC_LVT
| GC_Prepend
| GC_RI
| GC_SpacingMark
| GC_T
| GC_V
| GC_ZWJ

type uData = { u_is_whitespace : (n -> bool);
               u_is_alphanumeric : (n -> bool);
               u_is_alphabetic : (n -> bool); u_is_control : (n -> bool);
               u_is_lowercase : (n -> bool); u_is_uppercase : (n -> bool);
               u_to_upper : (n -> n list); u_to_lower : (n -> n list);
               u_width : (n -> nat); u_gcat : (n -> gcat);
               u_incb_extend : (n -> bool); u_incb_linker : (n -> bool) }

(** val gcat_eqb : gcat -> gcat -> bool **)

let gcat_eqb a b =
  match a with
  | GC_Any -> (match b with
               | GC_Any -> true
               | _ -> false)
  | GC_CR -> (match b with
              | GC_CR -> true
              | _ -> false)
  | GC_Control -> (match b with
                   | GC_Control -> true
                   | _ -> false)
  | GC_Extend -> (match b with
                  | GC_Extend -> true
                  | _ -> false)
  | GC_ExtPict -> (match b with
                   | GC_ExtPict -> true
                   | _ -> false)
  | GC_InCBConsonant -> (match b with
                         | GC_InCBConsonant -> true
                         | _ -> false)
  | GC_L -> (match b with
             | GC_L -> true
             | _ -> false)
  | GC_LF -> (match b with
              | GC_LF -> true
              | _ -> false)
  | GC_LV -> (match b with
              | GC_LV -> true
              | _ -> false)
  | GC_LVT -> (match b with
               | GC_LVT -> true
               | _ -> false)
  | GC_Prepend -> (match b with
                   | GC_Prepend -> true
                   | _ -> false)
  | GC_RI -> (match b with
              | GC_RI -> true
              | _ -> false)
  | GC_SpacingMark -> (match b with
                       | GC_SpacingMark -> true
                       | _ -> false)
  | GC_T -> (match b with
             | GC_T -> true
             | _ -> false)
  | GC_V -> (match b with
             | GC_V -> true
             | _ -> false)
  | GC_ZWJ -> (match b with
               | GC_ZWJ -> true
               | _ -> false)

(** val gcat_of : uData -> n -> gcat **)

let gcat_of u c =
  if N.leb c (Npos (XO (XI (XI (XI (XI (XI XH)))))))
  then if N.leb (Npos (XO (XO (XO (XO (XO XH)))))) c
       then GC_Any
       else if N.eqb c (Npos (XO (XI (XO XH))))
            then GC_LF
            else if N.eqb c (Npos (XI (XO (XI XH))))
                 then GC_CR
                 else GC_Control
  else u.u_gcat c

type pair_result =
| PNotBreak
| PBreak
| PExtended
| PInCb
| PRegional
| PEmoji

(** val is_ctl : gcat -> bool **)

let is_ctl = function
| GC_CR -> true
| GC_Control -> true
| GC_LF -> true
| _ -> false

(** val check_pair : gcat -> gcat -> pair_result **)

let check_pair b a =
  match b with
  | GC_CR ->
    (match a with
     | GC_LF -> PNotBreak
     | _ ->
       if is_ctl b
       then PBreak
       else if is_ctl a
            then PBreak
            else (match b with
                  | GC_L ->
                    (match a with
                     | GC_Extend -> PNotBreak
                     | GC_InCBConsonant -> PInCb
                     | GC_L -> PNotBreak
                     | GC_LV -> PNotBreak
                     | GC_LVT -> PNotBreak
                     | GC_SpacingMark -> PExtended
                     | GC_V -> PNotBreak
                     | GC_ZWJ -> PNotBreak
                     | _ -> PBreak)
                  | GC_LV ->
                    (match a with
                     | GC_Extend -> PNotBreak
                     | GC_InCBConsonant -> PInCb
                     | GC_SpacingMark -> PExtended
                     | GC_T -> PNotBreak
                     | GC_V -> PNotBreak
                     | GC_ZWJ -> PNotBreak
                     | _ -> PBreak)
                  | GC_LVT ->
                    (match a with
                     | GC_Extend -> PNotBreak
                     | GC_InCBConsonant -> PInCb
                     | GC_SpacingMark -> PExtended
                     | GC_T -> PNotBreak
                     | GC_ZWJ -> PNotBreak
                     | _ -> PBreak)
                  | GC_Prepend ->
                    (match a with
                     | GC_Extend -> PNotBreak
                     | GC_ZWJ -> PNotBreak
                     | _ -> PExtended)
                  | GC_RI ->
                    (match a with
                     | GC_Extend -> PNotBreak
                     | GC_InCBConsonant -> PInCb
                     | GC_RI -> PRegional
                     | GC_SpacingMark -> PExtended
                     | GC_ZWJ -> PNotBreak
                     | _ -> PBreak)
                  | GC_T ->
                    (match a with
                     | GC_Extend -> PNotBreak
                     | GC_InCBConsonant -> PInCb
                     | GC_SpacingMark -> PExtended
                     | GC_T -> PNotBreak
                     | GC_ZWJ -> PNotBreak
                     | _ -> PBreak)
                  | GC_V ->
                    (match a with
                     | GC_Extend -> PNotBreak
                     | GC_InCBConsonant -> PInCb
                     | GC_SpacingMark -> PExtended
                     | GC_T -> PNotBreak
                     | GC_V -> PNotBreak
                     | GC_ZWJ -> PNotBreak
                     | _ -> PBreak)
                  | GC_ZWJ ->
                    (match a with
                     | GC_Extend -> PNotBreak
                     | GC_ExtPict -> PEmoji
                     | GC_InCBConsonant -> PInCb
                     | GC_SpacingMark -> PExtended
                     | GC_ZWJ -> PNotBreak
                     | _ -> PBreak)
                  | _ ->
                    (match a with
                     | GC_Extend -> PNotBreak
                     | GC_InCBConsonant -> PInCb
                     | GC_SpacingMark -> PExtended
                     | GC_ZWJ -> PNotBreak
                     | _ -> PBreak)))
  | _ ->
    if is_ctl b
    then PBreak
    else if is_ctl a
         then PBreak
         else (match b with
               | GC_L ->
                 (match a with
                  | GC_Extend -> PNotBreak
                  | GC_InCBConsonant -> PInCb
                  | GC_L -> PNotBreak
                  | GC_LV -> PNotBreak
                  | GC_LVT -> PNotBreak
                  | GC_SpacingMark -> PExtended
                  | GC_V -> PNotBreak
                  | GC_ZWJ -> PNotBreak
                  | _ -> PBreak)
               | GC_LV ->
                 (match a with
                  | GC_Extend -> PNotBreak
                  | GC_InCBConsonant -> PInCb
                  | GC_SpacingMark -> PExtended
                  | GC_T -> PNotBreak
                  | GC_V -> PNotBreak
                  | GC_ZWJ -> PNotBreak
                  | _ -> PBreak)
               | GC_LVT ->
                 (match a with
                  | GC_Extend -> PNotBreak
                  | GC_InCBConsonant -> PInCb
                  | GC_SpacingMark -> PExtended
                  | GC_T -> PNotBreak
                  | GC_ZWJ -> PNotBreak
                  | _ -> PBreak)
               | GC_Prepend ->
                 (match a with
                  | GC_Extend -> PNotBreak
                  | GC_ZWJ -> PNotBreak
                  | _ -> PExtended)
               | GC_RI ->
                 (match a with
                  | GC_Extend -> PNotBreak
                  | GC_InCBConsonant -> PInCb
                  | GC_RI -> PRegional
                  | GC_SpacingMark -> PExtended
                  | GC_ZWJ -> PNotBreak
                  | _ -> PBreak)
               | GC_T ->
                 (match a with
                  | GC_Extend -> PNotBreak
                  | GC_InCBConsonant -> PInCb
                  | GC_SpacingMark -> PExtended
                  | GC_T -> PNotBreak
                  | GC_ZWJ -> PNotBreak
                  | _ -> PBreak)
               | GC_V ->
                 (match a with
                  | GC_Extend -> PNotBreak
                  | GC_InCBConsonant -> PInCb
                  | GC_SpacingMark -> PExtended
                  | GC_T -> PNotBreak
                  | GC_V -> PNotBreak
                  | GC_ZWJ -> PNotBreak
                  | _ -> PBreak)
               | GC_ZWJ ->
                 (match a with
                  | GC_Extend -> PNotBreak
                  | GC_ExtPict -> PEmoji
                  | GC_InCBConsonant -> PInCb
                  | GC_SpacingMark -> PExtended
                  | GC_ZWJ -> PNotBreak
                  | _ -> PBreak)
               | _ ->
                 (match a with
                  | GC_Extend -> PNotBreak
                  | GC_InCBConsonant -> PInCb
                  | GC_SpacingMark -> PExtended
                  | GC_ZWJ -> PNotBreak
                  | _ -> PBreak))

(** val incb_break : uData -> n list -> bool -> bool **)

let rec incb_break u rb seen_linker =
  match rb with
  | [] -> true
  | c :: t ->
    if u.u_incb_linker c
    then incb_break u t true
    else if u.u_incb_extend c
         then incb_break u t seen_linker
         else negb
                ((&&) seen_linker (gcat_eqb (gcat_of u c) GC_InCBConsonant))

(** val ri_run : uData -> n list -> nat **)

let rec ri_run u = function
| [] -> O
| c :: t -> if gcat_eqb (gcat_of u c) GC_RI then S (ri_run u t) else O

(** val emoji_break : uData -> n list -> bool **)

let rec emoji_break u = function
| [] -> true
| c :: t ->
  (match gcat_of u c with
   | GC_Extend -> emoji_break u t
   | GC_ExtPict -> false
   | _ -> true)

(** val is_break : uData -> n list -> n -> bool **)

let is_break u rb a =
  match rb with
  | [] -> true
  | b :: rest ->
    (match check_pair (gcat_of u b) (gcat_of u a) with
     | PBreak -> true
     | PInCb -> incb_break u rb false
     | PRegional -> Nat.even (ri_run u rb)
     | PEmoji -> emoji_break u rest
     | _ -> false)

(** val seg_go : uData -> n list -> n list -> str -> str list **)

let rec seg_go u rb cur = function
| [] -> (match cur with
         | [] -> []
         | _ :: _ -> (rev cur) :: [])
| c :: t ->
  (match cur with
   | [] -> seg_go u (c :: rb) (c :: []) t
   | _ :: _ ->
     if is_break u rb c
     then (rev cur) :: (seg_go u (c :: rb) (c :: []) t)
     else seg_go u (c :: rb) (c :: cur) t)

(** val useg : uData -> str -> str list **)

let useg u s =
  seg_go u [] [] s

(** val encode_char : n -> n list **)

let encode_char c =
  if N.ltb c (Npos (XO (XO (XO (XO (XO (XO (XO XH))))))))
  then c :: []
  else if N.ltb c (Npos (XO (XO (XO (XO (XO (XO (XO (XO (XO (XO (XO
            XH))))))))))))
       then (N.add (Npos (XO (XO (XO (XO (XO (XO (XI XH))))))))
              (N.div c (Npos (XO (XO (XO (XO (XO (XO XH))))))))) :: (
              (N.add (Npos (XO (XO (XO (XO (XO (XO (XO XH))))))))
                (N.modulo c (Npos (XO (XO (XO (XO (XO (XO XH))))))))) :: [])
       else if N.ltb c (Npos (XO (XO (XO (XO (XO (XO (XO (XO (XO (XO (XO (XO
                 (XO (XO (XO (XO XH)))))))))))))))))
            then (N.add (Npos (XO (XO (XO (XO (XO (XI (XI XH))))))))
                   (N.div c (Npos (XO (XO (XO (XO (XO (XO (XO (XO (XO (XO (XO
                     (XO XH))))))))))))))) :: ((N.add (Npos (XO (XO (XO (XO
                                                 (XO (XO (XO XH))))))))
                                                 (N.modulo
                                                   (N.div c (Npos (XO (XO (XO
                                                     (XO (XO (XO XH))))))))
                                                   (Npos (XO (XO (XO (XO (XO
                                                   (XO XH))))))))) :: (
                   (N.add (Npos (XO (XO (XO (XO (XO (XO (XO XH))))))))
                     (N.modulo c (Npos (XO (XO (XO (XO (XO (XO XH))))))))) :: []))
            else (N.add (Npos (XO (XO (XO (XO (XI (XI (XI XH))))))))
                   (N.div c (Npos (XO (XO (XO (XO (XO (XO (XO (XO (XO (XO (XO
                     (XO (XO (XO (XO (XO (XO (XO XH))))))))))))))))))))) :: (
                   (N.add (Npos (XO (XO (XO (XO (XO (XO (XO XH))))))))
                     (N.modulo
                       (N.div c (Npos (XO (XO (XO (XO (XO (XO (XO (XO (XO (XO
                         (XO (XO XH)))))))))))))) (Npos (XO (XO (XO (XO (XO
                       (XO XH))))))))) :: ((N.add (Npos (XO (XO (XO (XO (XO
                                             (XO (XO XH))))))))
                                             (N.modulo
                                               (N.div c (Npos (XO (XO (XO (XO
                                                 (XO (XO XH)))))))) (Npos (XO
                                               (XO (XO (XO (XO (XO XH))))))))) :: (
                   (N.add (Npos (XO (XO (XO (XO (XO (XO (XO XH))))))))
                     (N.modulo c (Npos (XO (XO (XO (XO (XO (XO XH))))))))) :: [])))

(** val encode : str -> n list **)

let encode s =
  flat_map encode_char s

(** val is_cont : n -> bool **)

let is_cont b =
  (&&) (N.leb (Npos (XO (XO (XO (XO (XO (XO (XO XH)))))))) b)
    (N.ltb b (Npos (XO (XO (XO (XO (XO (XO (XI XH)))))))))

(** val decode1 : n list -> (n * n list) option **)

let decode1 = function
| [] -> None
| b0 :: t0 ->
  if N.ltb b0 (Npos (XO (XO (XO (XO (XO (XO (XO XH))))))))
  then Some (b0, t0)
  else if N.ltb b0 (Npos (XO (XO (XO (XO (XO (XO (XI XH))))))))
       then None
       else if N.ltb b0 (Npos (XO (XO (XO (XO (XO (XI (XI XH))))))))
            then (match t0 with
                  | [] -> None
                  | b1 :: t1 ->
                    let c =
                      N.add
                        (N.mul
                          (N.sub b0 (Npos (XO (XO (XO (XO (XO (XO (XI
                            XH))))))))) (Npos (XO (XO (XO (XO (XO (XO
                          XH))))))))
                        (N.sub b1 (Npos (XO (XO (XO (XO (XO (XO (XO
                          XH)))))))))
                    in
                    if (&&) (is_cont b1)
                         (N.leb (Npos (XO (XO (XO (XO (XO (XO (XO XH))))))))
                           c)
                    then Some (c, t1)
                    else None)
            else if N.ltb b0 (Npos (XO (XO (XO (XO (XI (XI (XI XH))))))))
                 then (match t0 with
                       | [] -> None
                       | b1 :: l ->
                         (match l with
                          | [] -> None
                          | b2 :: t2 ->
                            let c =
                              N.add
                                (N.add
                                  (N.mul
                                    (N.sub b0 (Npos (XO (XO (XO (XO (XO (XI
                                      (XI XH))))))))) (Npos (XO (XO (XO (XO
                                    (XO (XO (XO (XO (XO (XO (XO (XO
                                    XH))))))))))))))
                                  (N.mul
                                    (N.sub b1 (Npos (XO (XO (XO (XO (XO (XO
                                      (XO XH))))))))) (Npos (XO (XO (XO (XO
                                    (XO (XO XH)))))))))
                                (N.sub b2 (Npos (XO (XO (XO (XO (XO (XO (XO
                                  XH)))))))))
                            in
                            if (&&)
                                 ((&&) ((&&) (is_cont b1) (is_cont b2))
                                   (N.leb (Npos (XO (XO (XO (XO (XO (XO (XO
                                     (XO (XO (XO (XO XH)))))))))))) c))
                                 (valid_char c)
                            then Some (c, t2)
                            else None))
                 else if N.ltb b0 (Npos (XO (XO (XO (XI (XI (XI (XI XH))))))))
                      then (match t0 with
                            | [] -> None
                            | b1 :: l ->
                              (match l with
                               | [] -> None
                               | b2 :: l0 ->
                                 (match l0 with
                                  | [] -> None
                                  | b3 :: t3 ->
                                    let c =
                                      N.add
                                        (N.add
                                          (N.add
                                            (N.mul
                                              (N.sub b0 (Npos (XO (XO (XO (XO
                                                (XI (XI (XI XH))))))))) (Npos
                                              (XO (XO (XO (XO (XO (XO (XO (XO
                                              (XO (XO (XO (XO (XO (XO (XO (XO
                                              (XO (XO XH))))))))))))))))))))
                                            (N.mul
                                              (N.sub b1 (Npos (XO (XO (XO (XO
                                                (XO (XO (XO XH))))))))) (Npos
                                              (XO (XO (XO (XO (XO (XO (XO (XO
                                              (XO (XO (XO (XO XH)))))))))))))))
                                          (N.mul
                                            (N.sub b2 (Npos (XO (XO (XO (XO
                                              (XO (XO (XO XH))))))))) (Npos
                                            (XO (XO (XO (XO (XO (XO XH)))))))))
                                        (N.sub b3 (Npos (XO (XO (XO (XO (XO
                                          (XO (XO XH)))))))))
                                    in
                                    if (&&)
                                         ((&&)
                                           ((&&)
                                             ((&&) (is_cont b1) (is_cont b2))
                                             (is_cont b3))
                                           (N.leb (Npos (XO (XO (XO (XO (XO
                                             (XO (XO (XO (XO (XO (XO (XO (XO
                                             (XO (XO (XO XH)))))))))))))))))
                                             c))
                                         (N.leb c (Npos (XI (XI (XI (XI (XI
                                           (XI (XI (XI (XI (XI (XI (XI (XI
                                           (XI (XI (XI (XO (XO (XO (XO
                                           XH))))))))))))))))))))))
                                    then Some (c, t3)
                                    else None)))
                      else None

(** val decode_fuel : nat -> n list -> str option **)

let rec decode_fuel fuel bs = match bs with
| [] -> Some []
| _ :: _ ->
  (match fuel with
   | O -> None
   | S f ->
     (match decode1 bs with
      | Some p ->
        let (c, rest) = p in
        (match decode_fuel f rest with
         | Some s -> Some (c :: s)
         | None -> None)
      | None -> None))

(** val decode : n list -> str option **)

let decode bs =
  decode_fuel (length bs) bs

type hist = { h_entries : str list; h_max : nat; h_ign_space : bool;
              h_ign_dups : bool }

(** val hist_new : nat -> bool -> bool -> hist **)

let hist_new max ign_space ign_dups =
  { h_entries = []; h_max = max; h_ign_space = ign_space; h_ign_dups =
    ign_dups }

(** val hlen : hist -> nat **)

let hlen h =
  length h.h_entries

(** val last_opt : 'a1 list -> 'a1 option **)

let rec last_opt = function
| [] -> None
| x :: t -> (match t with
             | [] -> Some x
             | _ :: _ -> last_opt t)

(** val h_ignore : uData -> hist -> str -> bool **)

let h_ignore u h line =
  if Nat.eqb h.h_max O
  then true
  else if match line with
          | [] -> true
          | c :: _ -> (&&) h.h_ign_space (u.u_is_whitespace c)
       then true
       else if h.h_ign_dups
            then (match last_opt h.h_entries with
                  | Some s -> str_eqb s line
                  | None -> false)
            else false

(** val h_insert : hist -> str -> hist **)

let h_insert h line =
  let es = if Nat.eqb (hlen h) h.h_max then tl h.h_entries else h.h_entries in
  { h_entries = (app es (line :: [])); h_max = h.h_max; h_ign_space =
  h.h_ign_space; h_ign_dups = h.h_ign_dups }

(** val h_add : uData -> hist -> str -> hist * bool **)

let h_add u h line =
  if h_ignore u h line then (h, false) else ((h_insert h line), true)

(** val h_set_max_len : hist -> nat -> hist **)

let h_set_max_len h n0 =
  { h_entries =
    (if Nat.ltb n0 (hlen h)
     then skipn (sub (hlen h) n0) h.h_entries
     else h.h_entries); h_max = n0; h_ign_space = h.h_ign_space; h_ign_dups =
    h.h_ign_dups }

(** val h_set_ign_dups : hist -> bool -> hist **)

let h_set_ign_dups h b =
  { h_entries = h.h_entries; h_max = h.h_max; h_ign_space = h.h_ign_space;
    h_ign_dups = b }

(** val h_set_ign_space : hist -> bool -> hist **)

let h_set_ign_space h b =
  { h_entries = h.h_entries; h_max = h.h_max; h_ign_space = b; h_ign_dups =
    h.h_ign_dups }

(** val h_clear : hist -> hist **)

let h_clear h =
  { h_entries = []; h_max = h.h_max; h_ign_space = h.h_ign_space;
    h_ign_dups = h.h_ign_dups }

(** val h_get : hist -> nat -> str option **)

let h_get h i =
  nth_error h.h_entries i

type sdir =
| Forward
| Reverse

(** val find_first :
    (str -> nat option) -> str list -> nat -> ((nat * nat) * str) option **)

let rec find_first test l i =
  match l with
  | [] -> None
  | e :: t ->
    (match test e with
     | Some c -> Some ((i, c), e)
     | None -> find_first test t (S i))

(** val h_search_match :
    hist -> str -> nat -> sdir -> (str -> nat option) -> ((nat * nat) * str)
    option **)

let h_search_match h term start dir test =
  match term with
  | [] -> None
  | _ :: _ ->
    if Nat.leb (hlen h) start
    then None
    else (match dir with
          | Forward ->
            (match find_first test (skipn start h.h_entries) O with
             | Some p ->
               let (p0, e) = p in
               let (i, c) = p0 in Some (((add i start), c), e)
             | None -> None)
          | Reverse ->
            (match find_first test
                     (skipn (sub (sub (hlen h) (S O)) start)
                       (rev h.h_entries)) O with
             | Some p ->
               let (p0, e) = p in
               let (i, c) = p0 in Some (((sub start i), c), e)
             | None -> None))

(** val h_search :
    hist -> str -> nat -> sdir -> ((nat * nat) * str) option **)

let h_search h term start dir =
  h_search_match h term start dir (fun e -> find_sub term e)

(** val h_starts_with :
    hist -> str -> nat -> sdir -> ((nat * nat) * str) option **)

let h_starts_with h term start dir =
  h_search_match h term start dir (fun e ->
    if prefix_b term e then Some (blen term) else None)

type hop =
| HAdd of str
| HAddOwned of str
| HSetMax of nat
| HIgnDups of bool
| HIgnSpace of bool
| HClear
| HGet of nat
| HSearch of str * nat * sdir
| HStartsWith of str * nat * sdir
| HLen

type hout =
| OBool of bool
| OUnit
| OEntry of str option
| OSearch of ((nat * nat) * str) option
| ONat of nat

(** val h_step : uData -> hist -> hop -> hist * hout **)

let h_step u h = function
| HAdd l -> let (h', b) = h_add u h l in (h', (OBool b))
| HAddOwned l -> let (h', b) = h_add u h l in (h', (OBool b))
| HSetMax n0 -> ((h_set_max_len h n0), OUnit)
| HIgnDups b -> ((h_set_ign_dups h b), OUnit)
| HIgnSpace b -> ((h_set_ign_space h b), OUnit)
| HClear -> ((h_clear h), OUnit)
| HGet i -> (h, (OEntry (h_get h i)))
| HSearch (t, s, d) -> (h, (OSearch (h_search h t s d)))
| HStartsWith (t, s, d) -> (h, (OSearch (h_starts_with h t s d)))
| HLen -> (h, (ONat (hlen h)))

(** val h_run : uData -> hist -> hop list -> hist * hout list **)

let rec h_run u h = function
| [] -> (h, [])
| o :: t ->
  let (h1, r) = h_step u h o in let (h2, rs) = h_run u h1 t in (h2, (r :: rs))

(** val file_version_v2 : n list **)

let file_version_v2 =
  (Npos (XI (XI (XO (XO (XO XH)))))) :: ((Npos (XO (XI (XI (XO (XI (XO
    XH))))))) :: ((Npos (XO (XI (XO (XO (XI XH)))))) :: []))

(** val indent_max : nat **)

let indent_max =
  S (S (S (S (S (S (S (S (S (S (S (S (S (S (S (S (S (S (S (S (S (S (S (S (S
    (S (S (S (S (S (S (S O)))))))))))))))))))))))))))))))

(** val default_break_chars : n list **)

let default_break_chars =
  (Npos (XO (XO (XO (XO (XO XH)))))) :: ((Npos (XI (XO (XO XH)))) :: ((Npos
    (XO (XI (XO XH)))) :: ((Npos (XO (XI (XO (XO (XO XH)))))) :: ((Npos (XO
    (XO (XI (XI (XI (XO XH))))))) :: ((Npos (XI (XI (XI (XO (XO
    XH)))))) :: ((Npos (XO (XO (XO (XO (XO (XI XH))))))) :: ((Npos (XO (XO
    (XO (XO (XO (XO XH))))))) :: ((Npos (XO (XO (XI (XO (XO
    XH)))))) :: ((Npos (XO (XI (XI (XI (XI XH)))))) :: ((Npos (XO (XO (XI (XI
    (XI XH)))))) :: ((Npos (XI (XO (XI (XI (XI XH)))))) :: ((Npos (XI (XI (XO
    (XI (XI XH)))))) :: ((Npos (XO (XO (XI (XI (XI (XI XH))))))) :: ((Npos
    (XO (XI (XI (XO (XO XH)))))) :: ((Npos (XI (XI (XO (XI (XI (XI
    XH))))))) :: ((Npos (XO (XO (XO (XI (XO
    XH)))))) :: (N0 :: [])))))))))))))))))

(** val escape_char : n **)

let escape_char =
  Npos (XO (XO (XI (XI (XI (XO XH))))))

(** val double_quotes_special_chars : n list **)

let double_quotes_special_chars =
  (Npos (XO (XI (XO (XO (XO XH)))))) :: ((Npos (XO (XO (XI (XO (XO
    XH)))))) :: ((Npos (XO (XO (XI (XI (XI (XO XH))))))) :: ((Npos (XO (XO
    (XO (XO (XO (XI XH))))))) :: [])))

(** val double_quotes_escape_char : n **)

let double_quotes_escape_char =
  Npos (XO (XO (XI (XI (XI (XO XH))))))

(** val header : n list **)

let header =
  file_version_v2

(** val esc_char : n -> n list **)

let esc_char c =
  if N.eqb c (Npos (XO (XO (XI (XI (XI (XO XH)))))))
  then (Npos (XO (XO (XI (XI (XI (XO XH))))))) :: ((Npos (XO (XO (XI (XI (XI
         (XO XH))))))) :: [])
  else if N.eqb c (Npos (XO (XI (XO XH))))
       then (Npos (XO (XO (XI (XI (XI (XO XH))))))) :: ((Npos (XO (XI (XI (XI
              (XO (XI XH))))))) :: [])
       else if N.eqb c (Npos (XI (XO (XI XH))))
            then (Npos (XO (XO (XI (XI (XI (XO XH))))))) :: ((Npos (XO (XI
                   (XO (XO (XI (XI XH))))))) :: [])
            else c :: []

(** val esc : str -> str **)

let esc s =
  flat_map esc_char s

(** val unesc : str -> str option **)

let rec unesc = function
| [] -> Some []
| c :: t ->
  if N.eqb c (Npos (XO (XO (XI (XI (XI (XO XH)))))))
  then (match t with
        | [] -> Some []
        | d :: t' ->
          if N.eqb d (Npos (XO (XI (XI (XI (XO (XI XH)))))))
          then omap (fun x -> (Npos (XO (XI (XO XH)))) :: x) (unesc t')
          else if N.eqb d (Npos (XO (XO (XI (XI (XI (XO XH)))))))
               then omap (fun x -> (Npos (XO (XO (XI (XI (XI (XO
                      XH))))))) :: x) (unesc t')
               else if N.eqb d (Npos (XO (XI (XO (XO (XI (XI XH)))))))
                    then omap (fun x -> (Npos (XI (XO (XI XH)))) :: x)
                           (unesc t')
                    else None)
  else omap (fun x -> c :: x) (unesc t)

(** val entry_bytes : str -> n list **)

let entry_bytes e =
  app (encode (esc e)) ((Npos (XO (XI (XO XH)))) :: [])

(** val entries_bytes : str list -> n list **)

let entries_bytes es =
  flat_map entry_bytes es

(** val save_bytes : str list -> n list **)

let save_bytes es =
  app header (app ((Npos (XO (XI (XO XH)))) :: []) (entries_bytes es))

(** val split_lines_aux : n list -> n list -> (n list * bool) list **)

let rec split_lines_aux bs cur =
  match bs with
  | [] -> (match cur with
           | [] -> []
           | _ :: _ -> ((rev cur), false) :: [])
  | b :: t ->
    if N.eqb b (Npos (XO (XI (XO XH))))
    then ((rev cur), true) :: (split_lines_aux t [])
    else split_lines_aux t (b :: cur)

(** val split_lines : n list -> (n list * bool) list **)

let split_lines bs =
  split_lines_aux bs []

(** val strip_cr : n list -> n list **)

let strip_cr l =
  match rev l with
  | [] -> l
  | c :: r -> if N.eqb c (Npos (XI (XO (XI XH)))) then rev r else l

(** val decode_line : (n list * bool) -> str option **)

let decode_line = function
| (l, term) ->
  (match decode l with
   | Some _ -> decode (if term then strip_cr l else l)
   | None -> None)

type fhist = { f_mem : hist; f_new : nat; f_pinfo : (nat * nat) option }

(** val f_new_cfg : nat -> bool -> bool -> fhist **)

let f_new_cfg max igs igd =
  { f_mem = (hist_new max igs igd); f_new = O; f_pinfo = None }

(** val f_entries : fhist -> str list **)

let f_entries f =
  f.f_mem.h_entries

(** val f_add : uData -> fhist -> str -> fhist * bool **)

let f_add u f l =
  let (m0, b) = h_add u f.f_mem l in
  if b
  then ({ f_mem = m0; f_new = (Nat.min (S f.f_new) (hlen m0)); f_pinfo =
         f.f_pinfo }, true)
  else (f, false)

(** val f_set_max_len : fhist -> nat -> fhist **)

let f_set_max_len f n0 =
  { f_mem = (h_set_max_len f.f_mem n0); f_new = (Nat.min f.f_new n0);
    f_pinfo = f.f_pinfo }

(** val f_clear : fhist -> fhist **)

let f_clear f =
  { f_mem = (h_clear f.f_mem); f_new = O; f_pinfo = f.f_pinfo }

type loadres =
| LOk of fhist * bool
| LErr of fhist

(** val load_rest :
    uData -> bool -> fhist -> bool -> (n list * bool) list -> loadres **)

let rec load_rest u v2 f app0 = function
| [] -> LOk ({ f_mem = f.f_mem; f_new = O; f_pinfo = f.f_pinfo }, app0)
| lb0 :: t ->
  (match decode_line lb0 with
   | Some line ->
     (match line with
      | [] -> load_rest u v2 f app0 t
      | _ :: _ ->
        let line' =
          if v2
          then (match unesc line with
                | Some s -> s
                | None -> line)
          else line
        in
        let (f', b) = f_add u f line' in load_rest u v2 f' ((&&) app0 b) t)
   | None -> LErr f)

(** val load_from : uData -> fhist -> n list -> loadres **)

let load_from u f bytes =
  match split_lines bytes with
  | [] -> LOk ({ f_mem = f.f_mem; f_new = O; f_pinfo = f.f_pinfo }, false)
  | lb0 :: t ->
    (match decode_line lb0 with
     | Some line ->
       if str_eqb line header
       then load_rest u true f true t
       else let (f', _) = f_add u f line in load_rest u false f' false t
     | None -> LErr f)

type fsys = { fs_content : n list option; fs_mtime : nat }

(** val fs_write : fsys -> n list -> bool -> fsys **)

let fs_write fs bytes tick =
  { fs_content = (Some bytes); fs_mtime =
    (if tick then S fs.fs_mtime else fs.fs_mtime) }

type ioresult =
| IoOk
| IoErr

(** val f_save : fhist -> fsys -> bool -> (fhist * fsys) * ioresult **)

let f_save f fs tick =
  if (||) (Nat.eqb (hlen f.f_mem) O) (Nat.eqb f.f_new O)
  then ((f, fs), IoOk)
  else let fs' = fs_write fs (save_bytes (f_entries f)) tick in
       (({ f_mem = f.f_mem; f_new = O; f_pinfo = (Some (fs'.fs_mtime,
       (hlen f.f_mem))) }, fs'), IoOk)

(** val can_just_append : fhist -> fsys -> bool **)

let can_just_append f fs =
  match f.f_pinfo with
  | Some p ->
    let (pm, psize) = p in
    if (||)
         ((||) (negb (Nat.eqb pm fs.fs_mtime)) (Nat.leb f.f_mem.h_max psize))
         (Nat.ltb f.f_mem.h_max (add psize f.f_new))
    then false
    else true
  | None -> false

(** val pending : fhist -> str list **)

let pending f =
  skipn (sub (hlen f.f_mem) f.f_new) (f_entries f)

(** val f_add_all : uData -> fhist -> str list -> fhist **)

let rec f_add_all u f = function
| [] -> f
| l :: t -> f_add_all u (fst (f_add u f l)) t

(** val f_append :
    uData -> fhist -> fsys -> bool -> (fhist * fsys) * ioresult **)

let f_append u f fs tick =
  if (||) (Nat.eqb (hlen f.f_mem) O) (Nat.eqb f.f_new O)
  then ((f, fs), IoOk)
  else (match fs.fs_content with
        | Some content ->
          if Nat.eqb f.f_new f.f_mem.h_max
          then f_save f fs tick
          else if can_just_append f fs
               then let fs' =
                      fs_write fs (app content (entries_bytes (pending f)))
                        tick
                    in
                    let size =
                      match f.f_pinfo with
                      | Some p -> let (_, s) = p in add s f.f_new
                      | None -> O
                    in
                    (({ f_mem = f.f_mem; f_new = O; f_pinfo = (Some
                    (fs'.fs_mtime, size)) }, fs'), IoOk)
               else let other =
                      f_new_cfg f.f_mem.h_max f.f_mem.h_ign_space
                        f.f_mem.h_ign_dups
                    in
                    (match load_from u other content with
                     | LOk (other1, _) ->
                       let other2 = f_add_all u other1 (pending f) in
                       let fs' =
                         fs_write fs (save_bytes (f_entries other2)) tick
                       in
                       (({ f_mem = f.f_mem; f_new = O; f_pinfo = (Some
                       (fs'.fs_mtime, (hlen other2.f_mem))) }, fs'), IoOk)
                     | LErr _ -> ((f, fs), IoErr))
        | None -> f_save f fs tick)

(** val f_load : uData -> fhist -> fsys -> fhist * ioresult **)

let f_load u f fs =
  match fs.fs_content with
  | Some content ->
    let len = hlen f.f_mem in
    (match load_from u f content with
     | LOk (f', appendable) ->
       if appendable
       then ({ f_mem = f'.f_mem; f_new = f'.f_new; f_pinfo = (Some
              (fs.fs_mtime, (sub (hlen f'.f_mem) len))) }, IoOk)
       else ({ f_mem = f'.f_mem; f_new = f'.f_new; f_pinfo = None }, IoOk)
     | LErr f' -> (f', IoErr))
  | None -> (f, IoErr)

type fop =
| FNew of nat * nat * bool * bool
| FAdd of nat * str
| FSave of nat * bool
| FAppend of nat * bool
| FLoad of nat
| FSetMax of nat * nat
| FClear of nat
| FPut of n list * bool
| FRemove

type world = { w_sessions : (nat * fhist) list; w_fs : fsys }

(** val w_init : world **)

let w_init =
  { w_sessions = []; w_fs = { fs_content = None; fs_mtime = O } }

(** val sess_get : (nat * fhist) list -> nat -> fhist option **)

let rec sess_get ss i =
  match ss with
  | [] -> None
  | p :: t -> let (j, f) = p in if Nat.eqb i j then Some f else sess_get t i

(** val sess_set :
    (nat * fhist) list -> nat -> fhist -> (nat * fhist) list **)

let rec sess_set ss i f =
  match ss with
  | [] -> (i, f) :: []
  | p :: t ->
    let (j, g) = p in
    if Nat.eqb i j then (j, f) :: t else (j, g) :: (sess_set t i f)

type fout =
| FoUnit
| FoBool of bool
| FoIo of ioresult
| FoNoSession

(** val w_step : uData -> world -> fop -> world * fout **)

let w_step u w o =
  let ss = w.w_sessions in
  let fs = w.w_fs in
  let with_sess = fun i k ->
    match sess_get ss i with
    | Some f -> k f
    | None -> (w, FoNoSession)
  in
  (match o with
   | FNew (i, max, igs, igd) ->
     ({ w_sessions = (sess_set ss i (f_new_cfg max igs igd)); w_fs = fs },
       FoUnit)
   | FAdd (i, l) ->
     with_sess i (fun f ->
       let (f', b) = f_add u f l in
       ({ w_sessions = (sess_set ss i f'); w_fs = fs }, (FoBool b)))
   | FSave (i, tick) ->
     with_sess i (fun f ->
       let (p, r) = f_save f fs tick in
       let (f', fs') = p in
       ({ w_sessions = (sess_set ss i f'); w_fs = fs' }, (FoIo r)))
   | FAppend (i, tick) ->
     with_sess i (fun f ->
       let (p, r) = f_append u f fs tick in
       let (f', fs') = p in
       ({ w_sessions = (sess_set ss i f'); w_fs = fs' }, (FoIo r)))
   | FLoad i ->
     with_sess i (fun f ->
       let (f', r) = f_load u f fs in
       ({ w_sessions = (sess_set ss i f'); w_fs = fs }, (FoIo r)))
   | FSetMax (i, n0) ->
     with_sess i (fun f -> ({ w_sessions =
       (sess_set ss i (f_set_max_len f n0)); w_fs = fs }, FoUnit))
   | FClear i ->
     with_sess i (fun f -> ({ w_sessions = (sess_set ss i (f_clear f));
       w_fs = fs }, FoUnit))
   | FPut (bytes, tick) ->
     ({ w_sessions = ss; w_fs = (fs_write fs bytes tick) }, FoUnit)
   | FRemove ->
     ({ w_sessions = ss; w_fs = { fs_content = None; fs_mtime =
       fs.fs_mtime } }, FoUnit))

type fobs = { ob_out : fout; ob_entries : str list; ob_file : n list option }

(** val fop_session : fop -> nat option **)

let fop_session = function
| FNew (i, _, _, _) -> Some i
| FAdd (i, _) -> Some i
| FSave (i, _) -> Some i
| FAppend (i, _) -> Some i
| FLoad i -> Some i
| FSetMax (i, _) -> Some i
| FClear i -> Some i
| _ -> None

(** val w_observe : world -> fop -> fout -> fobs **)

let w_observe w o out =
  { ob_out = out; ob_entries =
    (match fop_session o with
     | Some i ->
       (match sess_get w.w_sessions i with
        | Some f -> f_entries f
        | None -> [])
     | None -> []); ob_file = w.w_fs.fs_content }

(** val w_run : uData -> world -> fop list -> fobs list **)

let rec w_run u w = function
| [] -> []
| o :: t ->
  let (w', out) = w_step u w o in (w_observe w' o out) :: (w_run u w' t)

(** val str_truncate : str -> nat -> str res **)

let str_truncate s n0 =
  if Nat.ltb (blen s) n0
  then Ok s
  else (match bsplit s n0 with
        | Some p -> let (l, _) = p in Ok l
        | None -> Panic)

(** val apply_bs_go : str list -> str -> nat list -> str res **)

let rec apply_bs_go gs out sizes =
  match gs with
  | [] -> Ok out
  | g :: t ->
    if str_eqb g ((Npos (XO (XO (XO XH)))) :: [])
    then (match sizes with
          | [] -> apply_bs_go t out sizes
          | n0 :: sizes' ->
            if Nat.ltb (blen out) n0
            then Panic
            else (match str_truncate out (sub (blen out) n0) with
                  | Ok out' -> apply_bs_go t out' sizes'
                  | Panic -> Panic))
    else apply_bs_go t (app out g) ((blen g) :: sizes)

(** val apply_bs_impl : (str -> str list) -> str -> str res **)

let apply_bs_impl seg s =
  apply_bs_go (seg s) [] []

(** val bs_stack : str list -> str list **)

let bs_stack gs =
  fold_left (fun st g ->
    if str_eqb g ((Npos (XO (XO (XO XH)))) :: []) then tl st else g :: st) gs
    []

(** val apply_bs : (str -> str list) -> str -> str **)

let apply_bs seg s =
  concat (rev (bs_stack (seg s)))

type vres =
| VValid
| VInvalidMsg
| VInvalid
| VIncomplete
| VError

type dres =
| DLine of str
| DEof
| DErr
| DPanic

(** val dlines_aux : str -> str -> str list **)

let rec dlines_aux inp cur =
  match inp with
  | [] -> (match cur with
           | [] -> []
           | _ :: _ -> (rev cur) :: [])
  | c :: t ->
    if N.eqb c (Npos (XO (XI (XO XH))))
    then (rev (c :: cur)) :: (dlines_aux t [])
    else dlines_aux t (c :: cur)

(** val dlines : str -> str list **)

let dlines inp =
  dlines_aux inp []

(** val ends_with : str -> n -> bool **)

let ends_with s c =
  match rev s with
  | [] -> false
  | x :: _ -> N.eqb x c

(** val pop : str -> str **)

let pop s =
  rev (tl (rev s))

(** val strip_terminator : str -> (str * bool) * bool **)

let strip_terminator s =
  if ends_with s (Npos (XO (XI (XO XH))))
  then let s1 = pop s in
       if ends_with s1 (Npos (XI (XO (XI XH))))
       then (((pop s1), true), true)
       else ((s1, true), false)
  else ((s, false), false)

(** val direct_go :
    (str -> str list) -> (str -> vres) option -> str -> str list -> dres list **)

let rec direct_go seg v acc = function
| [] -> DEof :: []
| l :: t ->
  let (p, tr) = strip_terminator (app acc l) in
  let (s, tn) = p in
  (match apply_bs_impl seg s with
   | Ok inp ->
     (match v with
      | Some vf ->
        (match vf inp with
         | VValid -> (DLine inp) :: (direct_go seg v [] t)
         | VIncomplete ->
           direct_go seg v
             (app inp
               (app (if tr then (Npos (XI (XO (XI XH)))) :: [] else [])
                 (if tn then (Npos (XO (XI (XO XH)))) :: [] else []))) t
         | VError -> DErr :: (direct_go seg v [] t)
         | _ -> direct_go seg v inp t)
      | None -> (DLine inp) :: (direct_go seg v [] t))
   | Panic -> DPanic :: [])

(** val direct_all :
    (str -> str list) -> (str -> vres) option -> str -> dres list **)

let direct_all seg v input =
  direct_go seg v [] (dlines input)

(** val brackets_go : str -> n list -> vres **)

let rec brackets_go s stack =
  match s with
  | [] -> (match stack with
           | [] -> VValid
           | _ :: _ -> VIncomplete)
  | c :: t ->
    if (||)
         ((||) (N.eqb c (Npos (XO (XO (XO (XI (XO XH)))))))
           (N.eqb c (Npos (XI (XI (XO (XI (XI (XO XH)))))))))
         (N.eqb c (Npos (XI (XI (XO (XI (XI (XI XH))))))))
    then brackets_go t (c :: stack)
    else if (||)
              ((||) (N.eqb c (Npos (XI (XO (XO (XI (XO XH)))))))
                (N.eqb c (Npos (XI (XO (XI (XI (XI (XO XH)))))))))
              (N.eqb c (Npos (XI (XO (XI (XI (XI (XI XH))))))))
         then (match stack with
               | [] -> VInvalidMsg
               | o :: st ->
                 if (||)
                      ((||)
                        ((&&) (N.eqb o (Npos (XO (XO (XO (XI (XO XH)))))))
                          (N.eqb c (Npos (XI (XO (XO (XI (XO XH))))))))
                        ((&&)
                          (N.eqb o (Npos (XI (XI (XO (XI (XI (XO XH))))))))
                          (N.eqb c (Npos (XI (XO (XI (XI (XI (XO XH))))))))))
                      ((&&) (N.eqb o (Npos (XI (XI (XO (XI (XI (XI XH))))))))
                        (N.eqb c (Npos (XI (XO (XI (XI (XI (XI XH)))))))))
                 then brackets_go t st
                 else VInvalidMsg)
         else brackets_go t stack

(** val bracket_validator : str -> vres **)

let bracket_validator s =
  brackets_go s []

(** val mem_N : n -> n list -> bool **)

let rec mem_N c = function
| [] -> false
| x :: t -> (||) (N.eqb x c) (mem_N c t)

(** val is_break0 : n -> bool **)

let is_break0 c =
  mem_N c default_break_chars

(** val is_dq_special : n -> bool **)

let is_dq_special c =
  mem_N c double_quotes_special_chars

type quote =
| QDouble
| QSingle
| QNone

(** val unescape : n -> str -> str **)

let rec unescape esc0 = function
| [] -> []
| c :: t ->
  if N.eqb c esc0
  then (match t with
        | [] -> []
        | d :: t' -> d :: (unescape esc0 t'))
  else c :: (unescape esc0 t)

(** val escape : n -> (n -> bool) -> quote -> str -> str **)

let escape esc0 brk q s =
  match q with
  | QSingle -> s
  | _ -> flat_map (fun c -> if brk c then esc0 :: (c :: []) else c :: []) s

(** val extract_go :
    n -> (n -> bool) -> n list -> nat option -> nat -> nat **)

let rec extract_go esc0 brk rev_line pending0 acc =
  match rev_line with
  | [] -> (match pending0 with
           | Some n0 -> n0
           | None -> acc)
  | c :: t ->
    (match pending0 with
     | Some n0 ->
       if N.eqb c esc0
       then extract_go esc0 brk t None (add acc (clen c))
       else n0
     | None ->
       if brk c
       then extract_go esc0 brk t (Some acc) (add acc (clen c))
       else extract_go esc0 brk t None (add acc (clen c)))

(** val extract_word : n -> (n -> bool) -> str -> nat * str **)

let extract_word esc0 brk line =
  let n0 = extract_go esc0 brk (rev line) None O in
  let start = sub (blen line) n0 in
  (match bsplit line start with
   | Some p -> let (_, w) = p in (start, w)
   | None -> (start, []))

type scan_mode =
| MNormal
| MDouble
| MEscape
| MEscapeInDouble
| MSingle

(** val scan : str -> scan_mode -> nat -> nat -> scan_mode * nat **)

let rec scan s mode idx qidx =
  match s with
  | [] -> (mode, qidx)
  | c :: t ->
    let next = add idx (clen c) in
    (match mode with
     | MNormal ->
       if N.eqb c (Npos (XO (XI (XO (XO (XO XH))))))
       then scan t MDouble next idx
       else if N.eqb c (Npos (XO (XO (XI (XI (XI (XO XH)))))))
            then scan t MEscape next qidx
            else if N.eqb c (Npos (XI (XI (XI (XO (XO XH))))))
                 then scan t MSingle next idx
                 else scan t MNormal next qidx
     | MDouble ->
       if N.eqb c (Npos (XO (XI (XO (XO (XO XH))))))
       then scan t MNormal next qidx
       else if N.eqb c (Npos (XO (XO (XI (XI (XI (XO XH)))))))
            then scan t MEscapeInDouble next qidx
            else scan t MDouble next qidx
     | MEscape -> scan t MNormal next qidx
     | MEscapeInDouble -> scan t MDouble next qidx
     | MSingle ->
       if N.eqb c (Npos (XI (XI (XI (XO (XO XH))))))
       then scan t MNormal next qidx
       else scan t MSingle next qidx)

(** val find_unclosed_quote : str -> (nat * quote) option **)

let find_unclosed_quote s =
  let (s0, i) = scan s MNormal O O in
  (match s0 with
   | MNormal -> None
   | MEscape -> None
   | MSingle -> Some (i, QSingle)
   | _ -> Some (i, QDouble))

(** val all_adjacent_agree : nat -> n list list -> bool **)

let rec all_adjacent_agree k = function
| [] -> true
| b1 :: t ->
  (match t with
   | [] -> true
   | b2 :: _ ->
     (match nth_error b1 k with
      | Some x ->
        (match nth_error b2 k with
         | Some y -> (&&) (N.eqb x y) (all_adjacent_agree k t)
         | None -> false)
      | None -> false))

(** val lcp_len : nat -> nat -> n list list -> nat **)

let rec lcp_len fuel k bs =
  match fuel with
  | O -> k
  | S f -> if all_adjacent_agree k bs then lcp_len f (S k) bs else k

(** val backoff : str -> nat -> nat **)

let rec backoff s n0 = match n0 with
| O -> O
| S m0 -> if is_boundary s n0 then n0 else backoff s m0

(** val longest_common_prefix : str list -> str option **)

let longest_common_prefix cands = match cands with
| [] -> None
| c0 :: l ->
  (match l with
   | [] -> Some c0
   | _ :: _ ->
     let bs = map encode cands in
     let n0 = lcp_len (S (length (encode c0))) O bs in
     let n' = backoff c0 n0 in
     if Nat.eqb n' O
     then None
     else (match bsplit c0 n' with
           | Some p -> let (l0, _) = p in Some l0
           | None -> None))

type dentry = { d_name : str; d_is_dir : bool; d_children : (str * bool) list }

(** val sep : n **)

let sep =
  Npos (XI (XI (XI (XI (XO XH)))))

(** val rsplit_sep : str -> str * str **)

let rec rsplit_sep = function
| [] -> ([], [])
| c :: t ->
  let (d, f) = rsplit_sep t in
  (match d with
   | [] -> if N.eqb c sep then ((c :: []), f) else ([], (c :: f))
   | _ :: _ -> ((c :: d), f))

(** val lookup_dir : dentry list -> str -> (str * bool) list option **)

let lookup_dir root dir_name = match dir_name with
| [] -> Some (map (fun d -> (d.d_name, d.d_is_dir)) root)
| _ :: _ ->
  let name = removelast dir_name in
  (match find (fun d -> (&&) (str_eqb d.d_name name) d.d_is_dir) root with
   | Some d -> if mem_N sep name then None else Some d.d_children
   | None -> None)

(** val filename_complete :
    dentry list -> str -> n option -> (n -> bool) -> quote -> (str * str) list **)

let filename_complete root path esc0 brk q =
  let (dir_name, file_name) = rsplit_sep path in
  (match lookup_dir root dir_name with
   | Some ents ->
     flat_map (fun e ->
       let (name, isdir) = e in
       if prefix_b file_name name
       then let p = app dir_name (app name (if isdir then sep :: [] else []))
            in
            (name,
            (match esc0 with
             | Some ec -> escape ec brk q p
             | None -> p)) :: []
       else []) ents
   | None -> [])

(** val complete_path : dentry list -> str -> nat * (str * str) list **)

let complete_path root line =
  match find_unclosed_quote line with
  | Some p ->
    let (idx, q) = p in
    (match q with
     | QDouble ->
       let start = add idx (S O) in
       let word =
         match bsplit line start with
         | Some p0 -> let (_, w) = p0 in w
         | None -> []
       in
       (start,
       (filename_complete root (unescape double_quotes_escape_char word)
         (Some double_quotes_escape_char) is_dq_special QDouble))
     | _ ->
       let start = add idx (S O) in
       let word =
         match bsplit line start with
         | Some p0 -> let (_, w) = p0 in w
         | None -> []
       in
       (start, (filename_complete root word None is_break0 q)))
  | None ->
    let (start, word) = extract_word escape_char is_break0 line in
    (start,
    (filename_complete root (unescape escape_char word) (Some escape_char)
      is_break0 QNone))

(** val slice_from : str -> nat -> str res **)

let slice_from s a =
  match bsplit s a with
  | Some p -> let (_, r) = p in Ok r
  | None -> Panic

(** val slice_to : str -> nat -> str res **)

let slice_to s b =
  match bsplit s b with
  | Some p -> let (l, _) = p in Ok l
  | None -> Panic

(** val slice : str -> nat -> nat -> str res **)

let slice s a b =
  if Nat.ltb b a
  then Panic
  else (match bsplit s a with
        | Some p ->
          let (_, r) = p in
          (match bsplit r (sub b a) with
           | Some p0 -> let (m0, _) = p0 in Ok m0
           | None -> Panic)
        | None -> Panic)

(** val str_drain : str -> nat -> nat -> (str * str) res **)

let str_drain s a b =
  if Nat.ltb b a
  then Panic
  else (match bsplit s a with
        | Some p ->
          let (l, r) = p in
          (match bsplit r (sub b a) with
           | Some p0 -> let (m0, r') = p0 in Ok (m0, (app l r'))
           | None -> Panic)
        | None -> Panic)

(** val str_insert : str -> nat -> str -> str res **)

let str_insert s idx t =
  match bsplit s idx with
  | Some p -> let (l, r) = p in Ok (app l (app t r))
  | None -> Panic

(** val find_char : n -> str -> nat option **)

let rec find_char c = function
| [] -> None
| x :: t ->
  if N.eqb x c
  then Some O
  else (match find_char c t with
        | Some k -> Some (add (clen x) k)
        | None -> None)

(** val rfind_char : n -> str -> nat option **)

let rec rfind_char c = function
| [] -> None
| x :: t ->
  (match rfind_char c t with
   | Some k -> Some (add (clen x) k)
   | None -> if N.eqb x c then Some O else None)

(** val lF : n **)

let lF =
  Npos (XO (XI (XO XH)))

type word_def =
| WBig
| WEmacs
| WVi

type at_pos =
| AtStart
| AtBeforeEnd
| AtAfterEnd

type char_search =
| CsForward of n
| CsForwardBefore of n
| CsBackward of n
| CsBackwardAfter of n

type movement =
| MWholeLine
| MBeginningOfLine
| MEndOfLine
| MBackwardWord of nat * word_def
| MForwardWord of nat * at_pos * word_def
| MViCharSearch of nat * char_search
| MViFirstPrint
| MBackwardChar of nat
| MForwardChar of nat
| MLineUp of nat
| MLineDown of nat
| MWholeBuffer
| MBeginningOfBuffer
| MEndOfBuffer

type word_action =
| Capitalize
| Lowercase
| Uppercase

type direction =
| DForward
| DBackward

type event =
| EInsertChar of nat * n
| EInsertStr of nat * str
| EDelete of nat * str * direction
| EReplace of nat * str * str
| EStartKill
| EStopKill

type lb = { buf : str; pos : nat; cap : nat; grow : bool }

(** val lb_len : lb -> nat **)

let lb_len b =
  blen b.buf

(** val set_buf : lb -> str -> lb **)

let set_buf b s =
  { buf = s; pos = b.pos; cap = b.cap; grow = b.grow }

(** val set_pos' : lb -> nat -> lb **)

let set_pos' b p =
  { buf = b.buf; pos = p; cap = b.cap; grow = b.grow }

(** val must_truncate : lb -> nat -> bool **)

let must_truncate b new_len =
  (&&) (negb b.grow) (Nat.ltb b.cap new_len)

(** val index_from : nat -> str list -> (nat * str) list **)

let rec index_from i = function
| [] -> []
| g :: t -> (i, g) :: (index_from (add i (blen g)) t)

(** val gindices : (str -> str list) -> str -> (nat * str) list **)

let gindices seg s =
  index_from O (seg s)

type 'a m = lb -> (('a * lb) * event list) res

(** val ret : 'a1 -> 'a1 m **)

let ret a b =
  Ok ((a, b), [])

(** val bind : 'a1 m -> ('a1 -> 'a2 m) -> 'a2 m **)

let bind m0 f b =
  match m0 b with
  | Ok a0 ->
    let (p, e1) = a0 in
    let (a, b1) = p in
    (match f a b1 with
     | Ok a1 -> let (p0, e2) = a1 in Ok (p0, (app e1 e2))
     | Panic -> Panic)
  | Panic -> Panic

(** val get : lb m **)

let get b =
  Ok ((b, b), [])

(** val put_pos : nat -> unit m **)

let put_pos p b =
  Ok (((), (set_pos' b p)), [])

(** val fail : 'a1 m **)

let fail _ =
  Panic

(** val lift : 'a1 res -> 'a1 m **)

let lift r b =
  match r with
  | Ok a -> Ok ((a, b), [])
  | Panic -> Panic

(** val emit : event -> unit m **)

let emit e b =
  Ok (((), b), (e :: []))

(** val drain : nat -> nat -> direction -> str m **)

let drain a b' d b =
  match str_drain b.buf a b' with
  | Ok a0 ->
    let (m0, rest) = a0 in
    Ok ((m0, (set_buf b rest)), ((EDelete (a, m0, d)) :: []))
  | Panic -> Panic

(** val insert_str : nat -> str -> bool m **)

let insert_str idx s b =
  match str_insert b.buf idx s with
  | Ok nb ->
    Ok (((Nat.eqb idx (lb_len b)), (set_buf b nb)), ((EInsertStr (idx,
      s)) :: []))
  | Panic -> Panic

(** val insert_char_at : nat -> n -> unit m **)

let insert_char_at idx c b =
  match str_insert b.buf idx (c :: []) with
  | Ok nb -> Ok (((), (set_buf b nb)), ((EInsertChar (idx, c)) :: []))
  | Panic -> Panic

(** val replace_range : nat -> nat -> str -> unit m **)

let replace_range a b' text b =
  match slice b.buf a b' with
  | Ok old ->
    (match str_drain b.buf a b' with
     | Ok a0 ->
       let (_, rest) = a0 in
       (match str_insert rest a text with
        | Ok nb ->
          Ok (((), { buf = nb; pos = (add a (blen text)); cap = b.cap; grow =
            b.grow }), ((EReplace (a, old, text)) :: []))
        | Panic -> Panic)
     | Panic -> Panic)
  | Panic -> Panic

(** val end_of_line : lb -> nat res **)

let end_of_line b =
  match slice_from b.buf b.pos with
  | Ok r ->
    Ok (match find_char lF r with
        | Some n0 -> add n0 b.pos
        | None -> lb_len b)
  | Panic -> Panic

(** val start_of_line : lb -> nat res **)

let start_of_line b =
  match slice_to b.buf b.pos with
  | Ok l -> Ok (match rfind_char lF l with
                | Some i -> add i (S O)
                | None -> O)
  | Panic -> Panic

(** val last_opt0 : 'a1 list -> 'a1 option **)

let rec last_opt0 = function
| [] -> None
| x :: t -> (match t with
             | [] -> Some x
             | _ :: _ -> last_opt0 t)

(** val next_pos : (str -> str list) -> lb -> nat -> nat option res **)

let next_pos seg b n0 =
  if Nat.eqb b.pos (lb_len b)
  then Ok None
  else (match slice_from b.buf b.pos with
        | Ok r ->
          Ok
            (match last_opt0 (firstn n0 (gindices seg r)) with
             | Some p -> let (i, s) = p in Some (add (add i b.pos) (blen s))
             | None -> None)
        | Panic -> Panic)

(** val prev_pos : (str -> str list) -> lb -> nat -> nat option res **)

let prev_pos seg b n0 =
  if Nat.eqb b.pos O
  then Ok None
  else (match slice_to b.buf b.pos with
        | Ok l ->
          Ok
            (match last_opt0 (firstn n0 (rev (gindices seg l))) with
             | Some p -> let (i, _) = p in Some i
             | None -> None)
        | Panic -> Panic)

(** val all_alnum : uData -> str -> bool **)

let all_alnum u g =
  forallb u.u_is_alphanumeric g

(** val any_ws : uData -> str -> bool **)

let any_ws u g =
  existsb u.u_is_whitespace g

(** val is_vi_word_char : uData -> str -> bool **)

let is_vi_word_char u g =
  (||) (all_alnum u g)
    (str_eqb g ((Npos (XI (XI (XI (XI (XI (XO XH))))))) :: []))

(** val is_other_char : uData -> str -> bool **)

let is_other_char u g =
  negb ((||) (any_ws u g) (is_vi_word_char u g))

(** val is_word_char : uData -> word_def -> str -> bool **)

let is_word_char u w g =
  match w with
  | WBig -> negb (any_ws u g)
  | WEmacs -> all_alnum u g
  | WVi -> is_vi_word_char u g

(** val is_vi : word_def -> bool **)

let is_vi = function
| WVi -> true
| _ -> false

(** val is_emacs : word_def -> bool **)

let is_emacs = function
| WEmacs -> true
| _ -> false

(** val is_start_of_word : uData -> word_def -> str -> str -> bool **)

let is_start_of_word u w previous g =
  (||) ((&&) (negb (is_word_char u w previous)) (is_word_char u w g))
    ((&&) ((&&) (is_vi w) (negb (is_other_char u previous)))
      (is_other_char u g))

(** val is_end_of_word : uData -> word_def -> str -> str -> bool **)

let is_end_of_word u w g next =
  (||) ((&&) (negb (is_word_char u w next)) (is_word_char u w g))
    ((&&) ((&&) (is_vi w) (negb (is_other_char u next))) (is_other_char u g))

(** val pw_inner :
    uData -> word_def -> (nat * str) -> (nat * str) list ->
    (nat * (nat * str) list) option **)

let rec pw_inner u w gj = function
| [] -> None
| gi :: rest ->
  if is_start_of_word u w (snd gi) (snd gj)
  then Some ((fst gj), rest)
  else pw_inner u w gi rest

(** val pw_outer :
    uData -> word_def -> nat -> (nat * str) list -> nat -> nat **)

let rec pw_outer u w n0 gis sow =
  match n0 with
  | O -> sow
  | S n' ->
    (match gis with
     | [] -> O
     | gj :: rest ->
       (match pw_inner u w gj rest with
        | Some p -> let (s, rest') = p in pw_outer u w n' rest' s
        | None -> O))

(** val prev_word_pos :
    uData -> (str -> str list) -> lb -> nat -> word_def -> nat -> nat option
    res **)

let prev_word_pos u seg b p w n0 =
  if Nat.eqb p O
  then Ok None
  else (match slice_to b.buf p with
        | Ok l -> Ok (Some (pw_outer u w n0 (rev (gindices seg l)) O))
        | Panic -> Panic)

(** val at_is_start : at_pos -> bool **)

let at_is_start = function
| AtStart -> true
| _ -> false

(** val at_is_after : at_pos -> bool **)

let at_is_after = function
| AtAfterEnd -> true
| _ -> false

(** val at_is_before : at_pos -> bool **)

let at_is_before = function
| AtBeforeEnd -> true
| _ -> false

(** val nw_inner :
    uData -> at_pos -> word_def -> (nat * str) -> (nat * str) list ->
    (nat * (nat * str) list) option * (nat * str) **)

let rec nw_inner u a w gi = function
| [] -> (None, gi)
| gj :: rest ->
  if (&&) (at_is_start a) (is_start_of_word u w (snd gi) (snd gj))
  then ((Some ((fst gj), rest)), gi)
  else if (&&) (negb (at_is_start a)) (is_end_of_word u w (snd gi) (snd gj))
       then ((Some
              ((if (||) (is_emacs w) (at_is_after a) then fst gj else fst gi),
              rest)), gi)
       else nw_inner u a w gj rest

(** val nw_outer :
    uData -> at_pos -> word_def -> nat -> (nat * str) list -> nat ->
    (nat * str) option -> nat * (nat * str) option **)

let rec nw_outer u a w n0 gis wp gi =
  match n0 with
  | O -> (wp, gi)
  | S n' ->
    (match gis with
     | [] -> (O, None)
     | g :: rest ->
       let (o, g') = nw_inner u a w g rest in
       (match o with
        | Some p ->
          let (wp', rest') = p in nw_outer u a w n' rest' wp' (Some g')
        | None -> (O, (Some g'))))

(** val next_word_pos :
    uData -> (str -> str list) -> lb -> nat -> at_pos -> word_def -> nat ->
    nat option res **)

let next_word_pos u seg b p a w n0 =
  if Nat.eqb p (lb_len b)
  then Ok None
  else (match slice_from b.buf p with
        | Ok r ->
          let gis = gindices seg r in
          if at_is_before a
          then (match gis with
                | [] ->
                  let gi0 = None in
                  let gis0 = [] in
                  let (wp, gi) = nw_outer u a w n0 gis0 O gi0 in
                  Ok
                  (if Nat.eqb wp O
                   then if (||) (is_emacs w) (at_is_after a)
                        then Some (lb_len b)
                        else (match gi with
                              | Some p0 ->
                                let (i, _) = p0 in
                                if Nat.eqb i O then None else Some (add i p)
                              | None -> None)
                   else Some (add wp p))
                | g :: t ->
                  let gi0 = Some g in
                  let (wp, gi) = nw_outer u a w n0 t O gi0 in
                  Ok
                  (if Nat.eqb wp O
                   then if (||) (is_emacs w) (at_is_after a)
                        then Some (lb_len b)
                        else (match gi with
                              | Some p0 ->
                                let (i, _) = p0 in
                                if Nat.eqb i O then None else Some (add i p)
                              | None -> None)
                   else Some (add wp p)))
          else let gi0 = None in
               let (wp, gi) = nw_outer u a w n0 gis O gi0 in
               Ok
               (if Nat.eqb wp O
                then if (||) (is_emacs w) (at_is_after a)
                     then Some (lb_len b)
                     else (match gi with
                           | Some p0 ->
                             let (i, _) = p0 in
                             if Nat.eqb i O then None else Some (add i p)
                           | None -> None)
                else Some (add wp p))
        | Panic -> Panic)

(** val char_hits : n -> str -> nat -> nat list **)

let rec char_hits c s i =
  match s with
  | [] -> []
  | x :: t ->
    if N.eqb x c
    then i :: (char_hits c t (add i (clen x)))
    else char_hits c t (add i (clen x))

(** val last_char_len : str -> nat option **)

let rec last_char_len = function
| [] -> None
| x :: t -> (match t with
             | [] -> Some (clen x)
             | _ :: _ -> last_char_len t)

(** val search_char_pos :
    (str -> str list) -> lb -> char_search -> nat -> nat option res **)

let search_char_pos seg b cs n0 =
  match cs with
  | CsForward c ->
    if Nat.eqb b.pos (lb_len b)
    then Ok None
    else (match slice_from b.buf b.pos with
          | Ok r ->
            (match seg r with
             | [] -> Ok None
             | cc :: _ ->
               let shift = add b.pos (blen cc) in
               if Nat.ltb shift (lb_len b)
               then (match slice_from b.buf shift with
                     | Ok r2 ->
                       (match last_opt0 (firstn n0 (char_hits c r2 O)) with
                        | Some p ->
                          (match cs with
                           | CsForwardBefore _ ->
                             (match slice_to b.buf (add shift p) with
                              | Ok l2 ->
                                (match last_char_len l2 with
                                 | Some k -> Ok (Some (sub (add shift p) k))
                                 | None -> Panic)
                              | Panic -> Panic)
                           | _ -> Ok (Some (add shift p)))
                        | None -> Ok None)
                     | Panic -> Panic)
               else Ok None)
          | Panic -> Panic)
  | CsForwardBefore c ->
    if Nat.eqb b.pos (lb_len b)
    then Ok None
    else (match slice_from b.buf b.pos with
          | Ok r ->
            (match seg r with
             | [] -> Ok None
             | cc :: _ ->
               let shift = add b.pos (blen cc) in
               if Nat.ltb shift (lb_len b)
               then (match slice_from b.buf shift with
                     | Ok r2 ->
                       (match last_opt0 (firstn n0 (char_hits c r2 O)) with
                        | Some p ->
                          (match cs with
                           | CsForwardBefore _ ->
                             (match slice_to b.buf (add shift p) with
                              | Ok l2 ->
                                (match last_char_len l2 with
                                 | Some k -> Ok (Some (sub (add shift p) k))
                                 | None -> Panic)
                              | Panic -> Panic)
                           | _ -> Ok (Some (add shift p)))
                        | None -> Ok None)
                     | Panic -> Panic)
               else Ok None)
          | Panic -> Panic)
  | CsBackward c ->
    (match slice_to b.buf b.pos with
     | Ok l ->
       (match last_opt0 (firstn n0 (rev (char_hits c l O))) with
        | Some p ->
          Ok (Some
            (match cs with
             | CsBackwardAfter _ -> add p (clen c)
             | _ -> p))
        | None -> Ok None)
     | Panic -> Panic)
  | CsBackwardAfter c ->
    (match slice_to b.buf b.pos with
     | Ok l ->
       (match last_opt0 (firstn n0 (rev (char_hits c l O))) with
        | Some p ->
          Ok (Some
            (match cs with
             | CsBackwardAfter _ -> add p (clen c)
             | _ -> p))
        | None -> Ok None)
     | Panic -> Panic)

(** val lines_up_loop : str -> nat -> nat -> nat res **)

let rec lines_up_loop s n0 start =
  match n0 with
  | O -> Ok start
  | S n' ->
    if Nat.eqb start O
    then Panic
    else (match slice_to s (sub start (S O)) with
          | Ok l ->
            (match rfind_char lF l with
             | Some off -> lines_up_loop s n' (add off (S O))
             | None -> Ok O)
          | Panic -> Panic)

(** val n_lines_up : lb -> nat -> (nat * nat) option res **)

let n_lines_up b n0 =
  match slice_to b.buf b.pos with
  | Ok l ->
    (match slice_from b.buf b.pos with
     | Ok r ->
       (match rfind_char lF l with
        | Some off ->
          let e =
            match find_char lF r with
            | Some x -> add (add b.pos x) (S O)
            | None -> lb_len b
          in
          (match lines_up_loop b.buf n0 (add off (S O)) with
           | Ok s -> Ok (Some (s, e))
           | Panic -> Panic)
        | None -> Ok None)
     | Panic -> Panic)
  | Panic -> Panic

(** val lines_down_loop : str -> nat -> nat -> nat -> nat res **)

let rec lines_down_loop s len n0 e =
  match n0 with
  | O -> Ok e
  | S n' ->
    (match slice_from s e with
     | Ok r ->
       (match find_char lF r with
        | Some off -> lines_down_loop s len n' (add (add e off) (S O))
        | None -> Ok len)
     | Panic -> Panic)

(** val n_lines_down : lb -> nat -> (nat * nat) option res **)

let n_lines_down b n0 =
  match slice_to b.buf b.pos with
  | Ok l ->
    (match slice_from b.buf b.pos with
     | Ok r ->
       (match find_char lF r with
        | Some off ->
          let s = match rfind_char lF l with
                  | Some i -> add i (S O)
                  | None -> O
          in
          (match lines_down_loop b.buf (lb_len b) n0
                   (add (add b.pos off) (S O)) with
           | Ok e -> Ok (Some (s, e))
           | Panic -> Panic)
        | None -> Ok None)
     | Panic -> Panic)
  | Panic -> Panic

(** val set_pos : nat -> unit m **)

let set_pos p =
  bind get (fun b -> if Nat.ltb (lb_len b) p then fail else put_pos p)

(** val move_backward : (str -> str list) -> nat -> bool m **)

let move_backward seg n0 =
  bind get (fun b ->
    bind (lift (prev_pos seg b n0)) (fun r ->
      match r with
      | Some p -> bind (put_pos p) (fun _ -> ret true)
      | None -> ret false))

(** val move_forward : (str -> str list) -> nat -> bool m **)

let move_forward seg n0 =
  bind get (fun b ->
    bind (lift (next_pos seg b n0)) (fun r ->
      match r with
      | Some p -> bind (put_pos p) (fun _ -> ret true)
      | None -> ret false))

(** val move_buffer_start : bool m **)

let move_buffer_start =
  bind get (fun b ->
    if Nat.ltb O b.pos
    then bind (put_pos O) (fun _ -> ret true)
    else ret false)

(** val move_buffer_end : bool m **)

let move_buffer_end =
  bind get (fun b ->
    if Nat.eqb b.pos (lb_len b)
    then ret false
    else bind (put_pos (lb_len b)) (fun _ -> ret true))

(** val move_home : bool m **)

let move_home =
  bind get (fun b ->
    bind (lift (start_of_line b)) (fun s ->
      if Nat.ltb s b.pos
      then bind (put_pos s) (fun _ -> ret true)
      else ret false))

(** val move_end : bool m **)

let move_end =
  bind get (fun b ->
    bind (lift (end_of_line b)) (fun e ->
      if Nat.eqb b.pos e
      then ret false
      else bind (put_pos e) (fun _ -> ret true)))

(** val trim_end_len : uData -> str -> nat **)

let rec trim_end_len u = function
| [] -> O
| c :: t ->
  let k = trim_end_len u t in
  if Nat.eqb k O
  then if u.u_is_whitespace c then O else clen c
  else add (clen c) k

(** val is_end_of_input : uData -> lb -> bool **)

let is_end_of_input u b =
  Nat.leb (trim_end_len u b.buf) b.pos

(** val repeat_str : str -> nat -> str **)

let rec repeat_str s = function
| O -> []
| S n' -> app s (repeat_str s n')

(** val insert : n -> nat -> bool option m **)

let insert c n0 =
  bind get (fun b ->
    let shift = mul (clen c) n0 in
    if must_truncate b (add (lb_len b) shift)
    then ret None
    else let push = Nat.eqb b.pos (lb_len b) in
         bind
           (if Nat.eqb n0 (S O)
            then insert_char_at b.pos c
            else bind (insert_str b.pos (repeat_str (c :: []) n0)) (fun _ ->
                   ret ())) (fun _ ->
           bind (put_pos (add b.pos shift)) (fun _ -> ret (Some push))))

(** val yank : str -> nat -> bool option m **)

let yank text n0 =
  bind get (fun b ->
    let shift = mul (blen text) n0 in
    (match text with
     | [] -> ret None
     | _ :: _ ->
       if must_truncate b (add (lb_len b) shift)
       then ret None
       else let push = Nat.eqb b.pos (lb_len b) in
            bind
              (bind
                (insert_str b.pos
                  (if Nat.eqb n0 (S O) then text else repeat_str text n0))
                (fun _ -> ret ())) (fun _ ->
              bind (put_pos (add b.pos shift)) (fun _ -> ret (Some push)))))

(** val yank_pop : nat -> str -> bool option m **)

let yank_pop yank_size text =
  bind get (fun b ->
    let e = b.pos in
    if Nat.ltb e yank_size
    then fail
    else bind (drain (sub e yank_size) e DForward) (fun _ ->
           bind (put_pos (sub e yank_size)) (fun _ -> yank text (S O))))

(** val delete : (str -> str list) -> nat -> str option m **)

let delete seg n0 =
  bind get (fun b ->
    bind (lift (next_pos seg b n0)) (fun r ->
      match r with
      | Some p -> bind (drain b.pos p DForward) (fun s -> ret (Some s))
      | None -> ret None))

(** val backspace : (str -> str list) -> nat -> bool m **)

let backspace seg n0 =
  bind get (fun b ->
    bind (lift (prev_pos seg b n0)) (fun r ->
      match r with
      | Some p ->
        bind (drain p b.pos DBackward) (fun _ ->
          bind (put_pos p) (fun _ -> ret true))
      | None -> ret false))

(** val kill_line : (str -> str list) -> bool m **)

let kill_line seg =
  bind get (fun b ->
    if (&&) (negb (Nat.eqb (lb_len b) O)) (Nat.ltb b.pos (lb_len b))
    then bind (lift (end_of_line b)) (fun e ->
           bind
             (if Nat.eqb b.pos e
              then bind (delete seg (S O)) (fun _ -> ret ())
              else bind (drain b.pos e DForward) (fun _ -> ret ())) (fun _ ->
             ret true))
    else ret false)

(** val kill_buffer : bool m **)

let kill_buffer =
  bind get (fun b ->
    if (&&) (negb (Nat.eqb (lb_len b) O)) (Nat.ltb b.pos (lb_len b))
    then bind (drain b.pos (lb_len b) DForward) (fun _ -> ret true)
    else ret false)

(** val discard_line : (str -> str list) -> bool m **)

let discard_line seg =
  bind get (fun b ->
    if (&&) (Nat.ltb O b.pos) (negb (Nat.eqb (lb_len b) O))
    then bind (lift (start_of_line b)) (fun s ->
           if Nat.eqb b.pos s
           then backspace seg (S O)
           else bind (drain s b.pos DBackward) (fun _ ->
                  bind (put_pos s) (fun _ -> ret true)))
    else ret false)

(** val discard_buffer : bool m **)

let discard_buffer =
  bind get (fun b ->
    if (&&) (Nat.ltb O b.pos) (negb (Nat.eqb (lb_len b) O))
    then bind (drain O b.pos DBackward) (fun _ ->
           bind (put_pos O) (fun _ -> ret true))
    else ret false)

(** val transpose_chars : (str -> str list) -> bool m **)

let transpose_chars seg =
  bind get (fun b ->
    if (||) (Nat.eqb b.pos O) (Nat.ltb (length (seg b.buf)) (S (S O)))
    then ret false
    else bind
           (if Nat.eqb b.pos (lb_len b)
            then bind (move_backward seg (S O)) (fun _ -> ret ())
            else ret ()) (fun _ ->
           bind (delete seg (S O)) (fun r ->
             match r with
             | Some chars ->
               bind (move_backward seg (S O)) (fun _ ->
                 bind (yank chars (S O)) (fun _ ->
                   bind (move_forward seg (S O)) (fun _ -> ret true)))
             | None -> fail)))

(** val move_to_prev_word :
    uData -> (str -> str list) -> word_def -> nat -> bool m **)

let move_to_prev_word u seg w n0 =
  bind get (fun b ->
    bind (lift (prev_word_pos u seg b b.pos w n0)) (fun r ->
      match r with
      | Some p -> bind (put_pos p) (fun _ -> ret true)
      | None -> ret false))

(** val delete_prev_word :
    uData -> (str -> str list) -> word_def -> nat -> bool m **)

let delete_prev_word u seg w n0 =
  bind get (fun b ->
    bind (lift (prev_word_pos u seg b b.pos w n0)) (fun r ->
      match r with
      | Some p ->
        bind (drain p b.pos DBackward) (fun _ ->
          bind (put_pos p) (fun _ -> ret true))
      | None -> ret false))

(** val move_to_next_word :
    uData -> (str -> str list) -> at_pos -> word_def -> nat -> bool m **)

let move_to_next_word u seg a w n0 =
  bind get (fun b ->
    bind (lift (next_word_pos u seg b b.pos a w n0)) (fun r ->
      match r with
      | Some p -> bind (put_pos p) (fun _ -> ret true)
      | None -> ret false))

(** val delete_word :
    uData -> (str -> str list) -> at_pos -> word_def -> nat -> bool m **)

let delete_word u seg a w n0 =
  bind get (fun b ->
    bind (lift (next_word_pos u seg b b.pos a w n0)) (fun r ->
      match r with
      | Some p -> bind (drain b.pos p DForward) (fun _ -> ret true)
      | None -> ret false))

(** val move_to : (str -> str list) -> char_search -> nat -> bool m **)

let move_to seg cs n0 =
  bind get (fun b ->
    bind (lift (search_char_pos seg b cs n0)) (fun r ->
      match r with
      | Some p -> bind (put_pos p) (fun _ -> ret true)
      | None -> ret false))

(** val delete_to : (str -> str list) -> char_search -> nat -> bool m **)

let delete_to seg cs n0 =
  bind get (fun b ->
    bind
      (lift
        (match cs with
         | CsForwardBefore c -> search_char_pos seg b (CsForward c) n0
         | _ -> search_char_pos seg b cs n0)) (fun r ->
      match r with
      | Some p ->
        (match cs with
         | CsForward c ->
           bind (drain b.pos (add p (clen c)) DForward) (fun _ -> ret true)
         | CsForwardBefore _ ->
           bind (drain b.pos p DForward) (fun _ -> ret true)
         | _ ->
           bind (put_pos p) (fun _ ->
             bind (drain p b.pos DBackward) (fun _ -> ret true)))
      | None -> ret false))

(** val first_alnum : uData -> (nat * str) list -> nat option **)

let rec first_alnum u = function
| [] -> None
| p :: t ->
  let (i, g) = p in if all_alnum u g then Some i else first_alnum u t

(** val skip_whitespace :
    uData -> (str -> str list) -> lb -> nat option res **)

let skip_whitespace u seg b =
  if Nat.eqb b.pos (lb_len b)
  then Ok None
  else (match slice_from b.buf b.pos with
        | Ok r ->
          Ok
            (match first_alnum u (gindices seg r) with
             | Some i -> Some (add i b.pos)
             | None -> None)
        | Panic -> Panic)

(** val to_upper : uData -> str -> str **)

let to_upper u s =
  flat_map u.u_to_upper s

(** val to_lower : uData -> str -> str **)

let to_lower u s =
  flat_map u.u_to_lower s

(** val edit_word : uData -> (str -> str list) -> word_action -> bool m **)

let edit_word u seg a =
  bind get (fun b ->
    bind (lift (skip_whitespace u seg b)) (fun r ->
      match r with
      | Some start ->
        bind (lift (next_word_pos u seg b start AtAfterEnd WEmacs (S O)))
          (fun r2 ->
          match r2 with
          | Some e ->
            if Nat.eqb start e
            then ret false
            else bind (drain start e DForward) (fun word ->
                   bind
                     (lift
                       (match a with
                        | Capitalize ->
                          (match seg word with
                           | [] -> Panic
                           | ch :: _ ->
                             (match slice_from word (blen ch) with
                              | Ok rest ->
                                Ok (app (to_upper u ch) (to_lower u rest))
                              | Panic -> Panic))
                        | Lowercase -> Ok (to_lower u word)
                        | Uppercase -> Ok (to_upper u word))) (fun result ->
                     bind (insert_str start result) (fun _ ->
                       bind (put_pos (add start (blen result))) (fun _ ->
                         ret true))))
          | None -> ret false)
      | None -> ret false))

(** val transpose_words : uData -> (str -> str list) -> nat -> bool m **)

let transpose_words u seg n0 =
  bind (move_to_next_word u seg AtAfterEnd WEmacs n0) (fun _ ->
    bind get (fun b1 ->
      let w2_end = b1.pos in
      bind (move_to_prev_word u seg WEmacs (S O)) (fun _ ->
        bind get (fun b2 ->
          let w2_beg = b2.pos in
          bind (move_to_prev_word u seg WEmacs n0) (fun _ ->
            bind get (fun b3 ->
              let w1_beg = b3.pos in
              bind (move_to_next_word u seg AtAfterEnd WEmacs (S O))
                (fun _ ->
                bind get (fun b4 ->
                  let w1_end = b4.pos in
                  if (||) (Nat.eqb w1_beg w2_beg) (Nat.ltb w2_beg w1_end)
                  then ret false
                  else bind (lift (slice b4.buf w1_beg w1_end)) (fun w1 ->
                         bind (drain w2_beg w2_end DForward) (fun w2 ->
                           bind (insert_str w2_beg w1) (fun _ ->
                             bind (drain w1_beg w1_end DForward) (fun _ ->
                               bind (insert_str w1_beg w2) (fun _ ->
                                 bind (put_pos w2_end) (fun _ -> ret true))))))))))))))

(** val replace : nat -> nat -> str -> unit m **)

let replace =
  replace_range

(** val delete_range : nat -> nat -> unit m **)

let delete_range a b' =
  bind (set_pos a) (fun _ -> bind (drain a b' DForward) (fun _ -> ret ()))

(** val boundary_down : str -> nat -> nat -> nat **)

let rec boundary_down s k m0 =
  match k with
  | O -> O
  | S k' -> if is_boundary s m0 then m0 else boundary_down s k' (sub m0 (S O))

(** val update : str -> nat -> unit m **)

let update s p =
  if Nat.ltb (blen s) p
  then fail
  else bind get (fun b ->
         bind (drain O (lb_len b) DForward) (fun _ ->
           if must_truncate b (blen s)
           then let mx = boundary_down s (S b.cap) b.cap in
                bind (lift (slice_to s mx)) (fun t ->
                  bind (insert_str O t) (fun _ -> put_pos (Nat.min mx p)))
           else bind (insert_str O s) (fun _ -> put_pos p)))

(** val vi_first_print_pos :
    uData -> (str -> str list) -> lb -> nat option res **)

let vi_first_print_pos u seg b =
  match b.buf with
  | [] -> Ok (Some O)
  | c :: _ ->
    if u.u_is_whitespace c
    then next_word_pos u seg b O AtStart WBig (S O)
    else Ok (Some O)

(** val copy :
    uData -> (str -> str list) -> lb -> movement -> str option res **)

let copy u seg b m0 =
  if Nat.eqb (lb_len b) O
  then Ok None
  else let sl = fun a e ->
         match slice b.buf a e with
         | Ok s -> Ok (Some s)
         | Panic -> Panic
       in
       let opt_map = fun r f ->
         match r with
         | Ok a -> (match a with
                    | Some p -> f p
                    | None -> Ok None)
         | Panic -> Panic
       in
       (match m0 with
        | MWholeLine ->
          (match start_of_line b with
           | Ok s ->
             (match end_of_line b with
              | Ok e -> if Nat.eqb s e then Ok None else sl s e
              | Panic -> Panic)
           | Panic -> Panic)
        | MBeginningOfLine ->
          (match start_of_line b with
           | Ok s -> if Nat.eqb b.pos s then Ok None else sl s b.pos
           | Panic -> Panic)
        | MEndOfLine ->
          (match end_of_line b with
           | Ok e -> if Nat.eqb b.pos e then Ok None else sl b.pos e
           | Panic -> Panic)
        | MBackwardWord (n0, w) ->
          opt_map (prev_word_pos u seg b b.pos w n0) (fun p -> sl p b.pos)
        | MForwardWord (n0, a, w) ->
          opt_map (next_word_pos u seg b b.pos a w n0) (fun p -> sl b.pos p)
        | MViCharSearch (n0, cs) ->
          opt_map
            (match cs with
             | CsForwardBefore c -> search_char_pos seg b (CsForward c) n0
             | _ -> search_char_pos seg b cs n0) (fun p ->
            match cs with
            | CsForward c -> sl b.pos (add p (clen c))
            | CsForwardBefore _ -> sl b.pos p
            | _ -> sl p b.pos)
        | MViFirstPrint ->
          opt_map (vi_first_print_pos u seg b) (fun p ->
            if Nat.ltb p b.pos
            then sl p b.pos
            else if Nat.ltb b.pos p then sl b.pos p else Ok None)
        | MBackwardChar n0 ->
          opt_map (prev_pos seg b n0) (fun p -> sl p b.pos)
        | MForwardChar n0 -> opt_map (next_pos seg b n0) (fun p -> sl b.pos p)
        | MLineUp n0 ->
          (match n_lines_up b n0 with
           | Ok a ->
             (match a with
              | Some p -> let (s, e) = p in sl s e
              | None -> Ok None)
           | Panic -> Panic)
        | MLineDown n0 ->
          (match n_lines_down b n0 with
           | Ok a ->
             (match a with
              | Some p -> let (s, e) = p in sl s e
              | None -> Ok None)
           | Panic -> Panic)
        | MWholeBuffer -> Ok (Some b.buf)
        | MBeginningOfBuffer ->
          if Nat.eqb b.pos O then Ok None else sl O b.pos
        | MEndOfBuffer ->
          if Nat.eqb b.pos (lb_len b) then Ok None else sl b.pos (lb_len b))

(** val notifies : movement -> bool **)

let notifies = function
| MBackwardChar _ -> false
| MForwardChar _ -> false
| _ -> true

(** val kill : uData -> (str -> str list) -> movement -> bool m **)

let kill u seg m0 =
  bind (if notifies m0 then emit EStartKill else ret ()) (fun _ ->
    bind
      (match m0 with
       | MWholeLine -> bind move_home (fun _ -> kill_line seg)
       | MBeginningOfLine -> discard_line seg
       | MEndOfLine -> kill_line seg
       | MBackwardWord (n0, w) -> delete_prev_word u seg w n0
       | MForwardWord (n0, a, w) -> delete_word u seg a w n0
       | MViCharSearch (n0, cs) -> delete_to seg cs n0
       | MViFirstPrint ->
         bind get (fun b ->
           bind (lift (vi_first_print_pos u seg b)) (fun r ->
             match r with
             | Some p ->
               if Nat.ltb p b.pos
               then bind (drain p b.pos DBackward) (fun _ ->
                      bind (put_pos p) (fun _ -> ret true))
               else if Nat.ltb b.pos p
                    then bind (drain b.pos p DForward) (fun _ -> ret true)
                    else ret false
             | None -> ret false))
       | MBackwardChar n0 -> backspace seg n0
       | MForwardChar n0 ->
         bind (delete seg n0) (fun r ->
           ret (match r with
                | Some _ -> true
                | None -> false))
       | MLineUp n0 ->
         bind get (fun b ->
           bind (lift (n_lines_up b n0)) (fun r ->
             match r with
             | Some p ->
               let (s, e) = p in bind (delete_range s e) (fun _ -> ret true)
             | None -> ret false))
       | MLineDown n0 ->
         bind get (fun b ->
           bind (lift (n_lines_down b n0)) (fun r ->
             match r with
             | Some p ->
               let (s, e) = p in bind (delete_range s e) (fun _ -> ret true)
             | None -> ret false))
       | MWholeBuffer -> bind move_buffer_start (fun _ -> kill_buffer)
       | MBeginningOfBuffer -> discard_buffer
       | MEndOfBuffer -> kill_buffer) (fun killed ->
      bind (if notifies m0 then emit EStopKill else ret ()) (fun _ ->
        ret killed)))

(** val split_lf : str -> str -> str list **)

let rec split_lf s cur =
  match s with
  | [] -> (rev cur) :: []
  | c :: t ->
    if N.eqb c lF then (rev cur) :: (split_lf t []) else split_lf t (c :: cur)

(** val leading_ws_bytes : uData -> str -> nat **)

let rec leading_ws_bytes u = function
| [] -> O
| c :: t ->
  if u.u_is_whitespace c then add (clen c) (leading_ws_bytes u t) else O

(** val dedent_lines : uData -> str list -> nat -> nat -> unit m **)

let rec dedent_lines u lines amount index =
  match lines with
  | [] -> ret ()
  | line :: t ->
    let mx = leading_ws_bytes u line in
    let deleting =
      boundary_down line (S (Nat.min mx amount)) (Nat.min mx amount)
    in
    bind (drain index (add index deleting) DForward) (fun _ ->
      bind get (fun b ->
        bind
          (if Nat.leb index b.pos
           then if Nat.ltb (sub b.pos index) deleting
                then put_pos index
                else put_pos (sub b.pos deleting)
           else ret ()) (fun _ ->
          dedent_lines u t amount
            (sub (add (add index (blen line)) (S O)) deleting))))

(** val indent_chunks : nat -> nat -> nat -> nat -> unit m **)

let rec indent_chunks amount off fuel index =
  match fuel with
  | O -> ret ()
  | S f ->
    if Nat.ltb off amount
    then bind
           (insert_str index
             (repeat (Npos (XO (XO (XO (XO (XO XH))))))
               (Nat.min (sub amount off) indent_max))) (fun _ ->
           indent_chunks amount (add off indent_max) f index)
    else ret ()

(** val indent_lines : str list -> nat -> nat -> unit m **)

let rec indent_lines lines amount index =
  match lines with
  | [] -> ret ()
  | line :: t ->
    bind (indent_chunks amount O (S amount) index) (fun _ ->
      bind get (fun b ->
        bind
          (if Nat.leb index b.pos then put_pos (add b.pos amount) else ret ())
          (fun _ ->
          indent_lines t amount
            (add (add (add index amount) (blen line)) (S O)))))

(** val indent :
    uData -> (str -> str list) -> movement -> nat -> bool -> bool m **)

let indent u seg m0 amount dedent =
  bind get (fun b ->
    bind
      (lift
        (match m0 with
         | MBackwardWord (n0, w) ->
           (match prev_word_pos u seg b b.pos w n0 with
            | Ok a ->
              (match a with
               | Some p -> Ok (Some (p, b.pos))
               | None -> Ok None)
            | Panic -> Panic)
         | MForwardWord (n0, a, w) ->
           (match next_word_pos u seg b b.pos a w n0 with
            | Ok a0 ->
              (match a0 with
               | Some p -> Ok (Some (b.pos, p))
               | None -> Ok None)
            | Panic -> Panic)
         | MLineUp n0 -> n_lines_up b n0
         | MLineDown n0 -> n_lines_down b n0
         | MWholeBuffer -> Ok (Some (O, (lb_len b)))
         | MBeginningOfBuffer -> Ok (Some (O, b.pos))
         | MEndOfBuffer -> Ok (Some (b.pos, (lb_len b)))
         | _ -> Ok (Some (b.pos, b.pos)))) (fun pr ->
      let (s0, e0) = match pr with
                     | Some p -> p
                     | None -> (b.pos, b.pos) in
      bind (lift (slice_to b.buf s0)) (fun l ->
        let start =
          match rfind_char lF l with
          | Some p -> add p (S O)
          | None -> O
        in
        bind (lift (slice_from b.buf e0)) (fun r ->
          let e =
            match rfind_char lF r with
            | Some p -> add e0 p
            | None -> lb_len b
          in
          bind (lift (slice b.buf start e)) (fun text ->
            bind
              (if dedent
               then dedent_lines u (split_lf text []) amount start
               else indent_lines (split_lf text []) amount start) (fun _ ->
              ret true))))))

(** val line_up_loop : str -> nat -> nat -> nat -> (nat * nat) res **)

let rec line_up_loop s k dest_start dest_end =
  match k with
  | O -> Ok (dest_start, dest_end)
  | S k' ->
    if Nat.eqb dest_start O
    then Ok (dest_start, dest_end)
    else let de = sub dest_start (S O) in
         (match slice_to s de with
          | Ok l ->
            line_up_loop s k'
              (match rfind_char lF l with
               | Some n0 -> add n0 (S O)
               | None -> O) de
          | Panic -> Panic)

(** val move_to_line_up :
    (str -> str list) -> (str -> nat) -> nat -> nat -> bool m **)

let move_to_line_up seg width n0 prompt_col =
  bind get (fun b ->
    bind (lift (slice_to b.buf b.pos)) (fun l ->
      match rfind_char lF l with
      | Some off ->
        bind (lift (slice b.buf (add off (S O)) b.pos)) (fun cur ->
          let column = width cur in
          bind (lift (slice_to b.buf off)) (fun l2 ->
            let ds0 =
              match rfind_char lF l2 with
              | Some k -> add k (S O)
              | None -> O
            in
            bind (lift (line_up_loop b.buf (sub n0 (S O)) ds0 off))
              (fun se ->
              let (ds, de) = se in
              let offset = if Nat.eqb ds O then prompt_col else O in
              bind (lift (slice b.buf ds de)) (fun dest ->
                bind
                  (put_pos
                    (match nth_error (gindices seg dest) (sub column offset) with
                     | Some p -> let (idx, _) = p in add ds idx
                     | None -> de)) (fun _ -> ret true)))))
      | None -> ret false))

(** val line_down_loop :
    str -> nat -> nat -> nat -> nat -> (nat * nat) res **)

let rec line_down_loop s len k dest_start dest_end =
  match k with
  | O -> Ok (dest_start, dest_end)
  | S k' ->
    if Nat.eqb dest_end len
    then Ok (dest_start, dest_end)
    else let ds = add dest_end (S O) in
         (match slice_from s ds with
          | Ok r ->
            line_down_loop s len k' ds
              (match find_char lF r with
               | Some v -> add ds v
               | None -> len)
          | Panic -> Panic)

(** val move_to_line_down :
    (str -> str list) -> (str -> nat) -> nat -> nat -> bool m **)

let move_to_line_down seg width n0 prompt_col =
  bind get (fun b ->
    bind (lift (slice_from b.buf b.pos)) (fun r ->
      match find_char lF r with
      | Some off ->
        bind (lift (slice_to b.buf b.pos)) (fun l ->
          let line_start =
            match rfind_char lF l with
            | Some k -> add k (S O)
            | None -> O
          in
          let offset = if Nat.eqb line_start O then prompt_col else O in
          bind (lift (slice b.buf line_start b.pos)) (fun cur ->
            let column = add (width cur) offset in
            let ds0 = add (add b.pos off) (S O) in
            bind (lift (slice_from b.buf ds0)) (fun r2 ->
              let de0 =
                match find_char lF r2 with
                | Some v -> add ds0 v
                | None -> lb_len b
              in
              bind
                (lift
                  (line_down_loop b.buf (lb_len b) (sub n0 (S O)) ds0 de0))
                (fun se ->
                let (ds, de) = se in
                bind (lift (slice b.buf ds de)) (fun dest ->
                  bind
                    (put_pos
                      (match nth_error (gindices seg dest) column with
                       | Some p -> let (idx, _) = p in add ds idx
                       | None -> de)) (fun _ -> ret true))))))
      | None -> ret false))

type lbop =
| OpIns of n * nat
| OpYank of str * nat
| OpYankPop of nat * str
| OpMoveBackward of nat
| OpMoveForward of nat
| OpBufferStart
| OpBufferEnd
| OpHome
| OpEnd
| OpIsEndOfInput
| OpDelete of nat
| OpBackspace of nat
| OpKillLine
| OpKillBuffer
| OpDiscardLine
| OpDiscardBuffer
| OpTransposeChars
| OpPrevWord of word_def * nat
| OpDeletePrevWord of word_def * nat
| OpNextWord of at_pos * word_def * nat
| OpMoveTo of char_search * nat
| OpDeleteWord of at_pos * word_def * nat
| OpDeleteTo of char_search * nat
| OpEditWord of word_action
| OpTransposeWords of nat
| OpReplace of nat * nat * str
| OpInsertStr of nat * str
| OpDeleteRange of nat * nat
| OpCopy of movement
| OpKill of movement
| OpIndent of movement * nat * bool
| OpUpdate of str * nat
| OpSetPos of nat
| OpNextPos of nat

type lbret =
| RUnit
| RBool of bool
| ROptBool of bool option
| ROptStr of str option
| ROptNat of nat option

(** val mapM : ('a1 -> 'a2) -> 'a1 m -> 'a2 m **)

let mapM f m0 =
  bind m0 (fun a -> ret (f a))

(** val pureM : (lb -> 'a1 res) -> 'a1 m **)

let pureM f =
  bind get (fun b -> lift (f b))

(** val lb_apply : uData -> (str -> str list) -> lbop -> lbret m **)

let lb_apply u seg = function
| OpIns (c, n0) -> mapM (fun x -> ROptBool x) (insert c n0)
| OpYank (s, n0) -> mapM (fun x -> ROptBool x) (yank s n0)
| OpYankPop (k, s) -> mapM (fun x -> ROptBool x) (yank_pop k s)
| OpMoveBackward n0 -> mapM (fun x -> RBool x) (move_backward seg n0)
| OpMoveForward n0 -> mapM (fun x -> RBool x) (move_forward seg n0)
| OpBufferStart -> mapM (fun x -> RBool x) move_buffer_start
| OpBufferEnd -> mapM (fun x -> RBool x) move_buffer_end
| OpHome -> mapM (fun x -> RBool x) move_home
| OpEnd -> mapM (fun x -> RBool x) move_end
| OpIsEndOfInput -> pureM (fun b -> Ok (RBool (is_end_of_input u b)))
| OpDelete n0 -> mapM (fun x -> ROptStr x) (delete seg n0)
| OpBackspace n0 -> mapM (fun x -> RBool x) (backspace seg n0)
| OpKillLine -> mapM (fun x -> RBool x) (kill_line seg)
| OpKillBuffer -> mapM (fun x -> RBool x) kill_buffer
| OpDiscardLine -> mapM (fun x -> RBool x) (discard_line seg)
| OpDiscardBuffer -> mapM (fun x -> RBool x) discard_buffer
| OpTransposeChars -> mapM (fun x -> RBool x) (transpose_chars seg)
| OpPrevWord (w, n0) -> mapM (fun x -> RBool x) (move_to_prev_word u seg w n0)
| OpDeletePrevWord (w, n0) ->
  mapM (fun x -> RBool x) (delete_prev_word u seg w n0)
| OpNextWord (a, w, n0) ->
  mapM (fun x -> RBool x) (move_to_next_word u seg a w n0)
| OpMoveTo (cs, n0) -> mapM (fun x -> RBool x) (move_to seg cs n0)
| OpDeleteWord (a, w, n0) ->
  mapM (fun x -> RBool x) (delete_word u seg a w n0)
| OpDeleteTo (cs, n0) -> mapM (fun x -> RBool x) (delete_to seg cs n0)
| OpEditWord a -> mapM (fun x -> RBool x) (edit_word u seg a)
| OpTransposeWords n0 -> mapM (fun x -> RBool x) (transpose_words u seg n0)
| OpReplace (a, b, s) -> mapM (fun _ -> RUnit) (replace a b s)
| OpInsertStr (i, s) -> mapM (fun x -> RBool x) (insert_str i s)
| OpDeleteRange (a, b) -> mapM (fun _ -> RUnit) (delete_range a b)
| OpCopy m0 ->
  pureM (fun b ->
    match copy u seg b m0 with
    | Ok r -> Ok (ROptStr r)
    | Panic -> Panic)
| OpKill m0 -> mapM (fun x -> RBool x) (kill u seg m0)
| OpIndent (m0, a, d) -> mapM (fun x -> RBool x) (indent u seg m0 a d)
| OpUpdate (s, p) -> mapM (fun _ -> RUnit) (update s p)
| OpSetPos p -> mapM (fun _ -> RUnit) (set_pos p)
| OpNextPos n0 ->
  pureM (fun b ->
    match next_pos seg b n0 with
    | Ok r -> Ok (ROptNat r)
    | Panic -> Panic)

(** val lb_run :
    uData -> (str -> str list) -> lbop list -> lb -> ((lbret * lb) * event
    list) option list **)

let rec lb_run u seg ops b =
  match ops with
  | [] -> []
  | o :: t ->
    (match lb_apply u seg o b with
     | Ok a ->
       let (p, ev) = a in
       let (r, b') = p in (Some ((r, b'), ev)) :: (lb_run u seg t b')
     | Panic -> None :: [])
