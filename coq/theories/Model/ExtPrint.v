(* Model of the ExternalPrinter protocol (src/tty/unix.rs: ExternalPrinter::print, PosixRawReader::select,
   create_external_printer): any number of printer threads, one editing thread, a writer mutex, a
   channel of capacity 1 (sync_channel(1)) and a wake-up pipe. A transition system; definitions only.
   print(msg) while the terminal is in raw mode = lock the writer; send msg on the channel (blocks while
   the channel is full); write one byte to the pipe; unlock. The editing thread, waiting in select() with
   no key pending, wakes up when the pipe is readable: reads one byte, try_recv, shows the message. *)
From Coq Require Import List Bool Arith Lia.
Import ListNotations.

Definition msg : Type := nat * nat.          (* (thread, payload) *)

Inductive hstage := HLocked | HSent | HPoked.   (* where the thread holding the writer lock is *)

Record pstate := mkPs {
  todo : nat -> list nat;                   (* per thread: payloads still to print, in program order *)
  holder : option (nat * hstage);           (* the writer mutex *)
  chan : option msg;                        (* sync_channel(1) *)
  pipe : nat;                               (* bytes in the wake-up pipe *)
  shown : list msg;                         (* messages displayed so far, oldest first *)
}.

Definition upd (f : nat -> list nat) (i : nat) (v : list nat) : nat -> list nat :=
  fun k => if Nat.eqb k i then v else f k.

Inductive step : pstate -> pstate -> Prop :=
| s_lock i st m rest :
    holder st = None -> todo st i = m :: rest ->
    step st (mkPs (todo st) (Some (i, HLocked)) (chan st) (pipe st) (shown st))
| s_send i st m rest :
    holder st = Some (i, HLocked) -> todo st i = m :: rest -> chan st = None ->
    step st (mkPs (upd (todo st) i rest) (Some (i, HSent)) (Some (i, m)) (pipe st) (shown st))
| s_poke i st :
    holder st = Some (i, HSent) ->
    step st (mkPs (todo st) (Some (i, HPoked)) (chan st) (S (pipe st)) (shown st))
| s_unlock i st :
    holder st = Some (i, HPoked) ->
    step st (mkPs (todo st) None (chan st) (pipe st) (shown st))
(* the editing thread: select() reports the pipe readable; one byte is consumed; try_recv *)
| s_take_some st m p :
    pipe st = S p -> chan st = Some m ->
    step st (mkPs (todo st) (holder st) None p (shown st ++ [m]))
| s_take_none st p :
    pipe st = S p -> chan st = None ->
    step st (mkPs (todo st) (holder st) None p (shown st)).

Inductive steps : pstate -> pstate -> Prop :=
| steps_refl st : steps st st
| steps_cons st1 st2 st3 : step st1 st2 -> steps st2 st3 -> steps st1 st3.

Definition initial (prog : nat -> list nat) : pstate := mkPs prog None None 0 [].
