(* Model of src/kill_ring.rs. Definitions only. *)
From RL Require Export LineBuffer.

Inductive kr_action := KAKill | KAYank (size : nat) | KAOther.
Inductive kr_mode := KAppend | KPrepend.

Record killring := mkKr {
  kr_slots : list str;      (* Vec<String>, index 0 first *)
  kr_cap : nat;             (* slots.capacity() *)
  kr_index : nat;
  kr_last : kr_action;
  kr_killing : bool;
  kr_newest : nat;          (* slot of the most recent kill: yank-pop rotates kr_index only (repair of K1) *)
}.
Definition kr_new (size : nat) : killring := mkKr [] size 0 KAOther false 0.
Definition kr_reset (k : killring) : killring :=
  mkKr (kr_slots k) (kr_cap k) (kr_index k) KAOther (kr_killing k) (kr_newest k).

Fixpoint list_set {A} (l : list A) (i : nat) (x : A) : list A :=
  match l, i with
  | [], _ => []
  | _ :: t, 0 => x :: t
  | a :: t, S j => a :: list_set t j x
  end.

(* kill(text, dir): Panic where slots[index] would be out of bounds *)
Definition kr_kill (k : killring) (text : str) (m : kr_mode) : res killring :=
  match kr_last k with
  | KAKill =>
    if Nat.eqb (kr_cap k) 0 then Ok k
    else match nth_error (kr_slots k) (kr_index k) with
         | None => Panic
         | Some s =>
           let s' := match m with KAppend => s ++ text | KPrepend => text ++ s end in
           Ok (mkKr (list_set (kr_slots k) (kr_index k) s') (kr_cap k) (kr_index k) KAKill (kr_killing k) (kr_newest k))
         end
  | _ =>
    if Nat.eqb (kr_cap k) 0 then Ok (mkKr (kr_slots k) (kr_cap k) (kr_index k) KAKill (kr_killing k) (kr_newest k))
    else
      (* self.index = self.newest; then advance *)
      let idx := if Nat.eqb (kr_newest k) (kr_cap k - 1) then 0
                 else if negb (Nat.eqb (length (kr_slots k)) 0) then S (kr_newest k) else kr_newest k in
      if Nat.eqb idx (length (kr_slots k)) then
        Ok (mkKr (kr_slots k ++ [text]) (kr_cap k) idx KAKill (kr_killing k) idx)
      else if Nat.ltb idx (length (kr_slots k)) then
        Ok (mkKr (list_set (kr_slots k) idx text) (kr_cap k) idx KAKill (kr_killing k) idx)
      else Panic
  end.

(* repeated(n): the last yank was inserted n times (repair of K2) *)
Definition kr_repeated (k : killring) (n : nat) : killring :=
  match kr_last k with
  | KAYank size => mkKr (kr_slots k) (kr_cap k) (kr_index k) (KAYank (size * n)) (kr_killing k) (kr_newest k)
  | _ => k
  end.

Definition kr_yank (k : killring) : killring * option str :=
  match nth_error (kr_slots k) (kr_index k) with
  | Some s => (mkKr (kr_slots k) (kr_cap k) (kr_index k) (KAYank (blen s)) (kr_killing k) (kr_newest k), Some s)
  | None => (k, None)        (* empty ring (index is 0 then) *)
  end.

Definition kr_yank_pop (k : killring) : killring * option (nat * str) :=
  match kr_last k with
  | KAYank size =>
    match kr_slots k with
    | [] => (k, None)
    | _ =>
      let idx := if Nat.eqb (kr_index k) 0 then length (kr_slots k) - 1 else kr_index k - 1 in
      match nth_error (kr_slots k) idx with
      | Some s => (mkKr (kr_slots k) (kr_cap k) idx (KAYank (blen s)) (kr_killing k) (kr_newest k), Some (size, s))
      | None => (k, None)
      end
    end
  | _ => (k, None)
  end.

(* the KillRing as DeleteListener *)
Definition kr_notify (k : killring) (e : event) : res killring :=
  match e with
  | EStartKill => Ok (mkKr (kr_slots k) (kr_cap k) (kr_index k) (kr_last k) true (kr_newest k))
  | EStopKill => Ok (mkKr (kr_slots k) (kr_cap k) (kr_index k) (kr_last k) false (kr_newest k))
  | EDelete _ s d =>
    if kr_killing k then kr_kill k s (match d with DForward => KAppend | DBackward => KPrepend end)
    else Ok k
  | _ => Ok k
  end.
Fixpoint kr_notify_all (k : killring) (es : list event) : res killring :=
  match es with
  | [] => Ok k
  | e :: t => match kr_notify k e with Ok k' => kr_notify_all k' t | Panic => Panic end
  end.
