(* Model of src/lib.rs apply_backspace_direct and readline_direct (input that
   is not a terminal). Definitions only. The input is a stream of valid
   UTF-8, modelled as a list of characters. *)
From RL Require Export Uax29.

(* ---------- apply_backspace_direct, with Rust's byte arithmetic ---------- *)

(* String::truncate(n): panics unless n is a character boundary (n <= len) *)
Definition str_truncate (s : str) (n : nat) : res str :=
  if Nat.ltb (blen s) n then Ok s      (* truncate beyond the end is a no-op *)
  else match bsplit s n with
       | Some (l, _) => Ok l
       | None => Panic
       end.

Fixpoint apply_bs_go (gs : list str) (out : str) (sizes : list nat) : res str :=
  match gs with
  | [] => Ok out
  | g :: t =>
    if str_eqb g [8%N] then
      match sizes with
      | n :: sizes' =>
        if Nat.ltb (blen out) n then Panic          (* usize underflow (debug) *)
        else match str_truncate out (blen out - n) with
             | Ok out' => apply_bs_go t out' sizes'
             | Panic => Panic
             end
      | [] => apply_bs_go t out sizes
      end
    else apply_bs_go t (out ++ g) (blen g :: sizes)
  end.

Definition apply_bs_impl (seg : str -> list str) (s : str) : res str :=
  apply_bs_go (seg s) [] [].

(* what it should compute: a stack of clusters, backspace pops *)
Definition bs_stack (gs : list str) : list str :=
  fold_left (fun st g => if str_eqb g [8%N] then tl st else g :: st) gs [].
Definition apply_bs (seg : str -> list str) (s : str) : str :=
  concat (rev (bs_stack (seg s))).

(* ---------- readline_direct ---------- *)

Inductive vres := VValid | VInvalidMsg | VInvalid | VIncomplete | VError.
Inductive dres := DLine (s : str) | DEof | DErr | DPanic.

(* BufRead::read_line: lines with their LF; a final unterminated, non-empty one *)
Fixpoint dlines_aux (inp : str) (cur : str) : list str :=
  match inp with
  | [] => match cur with [] => [] | _ => [rev cur] end
  | c :: t => if (c =? 10)%N then rev (c :: cur) :: dlines_aux t []
              else dlines_aux t (c :: cur)
  end.
Definition dlines (inp : str) : list str := dlines_aux inp [].

Definition ends_with (s : str) (c : N) : bool :=
  match rev s with x :: _ => (x =? c)%N | [] => false end.
Definition pop (s : str) : str := rev (tl (rev s)).

(* one pass of the loop body after read_line appended [l] to [acc] *)
Definition strip_terminator (s : str) : str * bool * bool :=
  if ends_with s 10 then
    let s1 := pop s in
    if ends_with s1 13 then (pop s1, true, true) else (s1, true, false)
  else (s, false, false).

(* successive readline calls over the remaining lines; [acc] is the text a
   validator left pending inside one call *)
Fixpoint direct_go (seg : str -> list str) (v : option (str -> vres))
         (acc : str) (ls : list str) : list dres :=
  match ls with
  | [] => [DEof]
  | l :: t =>
    let '(s, tn, tr) := strip_terminator (acc ++ l) in
    match apply_bs_impl seg s with
    | Panic => [DPanic]
    | Ok inp =>
      match v with
      | None => DLine inp :: direct_go seg v [] t
      | Some vf =>
        match vf inp with
        | VValid => DLine inp :: direct_go seg v [] t
        | VInvalidMsg | VInvalid => direct_go seg v inp t
        | VIncomplete =>
          direct_go seg v (inp ++ (if tr then [13%N] else []) ++ (if tn then [10%N] else [])) t
        | VError => DErr :: direct_go seg v [] t
        end
      end
    end
  end.

Definition direct_all seg v (input : str) : list dres := direct_go seg v [] (dlines input).

(* the shipped MatchingBracketValidator (src/validate.rs) *)
Fixpoint brackets_go (s : str) (stack : list N) : vres :=
  match s with
  | [] => match stack with [] => VValid | _ => VIncomplete end
  | c :: t =>
    if ((c =? 40) || (c =? 91) || (c =? 123))%N then brackets_go t (c :: stack)
    else if ((c =? 41) || (c =? 93) || (c =? 125))%N then
      match stack with
      | o :: st => if ((o =? 40) && (c =? 41) || (o =? 91) && (c =? 93) || (o =? 123) && (c =? 125))%N
                   then brackets_go t st else VInvalidMsg
      | [] => VInvalidMsg
      end
    else brackets_go t stack
  end.
Definition bracket_validator (s : str) : vres := brackets_go s [].
