(* Model of src/undo.rs Changeset (undo side; redos are only ever cleared or
   pushed, no command reads them). Definitions only. *)
From RL Require Export LineBuffer.

Inductive change :=
| UBegin | UEnd
| UInsert (idx : nat) (text : str)
| UDelete (idx : nat) (text : str)
| UReplace (idx : nat) (old new : str).

(* [undos]: head = most recent (Vec::last) *)
Record changeset := mkCs { cs_level : nat; cs_undos : list change }.
Definition cs_new : changeset := mkCs 0 [].

Definition cs_begin (c : changeset) : changeset * nat :=
  (mkCs (S (cs_level c)) (UBegin :: cs_undos c), length (cs_undos c)).

(* end(): closes every open level *)
Fixpoint cs_end_loop (level : nat) (undos : list change) (touched : bool) : list change * bool :=
  match level with
  | 0 => (undos, touched)
  | S l => match undos with
           | UBegin :: rest => cs_end_loop l rest touched
           | _ => cs_end_loop l (UEnd :: undos) true
           end
  end.
Definition cs_end (c : changeset) : changeset * bool :=
  let '(u, t) := cs_end_loop (cs_level c) (cs_undos c) false in (mkCs 0 u, t).

Section Undo.
  Variable U : UData.
  Variable seg : str -> list str.

  Definition cs_insert (c : changeset) (idx : nat) (ch : N) : changeset :=
    match cs_undos c with
    | UInsert i text :: rest =>
      if u_is_alphanumeric U ch && Nat.eqb (i + blen text) idx
      then mkCs (cs_level c) (UInsert i (text ++ [ch]) :: rest)
      else mkCs (cs_level c) (UInsert idx [ch] :: cs_undos c)
    | _ => mkCs (cs_level c) (UInsert idx [ch] :: cs_undos c)
    end.

  Definition cs_insert_str (c : changeset) (idx : nat) (s : str) : changeset :=
    match s with [] => c | _ => mkCs (cs_level c) (UInsert idx s :: cs_undos c) end.

  Definition single_char (s : str) : bool :=
    match seg s with [g] => forallb (u_is_alphanumeric U) g | _ => false end.

  Definition cs_delete (c : changeset) (indx : nat) (s : str) : changeset :=
    match s with
    | [] => c
    | _ =>
      match cs_undos c with
      | UDelete i text :: rest =>
        if single_char s && (Nat.eqb i indx || Nat.eqb i (indx + blen s)) then
          if Nat.eqb i indx then mkCs (cs_level c) (UDelete i (text ++ s) :: rest)
          else mkCs (cs_level c) (UDelete indx (s ++ text) :: rest)
        else mkCs (cs_level c) (UDelete indx s :: cs_undos c)
      | _ => mkCs (cs_level c) (UDelete indx s :: cs_undos c)
      end
    end.

  Definition cs_replace (c : changeset) (indx : nat) (old_ new_ : str) : changeset :=
    match cs_undos c with
    | UReplace i old new :: rest =>
      if Nat.eqb (i + blen new) indx then mkCs (cs_level c) (UReplace i (old ++ old_) (new ++ new_) :: rest)
      else mkCs (cs_level c) (UReplace indx old_ new_ :: cs_undos c)
    | _ => mkCs (cs_level c) (UReplace indx old_ new_ :: cs_undos c)
    end.

  (* the Changeset as ChangeListener: feed it the notifications of a line-buffer op *)
  Definition cs_notify (c : changeset) (e : event) : changeset :=
    match e with
    | EInsertChar i ch => cs_insert c i ch
    | EInsertStr i s => cs_insert_str c i s
    | EDelete i s _ => cs_delete c i s
    | EReplace i o n => cs_replace c i o n
    | EStartKill | EStopKill => c
    end.
  Definition cs_notify_all (c : changeset) (es : list event) : changeset := fold_left cs_notify es c.

  (* Change::undo on the line (NoListener) *)
  Definition change_undo (ch : change) (b : lb) : res lb :=
    match ch with
    | UBegin | UEnd => Panic                      (* unreachable!() *)
    | UInsert idx text =>
      match delete_range idx (idx + blen text) b with Ok (_, b', _) => Ok b' | Panic => Panic end
    | UDelete idx text =>
      match insert_str idx text b with
      | Ok (_, b', _) => match set_pos (idx + blen text) b' with Ok (_, b'', _) => Ok b'' | Panic => Panic end
      | Panic => Panic
      end
    | UReplace idx old new =>
      match replace idx (idx + blen new) old b with Ok (_, b', _) => Ok b' | Panic => Panic end
    end.

  (* undo(line, n): (changeset, line, undone?) ; [waiting] is an integer in the code *)
  Fixpoint cs_undo_loop (undos : list change) (b : lb) (n : nat) (count : nat) (waiting : Z) (undone : bool)
    : res (list change * lb * bool) :=
    match undos with
    | [] => Ok ([], b, undone)
    | ch :: rest =>
      let step (b' : lb) (waiting' : Z) (undone' : bool) :=
          if (waiting' <=? 0)%Z then
            if Nat.leb n (S count) then Ok (rest, b', undone')
            else cs_undo_loop rest b' n (S count) waiting' undone'
          else cs_undo_loop rest b' n count waiting' undone' in
      match ch with
      | UBegin => step b (waiting - 1)%Z undone
      | UEnd => step b (waiting + 1)%Z undone
      | _ => match change_undo ch b with
             | Ok b' => step b' waiting true
             | Panic => Panic
             end
      end
    end.
  Definition cs_undo (c : changeset) (b : lb) (n : nat) : res (changeset * lb * bool) :=
    match cs_undo_loop (cs_undos c) b n 0 0%Z false with
    | Ok (u, b', d) => Ok (mkCs (cs_level c) u, b', d)
    | Panic => Panic
    end.

  (* truncate(len): keeps the OLDEST len entries; the group level follows the
     markers that are discarded (repair of finding F8) *)
  Fixpoint trunc_level (dropped : list change) (level : nat) : nat :=
    (* [dropped] newest first; the code drains oldest first: the order only matters for saturation *)
    match dropped with
    | [] => level
    | ch :: rest =>
      let l := trunc_level rest level in
      match ch with UBegin => l - 1 | UEnd => S l | _ => l end
    end.
  Definition cs_truncate (c : changeset) (len : nat) : changeset :=
    let k := length (cs_undos c) - len in
    mkCs (trunc_level (firstn k (cs_undos c)) (cs_level c)) (skipn k (cs_undos c)).

  (* last_insert() *)
  Fixpoint cs_last_insert_go (undos : list change) : option str :=
    match undos with
    | UInsert _ text :: _ => Some text
    | UReplace _ _ new :: _ => Some new
    | UEnd :: rest => cs_last_insert_go rest
    | _ => None
    end.
  Definition cs_last_insert (c : changeset) : option str := cs_last_insert_go (cs_undos c).
End Undo.
