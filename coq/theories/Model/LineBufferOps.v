(* The operations of the `linebuf` correspondence stream as one datatype, and
   their dispatch to the model of each LineBuffer method. Definitions only. *)
From RL Require Export LineBuffer.

Inductive lbop :=
| OpIns (c : N) (n : nat) | OpYank (s : str) (n : nat) | OpYankPop (size : nat) (s : str)
| OpMoveBackward (n : nat) | OpMoveForward (n : nat) | OpBufferStart | OpBufferEnd
| OpHome | OpEnd | OpIsEndOfInput
| OpDelete (n : nat) | OpBackspace (n : nat)
| OpKillLine | OpKillBuffer | OpDiscardLine | OpDiscardBuffer | OpTransposeChars
| OpPrevWord (w : word_def) (n : nat) | OpDeletePrevWord (w : word_def) (n : nat)
| OpNextWord (a : at_pos) (w : word_def) (n : nat) | OpMoveTo (cs : char_search) (n : nat)
| OpDeleteWord (a : at_pos) (w : word_def) (n : nat) | OpDeleteTo (cs : char_search) (n : nat)
| OpEditWord (a : word_action) | OpTransposeWords (n : nat)
| OpReplace (a b : nat) (s : str) | OpInsertStr (idx : nat) (s : str) | OpDeleteRange (a b : nat)
| OpCopy (m : movement) | OpKill (m : movement) | OpIndent (m : movement) (amount : nat) (dedent : bool)
| OpUpdate (s : str) (p : nat) | OpSetPos (p : nat) | OpNextPos (n : nat).

Inductive lbret :=
| RUnit | RBool (b : bool) | ROptBool (o : option bool) | ROptStr (o : option str) | ROptNat (o : option nat).

Section Apply.
  Variable U : UData.
  Variable seg : str -> list str.

  Definition mapM {A B} (f : A -> B) (m : M A) : M B := bind m (fun a => ret (f a)).
  Definition pureM {A} (f : lb -> res A) : M A := bind get (fun b => lift (f b)).

  Definition lb_apply (o : lbop) : M lbret :=
    match o with
    | OpIns c n => mapM ROptBool (insert c n)
    | OpYank s n => mapM ROptBool (yank s n)
    | OpYankPop k s => mapM ROptBool (yank_pop k s)
    | OpMoveBackward n => mapM RBool (move_backward seg n)
    | OpMoveForward n => mapM RBool (move_forward seg n)
    | OpBufferStart => mapM RBool move_buffer_start
    | OpBufferEnd => mapM RBool move_buffer_end
    | OpHome => mapM RBool move_home
    | OpEnd => mapM RBool move_end
    | OpIsEndOfInput => pureM (fun b => Ok (RBool (is_end_of_input U b)))
    | OpDelete n => mapM ROptStr (delete seg n)
    | OpBackspace n => mapM RBool (backspace seg n)
    | OpKillLine => mapM RBool (kill_line seg)
    | OpKillBuffer => mapM RBool kill_buffer
    | OpDiscardLine => mapM RBool (discard_line seg)
    | OpDiscardBuffer => mapM RBool discard_buffer
    | OpTransposeChars => mapM RBool (transpose_chars seg)
    | OpPrevWord w n => mapM RBool (move_to_prev_word U seg w n)
    | OpDeletePrevWord w n => mapM RBool (delete_prev_word U seg w n)
    | OpNextWord a w n => mapM RBool (move_to_next_word U seg a w n)
    | OpMoveTo cs n => mapM RBool (move_to seg cs n)
    | OpDeleteWord a w n => mapM RBool (delete_word U seg a w n)
    | OpDeleteTo cs n => mapM RBool (delete_to seg cs n)
    | OpEditWord a => mapM RBool (edit_word U seg a)
    | OpTransposeWords n => mapM RBool (transpose_words U seg n)
    | OpReplace a b s => mapM (fun _ => RUnit) (replace a b s)
    | OpInsertStr i s => mapM RBool (insert_str i s)
    | OpDeleteRange a b => mapM (fun _ => RUnit) (delete_range a b)
    | OpCopy m => pureM (fun b => match copy U seg b m with Ok r => Ok (ROptStr r) | Panic => Panic end)
    | OpKill m => mapM RBool (kill U seg m)
    | OpIndent m a d => mapM RBool (indent U seg m a d)
    | OpUpdate s p => mapM (fun _ => RUnit) (update s p)
    | OpSetPos p => mapM (fun _ => RUnit) (set_pos p)
    | OpNextPos n => pureM (fun b => match next_pos seg b n with Ok r => Ok (ROptNat r) | Panic => Panic end)
    end.

  (* run a sequence, stopping at the first panic: per-op (ret, buf, pos, events) *)
  Fixpoint lb_run (ops : list lbop) (b : lb) : list (option (lbret * lb * list event)) :=
    match ops with
    | [] => []
    | o :: t => match lb_apply o b with
                | Ok (r, b', ev) => Some (r, b', ev) :: lb_run t b'
                | Panic => [None]
                end
    end.
End Apply.
