(* Model of an interactive read (src/lib.rs readline_edit, complete_line,
   reverse_incremental_search; src/edit.rs State; src/command.rs execute;
   src/keymap.rs InputState; src/tty/unix.rs reader): one function from the
   characters arriving on the terminal (in chunks) to the observations, the
   characters written to the terminal and the result of the read.
   Definitions only. *)
From RL Require Export Undo KillRing Render Keys GenEscSeq History Uax29.

(* ---------- commands ---------- *)

Inductive anchor := AAfter | ABefore.

Inductive cmd :=
| CAbort | CAcceptLine | CBeginningOfHistory | CCapitalizeWord | CClearScreen | CComplete
| CCompleteBackward | CCompleteHint | CDedent (m : movement) | CDowncaseWord | CEndOfFile
| CEndOfHistory | CForwardSearchHistory | CHistorySearchBackward | CHistorySearchForward
| CIndent (m : movement) | CInsert (n : nat) (s : str) | CInterrupt | CKill (m : movement)
| CMove (m : movement) | CNextHistory | CNoop | CRepaint | COverwrite (c : N) | CPreviousHistory
| CQuotedInsert | CReplaceChar (n : nat) (c : N) | CReplace (m : movement) (t : option str)
| CReverseSearchHistory | CSelfInsert (n : nat) (c : N) | CSuspend | CTransposeChars
| CTransposeWords (n : nat) | CUndo (n : nat) | CUnknown | CUpcaseWord | CViYankTo (m : movement)
| CYank (n : nat) (a : anchor) | CYankPop | CLineUpOrPreviousHistory (n : nat)
| CLineDownOrNextHistory (n : nat) | CNewline | CAcceptOrInsertLine (accept_in_the_middle : bool).

Definition is_char_motion (m : movement) : bool :=
  match m with MBackwardChar _ | MForwardChar _ => true | _ => false end.

Definition should_reset_kill_ring (c : cmd) : bool :=
  match c with
  | CKill m => is_char_motion m
  | CClearScreen | CReplace _ _ | CNoop | CSuspend | CYank _ _ | CYankPop => false
  | _ => true
  end.

Definition is_repeatable_change (c : cmd) : bool :=
  match c with
  | CDedent _ | CIndent _ | CInsert _ _ | CKill _ | CReplaceChar _ _ | CReplace _ _ | CSelfInsert _ _
  | CViYankTo _ | CYank _ _ => true
  | _ => false
  end.
Definition is_repeatable (c : cmd) : bool :=
  match c with CMove _ => true | _ => is_repeatable_change c end.

Definition rc (previous : nat) (new : option nat) : nat :=
  match new with Some n => n | None => previous end.

Definition mvt_redo (m : movement) (new : option nat) : movement :=
  match m with
  | MBackwardWord p w => MBackwardWord (rc p new) w
  | MForwardWord p a w => MForwardWord (rc p new) a w
  | MViCharSearch p cs => MViCharSearch (rc p new) cs
  | MBackwardChar p => MBackwardChar (rc p new)
  | MForwardChar p => MForwardChar (rc p new)
  | MLineUp p => MLineUp (rc p new)
  | MLineDown p => MLineDown (rc p new)
  | _ => m
  end.

Definition cs_opposite (cs : char_search) : char_search :=
  match cs with
  | CsForward c => CsBackward c | CsForwardBefore c => CsBackwardAfter c
  | CsBackward c => CsForward c | CsBackwardAfter c => CsForwardBefore c
  end.

(* ---------- input ---------- *)

Inductive inchar :=
| Ch (c : N)
| Bad                       (* bytes that are not UTF-8 *)
| Print (m : str).          (* not input: a message handed to an ExternalPrinter while the read waits here *)
Record istream := mkIn { in_cur : list inchar; in_rest : list (list inchar) }.

Inductive rerr := EEof | EInvalidData | EInterrupted | EValidator | EHangup.

Inductive edit_mode := Emacs | Vi.
Inductive input_mode := IMCommand | IMInsert | IMReplace.
Inductive completion_type := CTCircular | CTList.
Inductive vresult := VRValid (msg : option str) | VRInvalid (msg : option str) | VRIncomplete | VRError.

(* what the Event::Any handler of the harness logs each time a key reaches the keymap *)
Record observation := mkObs {
  o_line : str; o_pos : nat; o_mode : input_mode; o_n : nat; o_positive : bool; o_hint : option str
}.

Record config := mkCfg {
  c_mode : edit_mode;
  c_completion : completion_type;
  c_timeout_none : bool;              (* keyseq_timeout: None (true) or Some(0) (false) *)
  c_cols : nat;
  c_tab_stop : nat;
  c_indent_size : nat;
  c_prompt_limit : nat;
  c_show_all : bool;                  (* completion_show_all_if_ambiguous: list the candidates at the first Tab *)
  c_bell : bool;                      (* bell_style: Audible (true, the unix default) or None / Visible (nothing is written) *)
  c_has_helper : bool;
  c_complete : str -> nat -> nat * list str;     (* Completer::complete *)
  c_hint : str -> nat -> option str;             (* Hinter::hint (display = completion) *)
  c_validate : str -> vresult;                   (* Validator::validate *)
  c_bindings : list (list key * cmd);            (* custom bindings (normalised keys) *)
  c_veof : key; c_vintr : key; c_vquit : key; c_vsusp : key;
}.

Record est := mkEst {
  e_line : lb;
  e_changes : changeset;
  e_kr : killring;
  e_hist : list str;
  e_hidx : nat;
  e_saved : str * nat;
  e_hint : option str;
  e_layout : layout;
  e_prompt : str;
  e_prompt_size : pos2;
  i_input_mode : input_mode;
  i_num_args : Z;
  i_last_cmd : cmd;
  i_last_cs : option char_search;
  e_inp : istream;
  e_out : list (list N);        (* chunks written, newest first *)
  e_obs : list observation;     (* newest first *)
}.

Inductive eres (A : Type) :=
| EOk (a : A) (s : est)
| EErr (e : rerr) (s : est)
| EPanic
| EFuel.
Arguments EOk {A} a s.
Arguments EErr {A} e s.
Arguments EPanic {A}.
Arguments EFuel {A}.

Definition E (A : Type) : Type := est -> eres A.
Definition eret {A} (a : A) : E A := fun s => EOk a s.
Definition ebind {A B} (m : E A) (f : A -> E B) : E B :=
  fun s => match m s with
           | EOk a s' => f a s'
           | EErr e s' => EErr e s'
           | EPanic => EPanic
           | EFuel => EFuel
           end.
Definition eget : E est := fun s => EOk s s.
Definition eput (s' : est) : E unit := fun _ => EOk tt s'.
Definition efail {A} (e : rerr) : E A := fun s => EErr e s.
Definition epanic {A} : E A := fun _ => EPanic.
Definition efuel {A} : E A := fun _ => EFuel.

Notation "'edo' x '<-' m ';' k" := (ebind m (fun x => k)) (at level 200, x pattern, m at level 100, k at level 200).
Notation "m ';;;' k" := (ebind m (fun _ => k)) (at level 90, right associativity).

(* state updates *)
Definition upd_line (f : lb -> lb) : E unit :=
  fun s => EOk tt (mkEst (f (e_line s)) (e_changes s) (e_kr s) (e_hist s) (e_hidx s) (e_saved s) (e_hint s)
                         (e_layout s) (e_prompt s) (e_prompt_size s) (i_input_mode s) (i_num_args s)
                         (i_last_cmd s) (i_last_cs s) (e_inp s) (e_out s) (e_obs s)).
Definition set_line (b : lb) : E unit := upd_line (fun _ => b).
Definition set_changes (c : changeset) : E unit :=
  fun s => EOk tt (mkEst (e_line s) c (e_kr s) (e_hist s) (e_hidx s) (e_saved s) (e_hint s)
                         (e_layout s) (e_prompt s) (e_prompt_size s) (i_input_mode s) (i_num_args s)
                         (i_last_cmd s) (i_last_cs s) (e_inp s) (e_out s) (e_obs s)).
Definition set_kr (k : killring) : E unit :=
  fun s => EOk tt (mkEst (e_line s) (e_changes s) k (e_hist s) (e_hidx s) (e_saved s) (e_hint s)
                         (e_layout s) (e_prompt s) (e_prompt_size s) (i_input_mode s) (i_num_args s)
                         (i_last_cmd s) (i_last_cs s) (e_inp s) (e_out s) (e_obs s)).
Definition set_hidx (i : nat) : E unit :=
  fun s => EOk tt (mkEst (e_line s) (e_changes s) (e_kr s) (e_hist s) i (e_saved s) (e_hint s)
                         (e_layout s) (e_prompt s) (e_prompt_size s) (i_input_mode s) (i_num_args s)
                         (i_last_cmd s) (i_last_cs s) (e_inp s) (e_out s) (e_obs s)).
Definition set_saved (v : str * nat) : E unit :=
  fun s => EOk tt (mkEst (e_line s) (e_changes s) (e_kr s) (e_hist s) (e_hidx s) v (e_hint s)
                         (e_layout s) (e_prompt s) (e_prompt_size s) (i_input_mode s) (i_num_args s)
                         (i_last_cmd s) (i_last_cs s) (e_inp s) (e_out s) (e_obs s)).
Definition set_hint (h : option str) : E unit :=
  fun s => EOk tt (mkEst (e_line s) (e_changes s) (e_kr s) (e_hist s) (e_hidx s) (e_saved s) h
                         (e_layout s) (e_prompt s) (e_prompt_size s) (i_input_mode s) (i_num_args s)
                         (i_last_cmd s) (i_last_cs s) (e_inp s) (e_out s) (e_obs s)).
Definition set_layout (l : layout) : E unit :=
  fun s => EOk tt (mkEst (e_line s) (e_changes s) (e_kr s) (e_hist s) (e_hidx s) (e_saved s) (e_hint s)
                         l (e_prompt s) (e_prompt_size s) (i_input_mode s) (i_num_args s)
                         (i_last_cmd s) (i_last_cs s) (e_inp s) (e_out s) (e_obs s)).
Definition set_input_mode (m : input_mode) : E unit :=
  fun s => EOk tt (mkEst (e_line s) (e_changes s) (e_kr s) (e_hist s) (e_hidx s) (e_saved s) (e_hint s)
                         (e_layout s) (e_prompt s) (e_prompt_size s) m (i_num_args s)
                         (i_last_cmd s) (i_last_cs s) (e_inp s) (e_out s) (e_obs s)).
Definition set_num_args (z : Z) : E unit :=
  fun s => EOk tt (mkEst (e_line s) (e_changes s) (e_kr s) (e_hist s) (e_hidx s) (e_saved s) (e_hint s)
                         (e_layout s) (e_prompt s) (e_prompt_size s) (i_input_mode s) z
                         (i_last_cmd s) (i_last_cs s) (e_inp s) (e_out s) (e_obs s)).
Definition set_last_cmd (c : cmd) : E unit :=
  fun s => EOk tt (mkEst (e_line s) (e_changes s) (e_kr s) (e_hist s) (e_hidx s) (e_saved s) (e_hint s)
                         (e_layout s) (e_prompt s) (e_prompt_size s) (i_input_mode s) (i_num_args s)
                         c (i_last_cs s) (e_inp s) (e_out s) (e_obs s)).
Definition set_last_cs (c : option char_search) : E unit :=
  fun s => EOk tt (mkEst (e_line s) (e_changes s) (e_kr s) (e_hist s) (e_hidx s) (e_saved s) (e_hint s)
                         (e_layout s) (e_prompt s) (e_prompt_size s) (i_input_mode s) (i_num_args s)
                         (i_last_cmd s) c (e_inp s) (e_out s) (e_obs s)).
Definition set_inp (i : istream) : E unit :=
  fun s => EOk tt (mkEst (e_line s) (e_changes s) (e_kr s) (e_hist s) (e_hidx s) (e_saved s) (e_hint s)
                         (e_layout s) (e_prompt s) (e_prompt_size s) (i_input_mode s) (i_num_args s)
                         (i_last_cmd s) (i_last_cs s) i (e_out s) (e_obs s)).
Definition write (bytes : str) : E unit :=
  fun s => EOk tt (mkEst (e_line s) (e_changes s) (e_kr s) (e_hist s) (e_hidx s) (e_saved s) (e_hint s)
                         (e_layout s) (e_prompt s) (e_prompt_size s) (i_input_mode s) (i_num_args s)
                         (i_last_cmd s) (i_last_cs s) (e_inp s) (bytes :: e_out s) (e_obs s)).
Definition observe (o : observation) : E unit :=
  fun s => EOk tt (mkEst (e_line s) (e_changes s) (e_kr s) (e_hist s) (e_hidx s) (e_saved s) (e_hint s)
                         (e_layout s) (e_prompt s) (e_prompt_size s) (i_input_mode s) (i_num_args s)
                         (i_last_cmd s) (i_last_cs s) (e_inp s) (e_out s) (o :: e_obs s)).

Section Editor.
  Variable U : UData.
  Variable cfg : config.

  Definition seg := useg U.
  Definition cols := c_cols cfg.

  (* ---------- reader (tty/unix.rs PosixRawReader) ---------- *)

  (* next_char: skips to the next chunk when the current one is exhausted *)
  (* characters: a raw read (inside a key sequence, an incremental search, a completion) does not look at the
     message pipe: messages lying in the stream are stepped over and STAY there, in order, in front of what has not
     been read yet -- they are shown when the main loop waits again (drain_prints) *)
  Fixpoint take_in_chunk (ch : list inchar) : option (inchar * list inchar) :=
    match ch with
    | [] => None
    | Print m :: t => match take_in_chunk t with
                      | Some (c, t') => Some (c, Print m :: t')
                      | None => None
                      end
    | c :: t => Some (c, t)
    end.
  (* [pending]: chunks already passed that held messages only *)
  Fixpoint take_first (pending : list inchar) (rest : list (list inchar)) : option (inchar * istream) :=
    match rest with
    | [] => None
    | ch :: rest' => match take_in_chunk ch with
                     | Some (c, t) => Some (c, mkIn (pending ++ t) rest')
                     | None => take_first (pending ++ ch) rest'
                     end
    end.
  Definition take_char (cur : list inchar) (rest : list (list inchar)) : option (inchar * istream) :=
    match take_in_chunk cur with
    | Some (c, t) => Some (c, mkIn t rest)
    | None => take_first cur rest
    end.
  (* the message, if any, that is next in the stream (what select() reports before the next key) *)
  Fixpoint peek_first (rest : list (list inchar)) : option (str * istream) :=
    match rest with
    | [] => None
    | [] :: rest' => peek_first rest'
    | (Print m :: t) :: rest' => Some (m, mkIn t rest')
    | _ => None
    end.
  Definition peek_print (i : istream) : option (str * istream) :=
    match in_cur i with
    | Print m :: t => Some (m, mkIn t (in_rest i))
    | [] => peek_first (in_rest i)
    | _ => None
    end.
  Definition next_char : E N :=
    fun s => match take_char (in_cur (e_inp s)) (in_rest (e_inp s)) with
             | None => EErr EHangup s
             | Some (Bad, i) => match set_inp i s with EOk _ s' => EErr EInvalidData s' | _ => EPanic end
             | Some (Ch c, i) => match set_inp i s with EOk _ s' => EOk c s' | _ => EPanic end
             | Some (Print _, _) => EPanic        (* take_char never returns a message *)
             end.

  (* poll(timeout): buffered input, else wait: forever (None) or not at all (0) *)
  Inductive ptimeout := TZero | TForever | THundred.
  Definition poll (t : ptimeout) : E bool :=
    edo s <- eget;
    match in_cur (e_inp s) with
    | _ :: _ => eret true
    | [] => match t with
            | TZero => eret false
            | TForever => eret true                    (* more input, or a hang-up, wakes it *)
            | THundred => eret false                   (* 100 ms: the driver sends the next chunk only
                                                          once the child waits with no timeout, so a
                                                          timed wait always expires first *)
            end
    end.

  Definition cfg_timeout : ptimeout := if c_timeout_none cfg then TForever else TZero.

  Definition add_alt (k : key) : key := (fst k, with_alt (snd k)).

  Definition escape_o : E key :=
    edo c <- next_char; eret (lookup_key [c] tab_ss3).

  Definition extended_escape (seq2 : N) : E key :=
    edo seq3 <- next_char;
    if (seq3 =? 126)%N then eret (lookup_key [seq2] tab_ext_tilde)
    else if is_digit seq3 then
      edo seq4 <- next_char;
      if (seq4 =? 126)%N then eret (lookup_key [seq2; seq3] tab_ext_2d_tilde)
      else if (seq4 =? 59)%N then
        edo seq5 <- next_char;
        if is_digit seq5 then
          edo seq6 <- next_char;
          if is_digit seq6 then (edo _ <- next_char; eret K_UNKNOWN)
          else if (seq6 =? 82)%N then eret K_UNKNOWN
          else if (seq6 =? 126)%N then eret (lookup_key [seq2; seq3; seq5] tab_ext_2d_mod_tilde)
          else eret K_UNKNOWN
        else eret K_UNKNOWN
      else if is_digit seq4 then
        edo seq5 <- next_char;
        if (seq5 =? 126)%N then eret (lookup_key [seq2; seq3; seq4] tab_ext_3d_tilde)
        else eret K_UNKNOWN
      else eret K_UNKNOWN
    else if (seq3 =? 59)%N then
      edo seq4 <- next_char;
      if is_digit seq4 then
        edo seq5 <- next_char;
        if is_digit seq5 then (edo _ <- next_char; eret K_UNKNOWN)
        else if (seq2 =? 49)%N then eret (lookup_key [seq4; seq5] tab_ext_1_mod)
        else if (seq5 =? 126)%N then eret (lookup_key [seq2; seq4] tab_ext_mod_tilde)
        else eret K_UNKNOWN
      else eret K_UNKNOWN
    else eret (lookup_key [seq2; seq3] tab_ext_rxvt).

  Definition escape_csi : E key :=
    edo seq2 <- next_char;
    if is_digit seq2 then
      if ((seq2 =? 48) || (seq2 =? 57))%N then eret K_UNKNOWN
      else extended_escape seq2
    else if (seq2 =? 91)%N then
      edo seq3 <- next_char; eret (lookup_key [seq3] tab_csi_linux)
    else eret (lookup_key [seq2] tab_csi_ansi).

  Definition do_escape_sequence (allow_recurse : bool) : E key :=
    edo seq1 <- next_char;
    if (seq1 =? 91)%N then escape_csi
    else if (seq1 =? 79)%N then escape_o
    else if (seq1 =? 27)%N then
      if negb allow_recurse then eret (KEsc, M_NONE)
      else
        edo p <- poll (if c_timeout_none cfg then THundred else TZero);
        if p then
          (* recurse once, adding ALT *)
          edo seq1' <- next_char;
          edo k <- (if (seq1' =? 91)%N then escape_csi
                    else if (seq1' =? 79)%N then escape_o
                    else if (seq1' =? 27)%N then eret (KEsc, M_NONE)
                    else eret (key_new U seq1' M_ALT));
          eret (add_alt k)
        else eret (KEsc, M_NONE)
    else eret (key_new U seq1 M_ALT).

  Definition next_key (single_esc_abort : bool) : E key :=
    edo c <- next_char;
    let k := key_new U c M_NONE in
    if key_eqb k (KEsc, M_NONE) then
      edo p <- poll (if single_esc_abort && c_timeout_none cfg then TZero else cfg_timeout);
      if p then do_escape_sequence true else eret k
    else eret k.

  (* read_pasted_text: until ESC[201~; other escape sequences dropped *)
  Fixpoint replace_crlf (s : str) : str :=
    match s with
    | 13%N :: 10%N :: t => 10%N :: replace_crlf t
    | 13%N :: t => 10%N :: replace_crlf t
    | c :: t => c :: replace_crlf t
    | [] => []
    end.
  Fixpoint read_pasted (fuel : nat) (acc : str) : E str :=
    match fuel with
    | 0 => efuel
    | S f =>
      edo c <- next_char;
      if (c =? 27)%N then
        edo k <- do_escape_sequence true;
        if key_eqb k (KPasteEnd, M_NONE) then eret (replace_crlf (rev acc))
        else read_pasted f acc
      else read_pasted f (c :: acc)
    end.

  Definition stream_size (i : istream) : nat :=
    length (in_cur i) + fold_left (fun a ch => a + length ch) (in_rest i) 0.

  (* ---------- State: rendering (edit.rs) ---------- *)

  Definition calc (s : str) (orig : pos2) : pos2 :=
    calculate_position U seg cols (c_tab_stop cfg) s orig.

  Definition line_before (b : lb) : str :=
    match bsplit (buf b) (pos b) with Some (l, _) => l | None => buf b end.
  Definition line_after (b : lb) : str :=
    match bsplit (buf b) (pos b) with Some (_, r) => r | None => [] end.

  Definition update_hint : E unit :=
    edo s <- eget;
    if c_has_helper cfg then
      set_hint (match c_hint cfg (buf (e_line s)) (pos (e_line s)) with
                | Some [] => None
                | h => h
                end)
    else set_hint None.

  (* State::refresh(prompt, prompt_size, default_prompt, info) *)
  Definition refresh (prompt : str) (prompt_size : pos2) (default_prompt : bool) (info : option str) : E unit :=
    edo s <- eget;
    let b := e_line s in
    let new_layout := compute_layout U seg cols (c_tab_stop cfg) prompt_size default_prompt
                                     (line_before b) (line_after b) info in
    write (refresh_bytes prompt (buf b) (buf b) info (e_layout s) new_layout) ;;;
    set_layout new_layout.

  Definition refresh_line : E unit :=
    update_hint ;;;
    edo s <- eget; refresh (e_prompt s) (e_prompt_size s) true (e_hint s).
  Definition refresh_line_with_msg (msg : option str) : E unit :=
    set_hint None ;;;
    edo s <- eget; refresh (e_prompt s) (e_prompt_size s) true msg.
  Definition refresh_prompt_and_line (prompt : str) : E unit :=
    update_hint ;;;
    edo s <- eget; refresh prompt (calc prompt P0) false (e_hint s).

  Definition move_cursor : E unit :=
    edo s <- eget;
    let cursor := calc (line_before (e_line s)) (e_prompt_size s) in
    if pos2_eqb (l_cursor (e_layout s)) cursor then eret tt
    else
      write (move_cursor_bytes (l_cursor (e_layout s)) cursor) ;;;
      set_layout (mkLay (e_prompt_size s) (l_default_prompt (e_layout s)) cursor (l_end (e_layout s))).

  Definition move_cursor_to_end : E unit :=
    edo s <- eget;
    let lay := e_layout s in
    if pos2_eqb (l_cursor lay) (l_end lay) then eret tt
    else write (move_cursor_bytes (l_cursor lay) (l_end lay)) ;;;
         set_layout (mkLay (l_prompt_size lay) (l_default_prompt lay) (l_end lay) (l_end lay)).

  (* ---------- line-buffer operations inside the editor ---------- *)

  (* run a LineBuffer operation with the Changeset as listener *)
  Definition lb_changes {A} (m : M A) : E A :=
    edo s <- eget;
    match m (e_line s) with
    | Panic => epanic
    | Ok (a, b', ev) =>
      set_line b' ;;; set_changes (cs_notify_all U seg (e_changes s) ev) ;;; eret a
    end.
  (* ... with no listener *)
  Definition lb_quiet {A} (m : M A) : E A :=
    edo s <- eget;
    match m (e_line s) with
    | Panic => epanic
    | Ok (a, b', _) => set_line b' ;;; eret a
    end.
  (* ... with the Proxy of edit_kill: Changeset and KillRing *)
  Definition lb_kill {A} (m : M A) : E A :=
    edo s <- eget;
    match m (e_line s) with
    | Panic => epanic
    | Ok (a, b', ev) =>
      match kr_notify_all (e_kr s) ev with
      | Panic => epanic
      | Ok k' => set_line b' ;;; set_changes (cs_notify_all U seg (e_changes s) ev) ;;; set_kr k' ;;; eret a
      end
    end.

  Definition changes_begin : E nat :=
    edo s <- eget; let '(c, mark) := cs_begin (e_changes s) in set_changes c ;;; eret mark.
  Definition changes_end : E bool :=
    edo s <- eget; let '(c, t) := cs_end (e_changes s) in set_changes c ;;; eret t.

  Definition is_emacs : bool := match c_mode cfg with Emacs => true | Vi => false end.

  Definition cwidth (c : N) : nat := u_width U c.

  (* edit_insert(ch, n) *)
  Definition edit_insert (ch : N) (n : nat) : E unit :=
    edo r <- lb_changes (insert ch n);
    match r with
    | None => eret tt
    | Some push =>
      if push then
        edo s0 <- eget;
        let no_previous_hint := match e_hint s0 with None => true | Some _ => false end in
        update_hint ;;;
        edo s <- eget;
        let w := cwidth ch in
        if Nat.eqb n 1 && negb (Nat.eqb w 0)
           && Nat.ltb (p_col (l_cursor (e_layout s)) + w) cols
           && (match e_hint s with None => true | Some _ => false end) && no_previous_hint
        then
          let lay := e_layout s in
          set_layout (mkLay (l_prompt_size lay) (l_default_prompt lay)
                            (mkP (p_col (l_cursor lay) + w) (p_row (l_cursor lay)))
                            (mkP (p_col (l_end lay) + w) (p_row (l_end lay)))) ;;;
          write [ch]
        else refresh (e_prompt s) (e_prompt_size s) true (e_hint s)
      else refresh_line
    end.

  Definition edit_replace_char (ch : N) (n : nat) : E unit :=
    edo _ <- changes_begin;
    edo r <- lb_changes (delete seg n);
    edo ok <- match r with
              | Some chars =>
                edo _ <- lb_changes (insert ch (length (seg chars)));
                edo _ <- lb_quiet (move_backward seg 1);
                eret true
              | None => eret false
              end;
    edo _ <- changes_end;
    if ok then refresh_line else eret tt.

  Definition edit_overwrite_char (ch : N) : E unit :=
    edo s <- eget;
    match next_pos seg (e_line s) 1 with
    | Panic => epanic
    | Ok None => eret tt
    | Ok (Some e) => lb_changes (replace (pos (e_line s)) e [ch]) ;;; refresh_line
    end.

  Definition edit_yank (text : str) (a : anchor) (n : nat) : E unit :=
    (match a with AAfter => (edo _ <- lb_quiet (move_forward seg 1); eret tt) | ABefore => eret tt end) ;;;
    edo r <- lb_changes (yank text n);
    match r with
    | Some _ =>
      (if is_emacs then eret tt else (edo _ <- lb_quiet (move_backward seg 1); eret tt)) ;;; refresh_line
    | None => eret tt
    end.

  Definition edit_yank_pop (size : nat) (text : str) : E unit :=
    edo _ <- changes_begin;
    edo r <- lb_changes (yank_pop size text);
    (match r with Some _ => refresh_line | None => eret tt end) ;;;
    edo _ <- changes_end; eret tt.

  Definition moved (m : M bool) : E unit :=
    edo r <- lb_quiet m; if r then move_cursor else eret tt.

  Definition edit_kill (m : movement) : E unit :=
    edo r <- lb_kill (kill U seg m); if r then refresh_line else eret tt.

  Definition edit_insert_text (text : str) : E unit :=
    match text with
    | [] => eret tt
    | _ => edo s <- eget; edo _ <- lb_changes (insert_str (pos (e_line s)) text); refresh_line
    end.

  Definition grouped (m : M bool) : E unit :=
    edo _ <- changes_begin;
    edo r <- lb_changes m;
    edo _ <- changes_end;
    if r then refresh_line else eret tt.

  (* Unit = u16, saturating (repair of F20) *)
  Definition layout_w (s : str) : nat := Nat.min (layout_width U s) (N.to_nat 65535%N).

  Definition edit_move_line_up (n : nat) : E bool :=
    edo s <- eget;
    edo r <- lb_quiet (move_to_line_up seg layout_w n (p_col (l_prompt_size (e_layout s))));
    if r then move_cursor ;;; eret true else eret false.
  Definition edit_move_line_down (n : nat) : E bool :=
    edo s <- eget;
    edo r <- lb_quiet (move_to_line_down seg layout_w n (p_col (l_prompt_size (e_layout s))));
    if r then move_cursor ;;; eret true else eret false.

  (* ---------- history navigation ---------- *)

  Definition hlen_e (s : est) : nat := length (e_hist s).

  Definition backup : E unit := edo s <- eget; set_saved (buf (e_line s), pos (e_line s)).
  Definition restore : E unit :=
    edo s <- eget; lb_changes (update (fst (e_saved s)) (snd (e_saved s))).

  Definition edit_history_next (prev : bool) : E unit :=
    edo s <- eget;
    if Nat.eqb (hlen_e s) 0 then eret tt
    else
      let at_end := Nat.eqb (e_hidx s) (hlen_e s) in
      if at_end && negb prev then eret tt
      else if negb at_end && Nat.eqb (e_hidx s) 0 && prev then eret tt
      else
        (if at_end then backup else eret tt) ;;;
        edo idx <- (if prev then eret (e_hidx s - 1)
                    else set_hidx (S (e_hidx s)) ;;; eret (S (e_hidx s)));
        if Nat.ltb idx (hlen_e s) then
          match nth_error (e_hist s) idx with
          | Some entry =>
            set_hidx idx ;;;
            edo _ <- changes_begin;
            lb_changes (update entry (blen entry)) ;;;
            edo _ <- changes_end;
            refresh_line
          | None => eret tt
          end
        else restore ;;; refresh_line.

  Definition edit_history (first : bool) : E unit :=
    edo s <- eget;
    if Nat.eqb (hlen_e s) 0 then eret tt
    else
      let at_end := Nat.eqb (e_hidx s) (hlen_e s) in
      if at_end && negb first then eret tt
      else if negb at_end && Nat.eqb (e_hidx s) 0 && first then eret tt
      else
        (if at_end then backup else eret tt) ;;;
        if first then
          match nth_error (e_hist s) 0 with
          | Some entry =>
            set_hidx 0 ;;;
            edo _ <- changes_begin;
            lb_changes (update entry (blen entry)) ;;;
            edo _ <- changes_end;
            refresh_line
          | None => eret tt
          end
        else set_hidx (hlen_e s) ;;; restore ;;; refresh_line.

  Definition beep : E unit := if c_bell cfg then write [7%N] else eret tt.

  Definition hist_of (s : est) : hist := mkHist (e_hist s) (length (e_hist s)) false false.

  Definition edit_history_search (d : sdir) : E unit :=
    edo s <- eget;
    if Nat.eqb (hlen_e s) 0 then beep
    else if (Nat.eqb (e_hidx s) (hlen_e s) && match d with Forward => true | Reverse => false end)
            || (Nat.eqb (e_hidx s) 0 && match d with Reverse => true | Forward => false end) then beep
    else
      let idx := match d with Reverse => e_hidx s - 1 | Forward => S (e_hidx s) end in
      set_hidx idx ;;;
      match h_starts_with (hist_of s) (line_before (e_line s)) idx d with
      | Some (i, p, entry) =>
        set_hidx i ;;;
        edo _ <- changes_begin;
        lb_changes (update entry p) ;;;
        edo _ <- changes_end;
        refresh_line
      | None => beep
      end.

  (* ---------- validation (State::validate) ---------- *)

  Definition validate : E vresult :=
    if c_has_helper cfg then
      edo _ <- changes_begin;
      edo s <- eget;
      let r := c_validate cfg (buf (e_line s)) in
      match r with
      | VRError => efail EValidator
      | _ =>
        edo corrected <- changes_end;
        edo s' <- eget;
        let has_hint := match e_hint s' with Some _ => true | None => false end in
        (match r with
         | VRValid msg | VRInvalid msg =>
           if corrected || has_hint || match msg with Some _ => true | None => false end
           then refresh_line_with_msg msg else eret tt
         | _ => eret tt
         end) ;;;
        eret r
      end
    else eret (VRValid None).

  (* ---------- keymap (keymap.rs) ---------- *)

  Definition hint_of (s : est) : option str := e_hint s.

  (* custom_binding: a Simple binding for exactly this key, else the Event::Any logger *)
  Fixpoint find_binding (ks : list key) (bs : list (list key * cmd)) : option cmd :=
    match bs with
    | [] => None
    | (p, c) :: t =>
      if Nat.eqb (length p) (length ks) && forallb (fun pq => key_eqb (fst pq) (snd pq)) (combine p ks)
      then Some c else find_binding ks t
    end.
  Fixpoint is_proper_prefix (ks p : list key) : bool :=
    match ks, p with
    | [], _ :: _ => true
    | k :: ks', q :: p' => key_eqb k q && is_proper_prefix ks' p'
    | _, _ => false
    end.
  Definition has_descendant (ks : list key) : bool :=
    existsb (fun b : list key * cmd =>
               is_proper_prefix ks (fst b)
               || (Nat.eqb (length (fst b)) (length ks)
                   && forallb (fun pq => key_eqb (fst pq) (snd pq)) (combine (fst b) ks)))
            (c_bindings cfg).

  Definition custom_binding (k : key) (n : nat) (positive : bool) : E (option cmd) :=
    match find_binding [k] (c_bindings cfg) with
    | Some c => eret (Some c)
    | None =>
      edo s <- eget;
      observe (mkObs (buf (e_line s)) (pos (e_line s)) (i_input_mode s) n positive (hint_of s)) ;;;
      eret None
    end.

  (* custom_seq_binding: (cmd, keys read so far) *)
  Fixpoint custom_seq_binding (fuel : nat) (ks : list key) : E (option cmd * list key) :=
    match fuel with
    | 0 => eret (None, ks)
    | S f =>
      if has_descendant ks then
        edo k2 <- next_key true;
        let ks' := ks ++ [k2] in
        match find_binding ks' (c_bindings cfg) with
        | Some c => eret (Some c, ks')
        | None => custom_seq_binding f ks'
        end
      else eret (None, ks)
    end.

  Definition term_binding (k : key) : E (option cmd) :=
    edo s <- eget;
    let r := if key_eqb k (c_veof cfg) then Some CEndOfFile
             else if key_eqb k (c_vintr cfg) then Some CInterrupt
             else if key_eqb k (c_vquit cfg) then Some CInterrupt
             else if key_eqb k (c_vsusp cfg) then Some CSuspend
             else None in
    match r with
    | Some CEndOfFile => if Nat.eqb (lb_len (e_line s)) 0 then eret r else eret None
    | _ => eret r
    end.

  Definition last_insert : E (option str) := edo s <- eget; eret (cs_last_insert (e_changes s)).

  (* Cmd::redo(new, wrt) *)
  Definition cmd_redo (c : cmd) (new : option nat) : E cmd :=
    match c with
    | CDedent m => eret (CDedent (mvt_redo m new))
    | CIndent m => eret (CIndent (mvt_redo m new))
    | CInsert p t => eret (CInsert (rc p new) t)
    | CKill m => eret (CKill (mvt_redo m new))
    | CMove m => eret (CMove (mvt_redo m new))
    | CReplaceChar p ch => eret (CReplaceChar (rc p new) ch)
    | CReplace m t =>
      match t with
      | None =>
        edo li <- last_insert;
        match m with
        | MForwardChar 0 =>
          let k := match li with Some t' => blen t' | None => 0 end in
          (* RepeatCount::try_from(..).unwrap_or(RepeatCount::MAX) (repair of F19) *)
          eret (CReplace (MForwardChar (Nat.min k (N.to_nat 65535%N))) li)
        | _ => eret (CReplace (mvt_redo m new) li)
        end
      | Some _ => eret (CReplace (mvt_redo m new) t)
      end
    | CSelfInsert p ch =>
      edo li <- last_insert;
      match li with
      | Some text => eret (CInsert (rc p new) text)
      | None => eret (CSelfInsert (rc p new) ch)
      end
    | CViYankTo m => eret (CViYankTo (mvt_redo m new))
    | CYank p a => eret (CYank (rc p new) a)
    | _ => epanic                          (* unreachable!() *)
    end.

  (* numeric arguments *)
  Definition i16_sat (z : Z) : Z := Z.max (-32768) (Z.min 32767 z).

  Definition take_num_args : E Z :=
    edo s <- eget;
    let n := if (i_num_args s =? 0)%Z then 1%Z else i_num_args s in
    set_num_args 0 ;;; eret n.

  Definition emacs_num_args : E (nat * bool) :=
    edo z <- take_num_args;
    if (z <? 0)%Z then eret (Z.to_nat (Z.min 65535%Z (- z)), false)
    else eret (Z.to_nat z, true).
  Definition vi_num_args : E nat :=
    edo z <- take_num_args;
    if (z <? 0)%Z then epanic else eret (Z.to_nat z).

  Definition arg_prompt (z : Z) : str :=
    (* "(arg: {}) " *)
    [40; 97; 114; 103; 58; 32]%N
      ++ (if (z <? 0)%Z then [45%N] else []) ++ dec (Z.to_nat (Z.abs z)) ++ [41; 32]%N.

  Definition digit_val (c : N) : Z := Z.of_N (c - 48).

  Definition is_plain_or_alt (m : mods) : bool := mods_eqb m M_NONE || mods_eqb m M_ALT.

  Fixpoint emacs_digit_loop (fuel : nat) (minus_only : bool) : E key :=
    match fuel with
    | 0 => efuel
    | S f =>
      edo s <- eget;
      refresh_prompt_and_line (arg_prompt (i_num_args s)) ;;;
      edo k <- next_key true;
      match k with
      | (KChar c, m) =>
        if is_digit c && is_plain_or_alt m then
          (edo s1 <- eget;
           let d := digit_val c in
           if minus_only then set_num_args (- d)%Z ;;; emacs_digit_loop f false
           else if (Z.abs (i_num_args s1) <? 1000)%Z then
             let sh := i16_sat (i_num_args s1 * 10) in
             set_num_args (i16_sat (if (i_num_args s1 <? 0)%Z then sh - d else sh + d)%Z) ;;;
             emacs_digit_loop f false
           else emacs_digit_loop f false)
        else if (c =? 45)%N && is_plain_or_alt m then emacs_digit_loop f minus_only
        else refresh_line ;;; eret k
      | _ => refresh_line ;;; eret k
      end
    end.

  Definition emacs_digit_argument (fuel : nat) (digit : N) : E key :=
    (if (digit =? 45)%N then set_num_args (-1) else set_num_args (digit_val digit)) ;;;
    emacs_digit_loop fuel (digit =? 45)%N.

  Fixpoint vi_arg_digit_loop (fuel : nat) : E key :=
    match fuel with
    | 0 => efuel
    | S f =>
      edo s <- eget;
      refresh_prompt_and_line (arg_prompt (i_num_args s)) ;;;
      edo k <- next_key false;
      match k with
      | (KChar c, m) =>
        if is_digit c && mods_eqb m M_NONE then
          (edo s1 <- eget;
           if (Z.abs (i_num_args s1) <? 1000)%Z then
             set_num_args (i16_sat (i16_sat (i_num_args s1 * 10) + digit_val c)) ;;; vi_arg_digit_loop f
           else vi_arg_digit_loop f)
        else refresh_line ;;; eret k
      | _ => refresh_line ;;; eret k
      end
    end.
  Definition vi_arg_digit (fuel : nat) (digit : N) : E key :=
    set_num_args (digit_val digit) ;;; vi_arg_digit_loop fuel.

  Definition has_hint_at_end : E bool :=
    edo s <- eget;
    eret (match e_hint s with Some _ => true | None => false end
          && Nat.eqb (pos (e_line s)) (lb_len (e_line s))).

  Definition kc (c : N) (m : mods) : key := (KChar c, m).

  (* common(): bindings shared by all modes *)
  Definition common (fuel : nat) (k : key) (n : nat) (positive : bool) : E cmd :=
    edo s <- eget;
    let line_empty := Nat.eqb (lb_len (e_line s)) 0 in
    let is k' := key_eqb k k' in
    if is (KHome, M_NONE) then eret (CMove MBeginningOfLine)
    else if is (KLeft, M_NONE) then eret (CMove (if positive then MBackwardChar n else MForwardChar n))
    else if is (kc 68 M_CTRL) then
      if is_emacs && negb line_empty then eret (CKill (if positive then MForwardChar n else MBackwardChar n))
      else if negb line_empty then eret CEndOfFile
      else eret CUnknown
    else if is (KDelete, M_NONE) then eret (CKill (if positive then MForwardChar n else MBackwardChar n))
    else if is (KEnd, M_NONE) then eret (CMove MEndOfLine)
    else if is (KRight, M_NONE) then eret (CMove (if positive then MForwardChar n else MBackwardChar n))
    else if is (kc 74 M_CTRL) || is (kc 77 M_CTRL) || is (KEnter, M_NONE) then eret (CAcceptOrInsertLine true)
    else if is (KDown, M_NONE) then eret (CLineDownOrNextHistory 1)
    else if is (KUp, M_NONE) then eret (CLineUpOrPreviousHistory 1)
    else if is (kc 82 M_CTRL) then eret CReverseSearchHistory
    else if is (kc 83 M_CTRL) then eret CForwardSearchHistory
    else if is (kc 84 M_CTRL) then eret CTransposeChars
    else if is (kc 85 M_CTRL) then eret (CKill (if positive then MBeginningOfLine else MEndOfLine))
    else if is (kc 81 M_CTRL) || is (kc 86 M_CTRL) then eret CQuotedInsert
    else if is (kc 87 M_CTRL) then
      eret (CKill (if positive then MBackwardWord n WBig else MForwardWord n AtAfterEnd WBig))
    else if is (kc 89 M_CTRL) then eret (if positive then CYank n ABefore else CUnknown)
    else if is (kc 95 M_CTRL) then eret (CUndo n)
    else if is (KUnknown, M_NONE) then eret CNoop
    else if is (KPasteStart, M_NONE) then
      edo s1 <- eget;
      edo text <- read_pasted (S (stream_size (e_inp s1))) [];
      eret (CInsert 1 text)
    else
      edo r <- custom_seq_binding fuel [k];
      eret (match fst r with Some c => c | None => CUnknown end).

  Definition is_ctrl_or_ctrl_alt (m : mods) : bool := mods_eqb m M_CTRL || mods_eqb m M_CTRL_ALT.

  Definition emacs (fuel : nat) (k0 : key) : E cmd :=
    edo k <- match k0 with
             | (KChar c, m) =>
               if mods_eqb m M_ALT && ((c =? 45)%N || is_digit c) then emacs_digit_argument fuel c
               else eret k0
             | _ => eret k0
             end;
    edo np <- emacs_num_args;
    let '(n, positive) := np in
    edo cb <- custom_binding k n positive;
    match cb with
    | Some c => if is_repeatable c then cmd_redo c (Some n) else eret c
    | None =>
      edo tb <- term_binding k;
      match tb with
      | Some c => eret c
      | None =>
        let is k' := key_eqb k k' in
        match k with
        | (KChar c, m) =>
          if mods_eqb m M_NONE then eret (if positive then CSelfInsert n c else CUnknown)
          else if is (kc 65 M_CTRL) then eret (CMove MBeginningOfLine)
          else if is (kc 66 M_CTRL) then eret (CMove (if positive then MBackwardChar n else MForwardChar n))
          else if is (kc 69 M_CTRL) then eret (CMove MEndOfLine)
          else if is (kc 70 M_CTRL) then eret (CMove (if positive then MForwardChar n else MBackwardChar n))
          else if (c =? 71)%N && is_ctrl_or_ctrl_alt m then eret CAbort
          else if is (kc 72 M_CTRL) then eret (CKill (if positive then MBackwardChar n else MForwardChar n))
          else if is (kc 73 M_CTRL) then eret (if positive then CComplete else CCompleteBackward)
          else if is (kc 75 M_CTRL) then eret (CKill (if positive then MEndOfLine else MBeginningOfLine))
          else if is (kc 76 M_CTRL) then eret CClearScreen
          else if is (kc 78 M_CTRL) then eret CNextHistory
          else if is (kc 80 M_CTRL) then eret CPreviousHistory
          else if is (kc 88 M_CTRL) then
            edo r <- custom_seq_binding fuel [k];
            match fst r with
            | Some c' => eret c'
            | None =>
              edo snd_key <- match snd r with
                             | _ :: k2 :: _ => eret k2
                             | _ => next_key true
                             end;
              if key_eqb snd_key (kc 71 M_CTRL) || key_eqb snd_key (KEsc, M_NONE) then eret CAbort
              else if key_eqb snd_key (kc 85 M_CTRL) then eret (CUndo n)
              else if key_eqb snd_key (KBackspace, M_NONE) then
                eret (CKill (if positive then MBeginningOfLine else MEndOfLine))
              else eret CUnknown
            end
          else if (c =? 93)%N && is_ctrl_or_ctrl_alt m then
            edo ch <- next_key false;
            match ch with
            | (KChar x, m') =>
              if mods_eqb m' M_NONE then
                eret (CMove (MViCharSearch n
                       (if positive then (if m_alt m then CsBackward x else CsForwardBefore x)
                        else (if m_alt m then CsForwardBefore x else CsBackward x))))
              else eret CUnknown
            | _ => eret CUnknown
            end
          else if mods_eqb m M_ALT then
            if (c =? 60)%N then eret CBeginningOfHistory
            else if (c =? 62)%N then eret CEndOfHistory
            else if ((c =? 66) || (c =? 98))%N then
              eret (CMove (if positive then MBackwardWord n WEmacs else MForwardWord n AtAfterEnd WEmacs))
            else if ((c =? 67) || (c =? 99))%N then eret CCapitalizeWord
            else if ((c =? 68) || (c =? 100))%N then
              eret (CKill (if positive then MForwardWord n AtAfterEnd WEmacs else MBackwardWord n WEmacs))
            else if ((c =? 70) || (c =? 102))%N then
              eret (CMove (if positive then MForwardWord n AtAfterEnd WEmacs else MBackwardWord n WEmacs))
            else if ((c =? 76) || (c =? 108))%N then eret CDowncaseWord
            else if ((c =? 84) || (c =? 116))%N then eret (CTransposeWords n)
            else if ((c =? 85) || (c =? 117))%N then eret CUpcaseWord
            else if ((c =? 89) || (c =? 121))%N then eret CYankPop
            else common fuel k n positive
          else common fuel k n positive
        | _ =>
          if is (KEsc, M_NONE) then eret CAbort
          else if is (KBackspace, M_NONE) then eret (CKill (if positive then MBackwardChar n else MForwardChar n))
          else if is (KBackTab, M_NONE) then eret CCompleteBackward
          else if is (KTab, M_NONE) then eret (if positive then CComplete else CCompleteBackward)
          else if is (KRight, M_NONE) then
            edo h <- has_hint_at_end;
            if h then eret CCompleteHint else common fuel k n positive
          else if is (KBackspace, M_ALT) then
            eret (CKill (if positive then MBackwardWord n WEmacs else MForwardWord n AtAfterEnd WEmacs))
          else if is (KLeft, M_ALT) || is (KLeft, M_CTRL) then
            eret (CMove (if positive then MBackwardWord n WEmacs else MForwardWord n AtAfterEnd WEmacs))
          else if is (KRight, M_ALT) || is (KRight, M_CTRL) then
            eret (CMove (if positive then MForwardWord n AtAfterEnd WEmacs else MBackwardWord n WEmacs))
          else common fuel k n positive
        end
      end
    end.

  (* vi_char_search *)
  Definition vi_char_search (c : N) : E (option char_search) :=
    edo ch <- next_key false;
    match ch with
    | (KChar x, m) =>
      if mods_eqb m M_NONE then
        let cs := if (c =? 102)%N then CsForward x else if (c =? 116)%N then CsForwardBefore x
                  else if (c =? 70)%N then CsBackward x else CsBackwardAfter x in
        set_last_cs (Some cs) ;;; eret (Some cs)
      else eret None
    | _ => eret None
    end.

  Definition is_fFtT (c : N) : bool := ((c =? 102) || (c =? 70) || (c =? 116) || (c =? 84))%N.

  Definition sat_mul_u16 (a b : nat) : nat := Nat.min (N.to_nat 65535%N) (a * b).

  Definition vi_cmd_motion (fuel : nat) (k : key) (n0 : nat) : E (option movement) :=
    edo mvt0 <- next_key false;
    if key_eqb mvt0 k then eret (Some MWholeLine)
    else
      edo mn <- match mvt0 with
                | (KChar c, m) =>
                  if mods_eqb m M_NONE && ((49 <=? c) && (c <=? 57))%N then
                    edo mvt' <- vi_arg_digit fuel c;
                    edo a <- vi_num_args;
                    eret (mvt', sat_mul_u16 a n0)
                  else eret (mvt0, n0)
                | _ => eret (mvt0, n0)
                end;
      let '(mvt, n) := mn in
      let is_c := key_eqb k (kc 99 M_NONE) in
      match mvt with
      | (KChar c, m) =>
        if mods_eqb m M_NONE then
          if (c =? 36)%N then eret (Some MEndOfLine)
          else if (c =? 48)%N then eret (Some MBeginningOfLine)
          else if (c =? 94)%N then eret (Some MViFirstPrint)
          else if (c =? 98)%N then eret (Some (MBackwardWord n WVi))
          else if (c =? 66)%N then eret (Some (MBackwardWord n WBig))
          else if (c =? 101)%N then eret (Some (MForwardWord n AtAfterEnd WVi))
          else if (c =? 69)%N then eret (Some (MForwardWord n AtAfterEnd WBig))
          else if is_fFtT c then
            edo cs <- vi_char_search c;
            eret (match cs with Some x => Some (MViCharSearch n x) | None => None end)
          else if (c =? 59)%N then
            edo s <- eget; eret (match i_last_cs s with Some x => Some (MViCharSearch n x) | None => None end)
          else if (c =? 44)%N then
            edo s <- eget;
            eret (match i_last_cs s with Some x => Some (MViCharSearch n (cs_opposite x)) | None => None end)
          else if (c =? 104)%N then eret (Some (MBackwardChar n))
          else if ((c =? 108) || (c =? 32))%N then eret (Some (MForwardChar n))
          else if ((c =? 106) || (c =? 43))%N then eret (Some (MLineDown n))
          else if ((c =? 107) || (c =? 45))%N then eret (Some (MLineUp n))
          else if (c =? 119)%N then
            eret (Some (if is_c then MForwardWord n AtAfterEnd WVi else MForwardWord n AtStart WVi))
          else if (c =? 87)%N then
            eret (Some (if is_c then MForwardWord n AtAfterEnd WBig else MForwardWord n AtStart WBig))
          else eret None
        else if key_eqb mvt (kc 72 M_CTRL) then eret (Some (MBackwardChar n))
        else eret None
      | _ => if key_eqb mvt (KBackspace, M_NONE) then eret (Some (MBackwardChar n)) else eret None
      end.

  Definition doing_insert : E unit := edo _ <- changes_begin; eret tt.
  Definition done_inserting : E unit := edo _ <- changes_end; eret tt.

  Definition vi_command (fuel : nat) (k0 : key) : E cmd :=
    edo k <- match k0 with
             | (KChar c, m) =>
               if mods_eqb m M_NONE && ((49 <=? c) && (c <=? 57))%N then vi_arg_digit fuel c else eret k0
             | _ => eret k0
             end;
    edo s0 <- eget;
    let no_num_args := (i_num_args s0 =? 0)%Z in
    edo n <- vi_num_args;
    edo cb <- custom_binding k n true;
    match cb with
    | Some c => if is_repeatable c then cmd_redo c (if no_num_args then None else Some n) else eret c
    | None =>
      edo tb <- term_binding k;
      match tb with
      | Some c => eret c
      | None =>
        let is k' := key_eqb k k' in
        edo c <-
          match k with
          | (KChar c, m) =>
            if mods_eqb m M_NONE then
              if (c =? 36)%N then eret (CMove MEndOfLine)
              else if (c =? 46)%N then
                edo s <- eget;
                if negb (is_repeatable (i_last_cmd s)) then eret CNoop
                else cmd_redo (i_last_cmd s) (if no_num_args then None else Some n)
              else if (c =? 48)%N then eret (CMove MBeginningOfLine)
              else if (c =? 94)%N then eret (CMove MViFirstPrint)
              else if (c =? 97)%N then set_input_mode IMInsert ;;; doing_insert ;;; eret (CMove (MForwardChar n))
              else if (c =? 65)%N then set_input_mode IMInsert ;;; doing_insert ;;; eret (CMove MEndOfLine)
              else if (c =? 98)%N then eret (CMove (MBackwardWord n WVi))
              else if (c =? 66)%N then eret (CMove (MBackwardWord n WBig))
              else if (c =? 99)%N then
                set_input_mode IMInsert ;;;
                edo m' <- vi_cmd_motion fuel k n;
                eret (match m' with Some mv => CReplace mv None | None => CUnknown end)
              else if (c =? 67)%N then set_input_mode IMInsert ;;; eret (CReplace MEndOfLine None)
              else if (c =? 100)%N then
                edo m' <- vi_cmd_motion fuel k n;
                eret (match m' with Some mv => CKill mv | None => CUnknown end)
              else if (c =? 68)%N then eret (CKill MEndOfLine)
              else if (c =? 101)%N then eret (CMove (MForwardWord n AtBeforeEnd WVi))
              else if (c =? 69)%N then eret (CMove (MForwardWord n AtBeforeEnd WBig))
              else if (c =? 105)%N then set_input_mode IMInsert ;;; doing_insert ;;; eret CNoop
              else if (c =? 73)%N then set_input_mode IMInsert ;;; doing_insert ;;; eret (CMove MBeginningOfLine)
              else if is_fFtT c then
                edo cs <- vi_char_search c;
                eret (match cs with Some x => CMove (MViCharSearch n x) | None => CUnknown end)
              else if (c =? 59)%N then
                edo s <- eget; eret (match i_last_cs s with Some x => CMove (MViCharSearch n x) | None => CNoop end)
              else if (c =? 44)%N then
                edo s <- eget;
                eret (match i_last_cs s with Some x => CMove (MViCharSearch n (cs_opposite x)) | None => CNoop end)
              else if (c =? 112)%N then eret (CYank n AAfter)
              else if (c =? 80)%N then eret (CYank n ABefore)
              else if (c =? 114)%N then
                edo ch <- next_key false;
                match ch with
                | (KChar x, m') => if mods_eqb m' M_NONE then eret (CReplaceChar n x) else eret CUnknown
                | _ => if key_eqb ch (KEsc, M_NONE) then eret CNoop else eret CUnknown
                end
              else if (c =? 82)%N then set_input_mode IMReplace ;;; eret (CReplace (MForwardChar 0) None)
              else if (c =? 115)%N then set_input_mode IMInsert ;;; eret (CReplace (MForwardChar n) None)
              else if (c =? 83)%N then set_input_mode IMInsert ;;; eret (CReplace MWholeLine None)
              else if (c =? 117)%N then eret (CUndo n)
              else if (c =? 119)%N then eret (CMove (MForwardWord n AtStart WVi))
              else if (c =? 87)%N then eret (CMove (MForwardWord n AtStart WBig))
              else if (c =? 120)%N then eret (CKill (MForwardChar n))
              else if (c =? 88)%N then eret (CKill (MBackwardChar n))
              else if (c =? 121)%N then
                edo m' <- vi_cmd_motion fuel k n;
                eret (match m' with Some mv => CViYankTo mv | None => CUnknown end)
              else if (c =? 104)%N then eret (CMove (MBackwardChar n))
              else if ((c =? 108) || (c =? 32))%N then eret (CMove (MForwardChar n))
              else if ((c =? 43) || (c =? 106))%N then eret (CLineDownOrNextHistory n)
              else if ((c =? 45) || (c =? 107))%N then eret (CLineUpOrPreviousHistory n)
              else if (c =? 60)%N then
                edo m' <- vi_cmd_motion fuel k n;
                eret (match m' with Some mv => CDedent mv | None => CUnknown end)
              else if (c =? 62)%N then
                edo m' <- vi_cmd_motion fuel k n;
                eret (match m' with Some mv => CIndent mv | None => CUnknown end)
              else common fuel k n true
            else if is (kc 75 M_CTRL) then eret (CKill MEndOfLine)
            else if is (kc 72 M_CTRL) then eret (CMove (MBackwardChar n))
            else if is (kc 71 M_CTRL) then eret CAbort
            else if is (kc 76 M_CTRL) then eret CClearScreen
            else if is (kc 78 M_CTRL) then eret CNextHistory
            else if is (kc 80 M_CTRL) then eret CPreviousHistory
            else if is (kc 82 M_CTRL) then set_input_mode IMInsert ;;; eret CReverseSearchHistory
            else if is (kc 83 M_CTRL) then set_input_mode IMInsert ;;; eret CForwardSearchHistory
            else common fuel k n true
          | _ =>
            if is (KEnd, M_NONE) then eret (CMove MEndOfLine)
            else if is (KBackspace, M_NONE) then eret (CMove (MBackwardChar n))
            else if is (KEsc, M_NONE) then eret CNoop
            else common fuel k n true
          end;
        (if is_repeatable_change c then set_last_cmd c else eret tt) ;;;
        eret c
      end
    end.

  Definition vi_insert (fuel : nat) (k : key) : E cmd :=
    edo cb <- custom_binding k 0 true;
    match cb with
    | Some c => if is_repeatable c then cmd_redo c None else eret c
    | None =>
      edo tb <- term_binding k;
      match tb with
      | Some c => eret c
      | None =>
        let is k' := key_eqb k k' in
        edo c <-
          match k with
          | (KChar c, m) =>
            if mods_eqb m M_NONE then
              edo s <- eget;
              eret (match i_input_mode s with IMReplace => COverwrite c | _ => CSelfInsert 1 c end)
            else if is (kc 72 M_CTRL) then eret (CKill (MBackwardChar 1))
            else if is (kc 73 M_CTRL) then eret CComplete
            else if mods_eqb m M_ALT then
              set_input_mode IMCommand ;;; done_inserting ;;; vi_command fuel (KChar c, M_NONE)
            else common fuel k 1 true
          | _ =>
            if is (KBackspace, M_NONE) then eret (CKill (MBackwardChar 1))
            else if is (KBackTab, M_NONE) then eret CCompleteBackward
            else if is (KTab, M_NONE) then eret CComplete
            else if is (KRight, M_NONE) then
              edo h <- has_hint_at_end;
              if h then eret CCompleteHint else common fuel k 1 true
            else if is (KEsc, M_NONE) then
              set_input_mode IMCommand ;;; done_inserting ;;; eret (CMove (MBackwardChar 1))
            else common fuel k 1 true
          end;
        edo s <- eget;
        (if is_repeatable_change c then
           match i_last_cmd s, c with
           | CReplace _ _, CSelfInsert _ _ => eret tt
           | CSelfInsert _ _, CSelfInsert _ _ => eret tt
           | _, _ => set_last_cmd c
           end
         else eret tt) ;;;
        eret c
      end
    end.

  (* InputState::next_cmd + State::next_cmd (the undo group opened on Replace) *)
  Definition next_cmd (fuel : nat) (single_esc_abort : bool) : E cmd :=
    edo k <- next_key (single_esc_abort && is_emacs);
    edo s <- eget;
    edo c <- (if is_emacs then emacs fuel k
              else match i_input_mode s with
                   | IMCommand => vi_command fuel k
                   | _ => vi_insert fuel k
                   end);
    (match c with CReplace _ _ => (edo _ <- changes_begin; eret tt) | _ => eret tt end) ;;;
    eret c.

  (* ---------- execute (command.rs) ---------- *)

  Inductive status := Proceed | Submit.

  Definition complete_hint_line : E unit :=
    edo s <- eget;
    match e_hint s with
    | None => eret tt
    | Some text =>
      edo _ <- lb_quiet move_end;
      edo r <- lb_changes (yank text 1);
      (match r with None => beep | Some _ => eret tt end) ;;;
      refresh_line
    end.

  Definition is_default_prompt (s : est) : bool := l_default_prompt (e_layout s).

  Definition starts_with_ws (s : str) : bool :=
    match s with c :: _ => u_is_whitespace U c | [] => false end.

  Definition execute (c : cmd) : E status :=
    edo s0 <- eget;
    (match c with
     | CEndOfFile | CAcceptLine | CAcceptOrInsertLine _ | CNewline =>
       if match e_hint s0 with Some _ => true | None => false end || negb (is_default_prompt s0)
       then refresh_line_with_msg None else eret tt
     | _ => eret tt
     end) ;;;
    match c with
    | CCompleteHint => complete_hint_line ;;; eret Proceed
    | CSelfInsert n ch => edit_insert ch n ;;; eret Proceed
    | CInsert n text => edit_yank text ABefore n ;;; eret Proceed
    | CMove MBeginningOfLine => moved move_home ;;; eret Proceed
    | CMove MViFirstPrint =>
      moved move_home ;;;
      edo s <- eget;
      (if starts_with_ws (buf (e_line s)) then moved (move_to_next_word U seg AtStart WBig 1) else eret tt) ;;;
      eret Proceed
    | CMove (MBackwardChar n) => moved (move_backward seg n) ;;; eret Proceed
    | CReplaceChar n ch => edit_replace_char ch n ;;; eret Proceed
    | CReplace m text =>
      edit_kill m ;;;
      (* a change that brings its text is complete: its undo group is closed (repair of F26) *)
      (match text with Some t => edit_insert_text t ;;; (edo _ <- changes_end; eret tt) | None => eret tt end) ;;; eret Proceed
    | COverwrite ch => edit_overwrite_char ch ;;; eret Proceed
    | CEndOfFile =>
      edo s <- eget;
      if Nat.eqb (lb_len (e_line s)) 0 then efail EEof
      else if negb is_emacs then eret Submit else eret Proceed
    | CMove MEndOfLine => moved move_end ;;; eret Proceed
    | CMove (MForwardChar n) => moved (move_forward seg n) ;;; eret Proceed
    | CClearScreen =>
      write [27; 91; 72; 27; 91; 74]%N ;;;
      edo s <- eget;
      set_layout (mkLay (l_prompt_size (e_layout s)) (l_default_prompt (e_layout s)) P0 P0) ;;;
      refresh_line ;;; eret Proceed
    | CNextHistory => edit_history_next false ;;; eret Proceed
    | CPreviousHistory => edit_history_next true ;;; eret Proceed
    | CLineUpOrPreviousHistory n =>
      edo r <- edit_move_line_up n;
      (if r then eret tt else edit_history_next true) ;;; eret Proceed
    | CLineDownOrNextHistory n =>
      edo r <- edit_move_line_down n;
      (if r then eret tt else edit_history_next false) ;;; eret Proceed
    | CHistorySearchBackward => edit_history_search Reverse ;;; eret Proceed
    | CHistorySearchForward => edit_history_search Forward ;;; eret Proceed
    | CTransposeChars => grouped (transpose_chars seg) ;;; eret Proceed
    | CYank n a =>
      edo s <- eget;
      let '(k', t) := kr_yank (e_kr s) in
      set_kr k' ;;;
      (match t with
       | Some text =>
         edit_yank text a n ;;;
         (* vi: the cursor was moved back onto the last character put; the yank is forgotten (repair of F21) *)
         (* emacs: the ring is told how often the text was inserted (repair of K2) *)
         (edo s2 <- eget; set_kr (if is_emacs then kr_repeated (e_kr s2) n else kr_reset (e_kr s2)))
       | None => eret tt
       end) ;;; eret Proceed
    | CViYankTo m =>
      edo s <- eget;
      match copy U seg (e_line s) m with
      | Panic => epanic
      | Ok (Some text) =>
        match kr_kill (e_kr s) text KAppend with
        | Ok k' => set_kr k' ;;; eret Proceed
        | Panic => epanic
        end
      | Ok None => eret Proceed
      end
    | CNewline => edit_insert 10 1 ;;; eret Proceed
    | CRepaint => refresh_line ;;; eret Proceed
    | CAcceptLine | CAcceptOrInsertLine _ =>
      edo vr <- validate;
      edo s <- eget;
      let valid := match vr with VRValid _ => true | _ => false end in
      let e := is_end_of_input U (e_line s) in
      match c with
      | CAcceptLine => eret Submit
      | CAcceptOrInsertLine aim =>
        if valid && (e || aim) then eret Submit
        else
          (if valid || negb (match vr with VRInvalid (Some _) | VRValid (Some _) => true | _ => false end)
           then edit_insert 10 1 else eret tt) ;;; eret Proceed
      | _ => eret Proceed
      end
    | CBeginningOfHistory => edit_history true ;;; eret Proceed
    | CEndOfHistory => edit_history false ;;; eret Proceed
    | CMove (MBackwardWord n w) => moved (move_to_prev_word U seg w n) ;;; eret Proceed
    | CCapitalizeWord => grouped (edit_word U seg Capitalize) ;;; eret Proceed
    | CKill m => edit_kill m ;;; eret Proceed
    | CMove (MForwardWord n a w) => moved (move_to_next_word U seg a w n) ;;; eret Proceed
    | CMove (MLineUp n) => (edo _ <- edit_move_line_up n; eret Proceed)
    | CMove (MLineDown n) => (edo _ <- edit_move_line_down n; eret Proceed)
    | CMove MBeginningOfBuffer => moved move_buffer_start ;;; eret Proceed
    | CMove MEndOfBuffer => moved move_buffer_end ;;; eret Proceed
    | CDowncaseWord => grouped (edit_word U seg Lowercase) ;;; eret Proceed
    | CTransposeWords n => grouped (transpose_words U seg n) ;;; eret Proceed
    | CUpcaseWord => grouped (edit_word U seg Uppercase) ;;; eret Proceed
    | CYankPop =>
      edo s <- eget;
      let '(k', r) := kr_yank_pop (e_kr s) in
      set_kr k' ;;;
      (match r with Some (size, text) => edit_yank_pop size text | None => eret tt end) ;;; eret Proceed
    | CMove (MViCharSearch n cs) => moved (move_to seg cs n) ;;; eret Proceed
    | CUndo n =>
      edo s <- eget;
      match cs_undo (e_changes s) (e_line s) n with
      | Panic => epanic
      | Ok (c', b', undone) =>
        set_changes c' ;;; set_line b' ;;; (if undone then refresh_line else eret tt) ;;; eret Proceed
      end
    | CDedent m =>
      edo r <- lb_changes (indent U seg m (c_indent_size cfg) true);
      (if r then refresh_line else eret tt) ;;; eret Proceed
    | CIndent m =>
      edo r <- lb_changes (indent U seg m (c_indent_size cfg) false);
      (if r then refresh_line else eret tt) ;;; eret Proceed
    | CInterrupt => move_cursor_to_end ;;; efail EInterrupted
    | _ => eret Proceed
    end.

  (* ---------- completion (lib.rs complete_line) ---------- *)

  Fixpoint lcp2 (a b : str) : str :=
    match a, b with
    | x :: a', y :: b' => if (x =? y)%N then x :: lcp2 a' b' else []
    | _, _ => []
    end.
  Definition lcp_all (cands : list str) : option str :=
    match cands with
    | [] => None
    | [c] => Some c
    | c :: rest => match fold_left lcp2 rest c with [] => None | p => Some p end
    end.

  (* Completer::update: line.replace(start..pos, elected) *)
  Definition completer_update (start : nat) (elected : str) : E unit :=
    edo s <- eget; lb_changes (replace start (pos (e_line s)) elected).

  (* what the i-th round of circular completion shows: candidate i, or (i = n) the original text and cursor *)
  Definition show_candidate (start : nat) (cands : list str) (backup : str * nat) (i : nat) : E unit :=
    if Nat.ltb i (length cands) then
      match nth_error cands i with Some c => completer_update start c | None => eret tt end
    else lb_changes (update (fst backup) (snd backup)).

  (* what the key read while candidate i is shown does; [rec] continues the loop at another index *)
  Definition circular_branch (rec : nat -> E (option cmd)) (cands : list str) (backup : str * nat)
             (mark : nat) (i : nat) (c : cmd) : E (option cmd) :=
    match c with
    | CComplete =>
      let i' := (i + 1) mod (length cands + 1) in
      (if Nat.eqb i' (length cands) then beep else eret tt) ;;;
      rec i'
    | CCompleteBackward =>
      (if Nat.eqb i 0 then beep else eret tt) ;;;
      rec (if Nat.eqb i 0 then length cands else (i - 1) mod (length cands + 1))
    | CAbort =>
      (if Nat.ltb i (length cands) then lb_changes (update (fst backup) (snd backup)) ;;; refresh_line
       else eret tt) ;;;
      edo s <- eget; set_changes (cs_truncate (e_changes s) mark) ;;; eret None
    | _ => (edo _ <- changes_end; eret (Some c))
    end.

  Fixpoint complete_circular (fuel : nat) (start : nat) (cands : list str) (backup : str * nat)
           (mark : nat) (i : nat) : E (option cmd) :=
    match fuel with
    | 0 => efuel
    | S f =>
      show_candidate start cands backup i ;;;
      refresh_line ;;;
      edo c <- next_cmd f true;
      circular_branch (fun i' => complete_circular f start cands backup mark i') cands backup mark i c
    end.

  Definition msg_display_all (n : nat) : str :=
    (* "\nDisplay all {} possibilities? (y or n)" *)
    [10; 68; 105; 115; 112; 108; 97; 121; 32; 97; 108; 108; 32]%N ++ dec n
      ++ [32; 112; 111; 115; 115; 105; 98; 105; 108; 105; 116; 105; 101; 115; 63; 32; 40; 121; 32; 111; 114; 32; 110; 41]%N.

  (* page_completions with no pause (rows large enough): candidates in columns *)
  Definition page_completions_simple (cands : list str) : E (option cmd) :=
    let max_width := Nat.min cols (fold_left Nat.max (map layout_w cands) 0 + 2) in
    (* cols / max_width and nbc.div_ceil(num_cols): Rust's integer division panics on a zero divisor *)
    if Nat.eqb max_width 0 then epanic else
    let num_cols := cols / max_width in
    if Nat.eqb num_cols 0 then epanic else
    let nbc := length cands in
    let num_rows := (nbc + num_cols - 1) / num_cols in
    let row_text (row : nat) : str :=
        concat (map (fun col =>
                       let i := col * num_rows + row in
                       match nth_error cands i with
                       | Some c =>
                         c ++ (if Nat.ltb ((col + 1) * num_rows + row) nbc
                               then repeat 32%N (max_width - layout_w c) else [])
                       | None => []
                       end) (seq 0 num_cols)) in
    (fix rows (k : nat) (row : nat) : E unit :=
       match k with
       | 0 => eret tt
       | S k' => write [10%N] ;;; write (row_text row) ;;; rows k' (S row)
       end) num_rows 0 ;;;
    write [10%N] ;;;
    edo s <- eget;
    let lay := e_layout s in
    set_layout (mkLay (l_prompt_size lay) (l_default_prompt lay)
                      (mkP (p_col (l_cursor lay)) 0) (mkP (p_col (l_end lay)) 0)) ;;;
    refresh_line ;;; eret None.

  Fixpoint wait_yn (fuel : nat) (c : cmd) : E cmd :=
    match fuel with
    | 0 => efuel
    | S f =>
      match c with
      | CSelfInsert 1 121%N | CSelfInsert 1 89%N | CSelfInsert 1 110%N | CSelfInsert 1 78%N => eret c
      | CKill (MBackwardChar 1) => eret c
      | _ => edo c' <- next_cmd f false; wait_yn f c'
      end
    end.

  (* list mode, first step: the span becomes the longest common prefix of the candidates when that is longer than
     the span (or there is exactly one candidate) *)
  Definition list_span_step (start : nat) (cands : list str) : E unit :=
    edo s <- eget;
    match lcp_all cands with
    | Some lcp =>
      if Nat.ltb (pos (e_line s) - start) (blen lcp) || Nat.eqb (length cands) 1
      then completer_update start lcp ;;; refresh_line else eret tt
    | None => eret tt
    end.

  Definition complete_line (fuel : nat) : E (option cmd) :=
    edo s <- eget;
    let '(start, cands) := c_complete cfg (buf (e_line s)) (pos (e_line s)) in
    match cands with
    | [] => beep ;;; eret None
    | _ =>
      match c_completion cfg with
      | CTCircular =>
        edo mark <- changes_begin;
        complete_circular fuel start cands (buf (e_line s), pos (e_line s)) mark 0
      | CTList =>
        list_span_step start cands ;;;
        if Nat.ltb 1 (length cands) then
          beep ;;;
          (* without show-all: wait for a second Tab; any other key goes to the main loop *)
          edo c <- (if c_show_all cfg then eret CComplete else next_cmd fuel true);
          match c with
          | CComplete =>
            edo s1 <- eget;
            let save_pos := pos (e_line s1) in
            moved move_end ;;;
            edo _ <- lb_quiet (set_pos save_pos);
            if Nat.ltb (c_prompt_limit cfg) (length cands) then
              write (msg_display_all (length cands)) ;;;
              edo s2 <- eget;
              let lay := e_layout s2 in
              set_layout (mkLay (l_prompt_size lay) (l_default_prompt lay) (l_cursor lay)
                                (mkP (p_col (l_end lay)) (S (p_row (l_end lay))))) ;;;
              edo c2 <- wait_yn fuel c;
              match c2 with
              | CSelfInsert 1 121%N | CSelfInsert 1 89%N => page_completions_simple cands
              | _ => refresh_line ;;; eret None
              end
            else page_completions_simple cands
          | _ => eret (Some c)
          end
        else eret None
      end
    end.

  (* ---------- incremental search (lib.rs reverse_incremental_search) ---------- *)

  Definition search_prompt (success : bool) (term : str) : str :=
    (if success then [40]%N else [40; 102; 97; 105; 108; 101; 100; 32]%N)
      ++ [114; 101; 118; 101; 114; 115; 101; 45; 105; 45; 115; 101; 97; 114; 99; 104; 41; 96]%N
      ++ term ++ [39; 58; 32]%N.

  (* what the key read while searching does; [rec term idx dir success] continues the loop *)
  Definition isearch_branch (rec : str -> nat -> sdir -> bool -> E (option cmd)) (backup : str * nat) (mark : nat)
             (term : str) (idx : nat) (d : sdir) (success : bool) (c : cmd) : E (option cmd) :=
    edo s <- eget;
    let do_search (term' : str) (idx' : nat) (d' : sdir) : E (option cmd) :=
        match h_search (hist_of s) term' idx' d' with
        | Some (i, p, entry) => lb_changes (update entry p) ;;; rec term' i d' true
        | None => rec term' idx' d' false
        end in
    match c with
    | CSelfInsert _ ch => do_search (term ++ [ch]) idx d
    | CKill (MBackwardChar _) => rec (removelast term) idx d success
    | CReverseSearchHistory =>
      if Nat.ltb 0 idx then do_search term (idx - 1) Reverse
      else rec term idx Reverse false
    | CForwardSearchHistory =>
      if Nat.ltb idx (hlen_e s - 1) then do_search term (S idx) Forward
      else rec term idx Forward false
    | CAbort =>
      lb_changes (update (fst backup) (snd backup)) ;;; refresh_line ;;;
      edo s1 <- eget; set_changes (cs_truncate (e_changes s1) mark) ;;; eret None
    | CMove _ => refresh_line ;;; (edo _ <- changes_end; eret (Some c))
    | _ => (edo _ <- changes_end; eret (Some c))
    end.

  Fixpoint isearch_loop (fuel : nat) (backup : str * nat) (mark : nat)
           (term : str) (idx : nat) (d : sdir) (success : bool) : E (option cmd) :=
    match fuel with
    | 0 => efuel
    | S f =>
      refresh_prompt_and_line (search_prompt success term) ;;;
      edo c <- next_cmd f true;
      isearch_branch (fun t i d' su => isearch_loop f backup mark t i d' su) backup mark term idx d success c
    end.

  Definition incremental_search (fuel : nat) : E (option cmd) :=
    edo s <- eget;
    if Nat.eqb (hlen_e s) 0 then eret None
    else
      edo mark <- changes_begin;
      isearch_loop fuel (buf (e_line s), pos (e_line s)) mark [] (hlen_e s - 1) Reverse true.

  (* ---------- messages from other threads (State::external_print) ---------- *)

  Definition ends_with_lf_str (m : str) : bool := ends_with_lf m.
  Definition external_print (m : str) : E unit :=
    edo s <- eget;
    write (clear_old_rows (e_layout s)) ;;;
    (let lay := e_layout s in
     set_layout (mkLay (l_prompt_size lay) (l_default_prompt lay)
                       (mkP (p_col (l_cursor lay)) 0) (mkP (p_col (l_end lay)) 0))) ;;;
    write m ;;;
    (if ends_with_lf_str m then eret tt else write [10%N]) ;;;
    refresh_line.

  (* the main loop waits in select(): messages that arrived are shown before the next key is read *)
  Fixpoint drain_prints (fuel : nat) : E unit :=
    match fuel with
    | 0 => eret tt
    | S f =>
      edo s <- eget;
      match peek_print (e_inp s) with
      | Some (m, i) => set_inp i ;;; external_print m ;;; drain_prints f
      | None => eret tt
      end
    end.

  (* ---------- the main loop (lib.rs readline_edit) ---------- *)

  Inductive outcome := OLine (s : str) | OEof | OInterrupted | OInvalidData | OValidatorError | OHangup
                     | OPanic | OOutOfFuel.

  Fixpoint main_loop (fuel : nat) : E unit :=
    match fuel with
    | 0 => efuel
    | S f =>
      edo s00 <- eget;
      drain_prints (S (stream_size (e_inp s00))) ;;;
      edo c0 <- next_cmd f false;
      (if should_reset_kill_ring c0 then (edo s <- eget; set_kr (kr_reset (e_kr s))) else eret tt) ;;;
      edo oc <- (match c0 with
                 | CComplete => if c_has_helper cfg then complete_line f else eret (Some c0)
                 | _ => eret (Some c0)
                 end);
      match oc with
      | None => main_loop f
      | Some c1 =>
        edo oc2 <- (match c1 with
                    | CReverseSearchHistory => incremental_search f
                    | _ => eret (Some c1)
                    end);
        match oc2 with
        | None => main_loop f
        | Some c2 =>
          match c2 with
          | CQuotedInsert => (edo ch <- next_char; edit_insert ch 1 ;;; main_loop f)
          | CSuspend => refresh_line ;;; main_loop f      (* the terminal is restored, the process signals itself (not
                                                             modelled: it would stop), raw mode is entered again, the line redrawn *)
          | _ =>
            edo st <- execute c2;
            match st with
            | Proceed => main_loop f
            | Submit => eret tt
            end
          end
        end
      end
    end.

  Definition initial_state (prompt : str) (history : list str) (kr : killring) (inp : istream) : est :=
    mkEst (mkLb [] 0 (N.to_nat max_line) true) cs_new kr history (length history) ([], 0) None
          layout0 prompt (calc prompt P0) IMInsert 0%Z CNoop None inp [] [].

  (* one readline: (outcome, final state) *)
  Definition read_line (prompt : str) (initial : option (str * str)) (history : list str)
             (kr : killring) (inp : istream) : outcome * option est :=
    let s0 := initial_state prompt history (kr_reset kr) inp in
    let fuel := S (S (stream_size inp)) * 4 in
    let prog : E unit :=
        (match initial with
         | Some (l, r) => lb_changes (update (l ++ r) (blen l))
         | None => eret tt
         end) ;;;
        refresh_line ;;;
        main_loop fuel ;;;
        (* move to the end, forced refresh kind is irrelevant without a highlighter *)
        moved move_buffer_end in
    match prog s0 with
    | EOk _ s => (OLine (buf (e_line s)), Some s)
    | EErr EEof s => (OEof, Some s)
    | EErr EInterrupted s => (OInterrupted, Some s)
    | EErr EInvalidData s => (OInvalidData, Some s)
    | EErr EValidator s => (OValidatorError, Some s)
    | EErr EHangup s => (OHangup, Some s)
    | EPanic => (OPanic, None)
    | EFuel => (OOutOfFuel, None)
    end.
End Editor.
