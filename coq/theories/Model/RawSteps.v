(* Step-level model of the raw-mode discipline around one read: the statements of src/lib.rs readline_with / Guard,
   src/tty/unix.rs enable_raw_mode, PosixMode::disable_raw_mode and the Suspend command of the main loop, in their
   order, with output that can FAIL: every write consults an oracle (the next boolean of a list: true = the terminal
   takes the bytes). The editing loop is a list of actions -- ordinary output, a suspend episode, the application changing
   the settings while the process is suspended -- followed by the way the read ends. tcgetattr / tcsetattr are assumed to
   succeed (the terminal is connected). Definitions only (computable: extracted for the rawmode correspondence). *)
From Coq Require Import List Bool Arith.
From RL Require Import RawMode.
Import ListNotations.

Section RawSteps.
  Variable settings : Type.
  Variable raw_of : settings -> settings.
  Notation term := (term settings).

  (* one write: the bytes reach the terminal iff the oracle says so; an exhausted oracle means "works" *)
  Definition try_write (t : term) (w : wr) (oracle : list bool) : term * bool * list bool :=
    match oracle with
    | false :: rest => (t, false, rest)
    | true :: rest => (write settings t [w], true, rest)
    | [] => (write settings t [w], true, [])
    end.

  (* PosixTerminal::enable_raw_mode: remember what is in force, switch to raw, switch paste on; a failure of that write is
     logged and tolerated (the mode then has no output to switch paste off on) *)
  Definition enable_raw (paste : bool) (t : term) (oracle : list bool) : term * settings * bool * list bool :=
    let orig := t_tio settings t in
    let t1 := mkTerm settings (raw_of orig) (t_out settings t) in
    if paste then
      let '(t2, ok, o2) := try_write t1 PasteOn oracle in (t2, orig, ok, o2)
    else (t1, orig, false, oracle).

  (* PosixMode::disable_raw_mode: the remembered settings first, then paste off if it had been switched on; the result says
     whether the write worked (the Guard ignores it, the Suspend command does not) *)
  Definition disable_raw (orig : settings) (paste_out : bool) (t : term) (oracle : list bool) : term * bool * list bool :=
    let t1 := mkTerm settings orig (t_out settings t) in
    if paste_out then try_write t1 PasteOff oracle else (t1, true, oracle).

  Inductive action :=
  | AWrite                                   (* a repaint, a bell, ... *)
  | ASuspend (while_stopped : settings -> settings).   (* the suspend key; what the application / shell does to the settings meanwhile *)

  Inductive outcome := OExit (x : exit) | OIoError.

  (* the loop: stops at the first failed write (every write of the editor is followed by `?`) *)
  Fixpoint run_actions (paste : bool) (orig : settings) (paste_out : bool) (acts : list action) (x : exit)
           (t : term) (oracle : list bool) : term * outcome * list bool :=
    match acts with
    | [] => (t, OExit x, oracle)
    | AWrite :: rest =>
      let '(t1, ok, o1) := try_write t Other oracle in
      if ok then run_actions paste orig paste_out rest x t1 o1 else (t1, OIoError, o1)
    | ASuspend f :: rest =>
      (* original_mode.disable_raw_mode()?; tty::suspend()?; let _ = self.term.enable_raw_mode()?; s.refresh_line()?; *)
      let '(t1, ok, o1) := disable_raw orig paste_out t oracle in
      if negb ok then (t1, OIoError, o1)
      else
        let t2 := mkTerm settings (f (t_tio settings t1)) (t_out settings t1) in
        let '(t3, _, _, o3) := enable_raw paste t2 o1 in        (* the mode it returns is dropped *)
        let '(t4, ok4, o4) := try_write t3 Other o3 in
        if ok4 then run_actions paste orig paste_out rest x t4 o4 else (t4, OIoError, o4)
    end.

  (* readline_with: enable, the loop under the Guard, and on EVERY way out the Guard's drop: disable with the result ignored *)
  Definition read_steps (paste : bool) (acts : list action) (x : exit) (t : term) (oracle : list bool)
    : term * outcome * list bool :=
    let '(t1, orig, paste_out, o1) := enable_raw paste t oracle in
    let '(t2, res, o2) := run_actions paste orig paste_out acts x t1 o1 in
    let '(t3, _, o3) := disable_raw orig paste_out t2 o2 in
    (t3, res, o3).

  (* what reached the terminal, as far as paste switching is concerned *)
  Fixpoint switches (ws : list wr) : list bool :=
    match ws with
    | [] => []
    | PasteOn :: r => true :: switches r
    | PasteOff :: r => false :: switches r
    | Other :: r => switches r
    end.
End RawSteps.
