(* Scripted helpers (the same finite scripts the harness child installs) and
   the driver-facing entry point: several reads on one editor. Definitions only. *)
From RL Require Export Editor Direct.

Section Scripts.
  Variable U : UData.

  (* completer: the word starts after the last blank before the cursor; candidates are
     the scripted entries starting with that word -- or, when the scripted list begins with
     the entry "*", all the other entries whatever the word is (candidates need not extend
     the word: shorter, unrelated, empty) *)
  Definition script_complete (cands : list str) (line : str) (p : nat) : nat * list str :=
    let before := match bsplit line p with Some (l, _) => l | None => line end in
    let start := match rfind_char 32%N before with Some i => i + 1 | None => 0 end in
    let word := match bsplit before start with Some (_, w) => w | None => [] end in
    (start, match cands with
            | [42%N] :: rest => rest
            | _ => filter (fun c => prefix_b word c) cands
            end).

  (* hinter: cursor at the end of a non-empty line; first scripted hint extending it *)
  Definition script_hint (hints : list str) (line : str) (p : nat) : option str :=
    match line with
    | [] => None
    | _ =>
      if Nat.ltb p (blen line) then None
      else match find (fun h => prefix_b line h && Nat.ltb (length line) (length h)) hints with
           | Some h => Some (skipn (length line) h)
           | None => None
           end
    end.

  Fixpoint contains (t s : str) : bool :=
    prefix_b t s || match s with [] => false | _ :: s' => contains t s' end.

  Definition script_validate (line : str) : vresult :=
    if contains [35; 35]%N line || contains [35; 64]%N line then VRError      (* ## / #@: errors of two io::ErrorKinds *)
    else if contains [33; 33]%N line then VRInvalid (Some [32; 60; 45; 45; 32; 98; 97; 100]%N)
    else if contains [126; 126]%N line then VRInvalid (Some [])
    else if contains [63; 63]%N line then VRInvalid None
    else if ends_with line 92 then VRIncomplete
    else if contains [111; 107]%N line then VRValid (Some [32; 102; 105; 110; 101]%N)
    else VRValid None.

  (* MatchingBracketValidator with its messages *)
  Definition msg_unclosed (c : N) : str :=
    (* "Mismatched brackets: '(' is not properly closed" *)
    [77;105;115;109;97;116;99;104;101;100;32;98;114;97;99;107;101;116;115;58;32;39]%N ++ [c]
      ++ [39;32;105;115;32;110;111;116;32;112;114;111;112;101;114;108;121;32;99;108;111;115;101;100]%N.
  Definition msg_unpaired (c : N) : str :=
    [77;105;115;109;97;116;99;104;101;100;32;98;114;97;99;107;101;116;115;58;32;39]%N ++ [c]
      ++ [39;32;105;115;32;117;110;112;97;105;114;101;100]%N.
  Fixpoint brackets_v (s : str) (stack : list N) : vresult :=
    match s with
    | [] => match stack with [] => VRValid None | _ => VRIncomplete end
    | c :: t =>
      if ((c =? 40) || (c =? 91) || (c =? 123))%N then brackets_v t (c :: stack)
      else if ((c =? 41) || (c =? 93) || (c =? 125))%N then
        match stack with
        | o :: st => if ((o =? 40) && (c =? 41) || (o =? 91) && (c =? 93) || (o =? 123) && (c =? 125))%N
                     then brackets_v t st else VRInvalid (Some (msg_unclosed o))
        | [] => VRInvalid (Some (msg_unpaired c))
        end
      else brackets_v t stack
    end.

  (* the scripted validator with a verdict on the EMPTY text that is not Valid: " <-- required" / Incomplete *)
  Definition script_validate_req (line : str) : vresult :=
    match line with
    | [] => VRInvalid (Some [32; 60; 45; 45; 32; 114; 101; 113; 117; 105; 114; 101; 100]%N)
    | _ => script_validate line
    end.
  Definition script_validate_inc (line : str) : vresult :=
    match line with [] => VRIncomplete | _ => script_validate line end.

  Inductive vkind := VKNone | VKBrackets | VKScript | VKScriptReq | VKScriptInc.

  Definition mk_config (mode : edit_mode) (ct : completion_type) (timeout_none : bool) (cols : nat)
             (has_helper : bool) (cands hints : list str) (vk : vkind)
             (bindings : list (list key * cmd)) : config :=
    mkCfg mode ct timeout_none cols default_tab_stop default_indent_size default_completion_prompt_limit false true
          has_helper (script_complete cands) (script_hint hints)
          (match vk with
           | VKNone => fun _ => VRValid None
           | VKBrackets => fun l => brackets_v l []
           | VKScript => script_validate
           | VKScriptReq => script_validate_req
           | VKScriptInc => script_validate_inc
           end)
          bindings
          (KChar 68, M_CTRL) (KChar 67, M_CTRL) (KChar 92, M_CTRL) (KChar 90, M_CTRL).

  Record read_result := mkRR {
    rr_outcome : outcome;
    rr_obs : list observation;      (* oldest first *)
    rr_out : list (list N);         (* chunks written, oldest first *)
  }.

  (* successive reads; type-ahead left in the current chunk when a read returns is lost *)
  Fixpoint run_reads (cfg : config) (prompt : str) (initial : option (str * str)) (history : list str)
           (kr : killring) (inp : istream) (reads : nat) : list read_result :=
    match reads with
    | 0 => []
    | S k =>
      match read_line U cfg prompt initial history kr inp with
      | (o, Some s) =>
        mkRR o (rev (e_obs s)) (rev (e_out s))
             :: run_reads cfg prompt None history (e_kr s) (mkIn [] (in_rest (e_inp s))) k
      | (o, None) => [mkRR o [] []]
      end
    end.
End Scripts.
