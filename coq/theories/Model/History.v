(* Model of src/history.rs MemHistory (definitions only). *)
From RL Require Export UData.

Record hist := mkHist {
  h_entries : list str;     (* oldest first (VecDeque front = head) *)
  h_max : nat;
  h_ign_space : bool;
  h_ign_dups : bool;
}.

Definition hist_new (max : nat) (ign_space ign_dups : bool) : hist :=
  mkHist [] max ign_space ign_dups.

Definition hlen (h : hist) : nat := length (h_entries h).

Fixpoint last_opt {A} (l : list A) : option A :=
  match l with [] => None | [x] => Some x | _ :: t => last_opt t end.

(* MemHistory::ignore *)
Definition h_ignore (U : UData) (h : hist) (line : str) : bool :=
  if Nat.eqb (h_max h) 0 then true
  else if (match line with
           | [] => true
           | c :: _ => h_ign_space h && u_is_whitespace U c
           end) then true
  else if h_ign_dups h then
    match last_opt (h_entries h) with
    | Some s => str_eqb s line
    | None => false
    end
  else false.

(* MemHistory::insert *)
Definition h_insert (h : hist) (line : str) : hist :=
  let es := if Nat.eqb (hlen h) (h_max h) then tl (h_entries h) else h_entries h in
  mkHist (es ++ [line]) (h_max h) (h_ign_space h) (h_ign_dups h).

(* add / add_owned: (new state, accepted?) *)
Definition h_add (U : UData) (h : hist) (line : str) : hist * bool :=
  if h_ignore U h line then (h, false) else (h_insert h line, true).

Definition h_set_max_len (h : hist) (n : nat) : hist :=
  mkHist (if Nat.ltb n (hlen h) then skipn (hlen h - n) (h_entries h) else h_entries h)
         n (h_ign_space h) (h_ign_dups h).

Definition h_set_ign_dups (h : hist) (b : bool) : hist :=
  mkHist (h_entries h) (h_max h) (h_ign_space h) b.
Definition h_set_ign_space (h : hist) (b : bool) : hist :=
  mkHist (h_entries h) (h_max h) b (h_ign_dups h).
Definition h_clear (h : hist) : hist :=
  mkHist [] (h_max h) (h_ign_space h) (h_ign_dups h).

Definition h_get (h : hist) (i : nat) : option str := nth_error (h_entries h) i.

Inductive sdir := Forward | Reverse.

(* first element (with its index in the iteration) passing [test] *)
Fixpoint find_first (test : str -> option nat) (l : list str) (i : nat)
  : option (nat * nat * str) :=
  match l with
  | [] => None
  | e :: t => match test e with
              | Some c => Some (i, c, e)
              | None => find_first test t (S i)
              end
  end.

(* MemHistory::search_match: result (idx, pos, entry) *)
Definition h_search_match (h : hist) (term : str) (start : nat) (dir : sdir)
           (test : str -> option nat) : option (nat * nat * str) :=
  match term with
  | [] => None
  | _ =>
    if Nat.leb (hlen h) start then None
    else match dir with
         | Reverse =>
           match find_first test (skipn (hlen h - 1 - start) (rev (h_entries h))) 0 with
           | Some (i, c, e) => Some (start - i, c, e)
           | None => None
           end
         | Forward =>
           match find_first test (skipn start (h_entries h)) 0 with
           | Some (i, c, e) => Some (i + start, c, e)
           | None => None
           end
         end
  end.

Definition h_search (h : hist) (term : str) (start : nat) (dir : sdir) :=
  h_search_match h term start dir (fun e => find_sub term e).

Definition h_starts_with (h : hist) (term : str) (start : nat) (dir : sdir) :=
  h_search_match h term start dir
                 (fun e => if prefix_b term e then Some (blen term) else None).

(* Operations of the correspondence stream [hist] *)
Inductive hop :=
| HAdd (l : str) | HAddOwned (l : str) | HSetMax (n : nat)
| HIgnDups (b : bool) | HIgnSpace (b : bool) | HClear
| HGet (i : nat) | HSearch (t : str) (start : nat) (d : sdir)
| HStartsWith (t : str) (start : nat) (d : sdir) | HLen.

Inductive hout :=
| OBool (b : bool) | OUnit | OEntry (e : option str)
| OSearch (r : option (nat * nat * str)) | ONat (n : nat).

Definition h_step (U : UData) (h : hist) (o : hop) : hist * hout :=
  match o with
  | HAdd l | HAddOwned l => let '(h', b) := h_add U h l in (h', OBool b)
  | HSetMax n => (h_set_max_len h n, OUnit)
  | HIgnDups b => (h_set_ign_dups h b, OUnit)
  | HIgnSpace b => (h_set_ign_space h b, OUnit)
  | HClear => (h_clear h, OUnit)
  | HGet i => (h, OEntry (h_get h i))
  | HSearch t s d => (h, OSearch (h_search h t s d))
  | HStartsWith t s d => (h, OSearch (h_starts_with h t s d))
  | HLen => (h, ONat (hlen h))
  end.

Fixpoint h_run (U : UData) (h : hist) (ops : list hop) : hist * list hout :=
  match ops with
  | [] => (h, [])
  | o :: t => let '(h1, r) := h_step U h o in
              let '(h2, rs) := h_run U h1 t in (h2, r :: rs)
  end.
