(* Model of src/history.rs FileHistory: file format (save_to / load_from),
   save / append / load with path_info and new_entries bookkeeping, over a
   one-file file system with an observable modification time.
   Definitions only. *)
From RL Require Export Utf8 History GenConsts.

(* ---------- file format ---------- *)

Definition header : list N := file_version_v2.   (* "#V2", read from src/history.rs on every run *)

(* save_to escapes backslash, LF and CR (CR since the fix for finding F12) *)
Definition esc_char (c : N) : list N :=
  (if c =? 92 then [92; 92]
   else if c =? 10 then [92; 110]
   else if c =? 13 then [92; 114]
   else [c])%N.
Definition esc (s : str) : str := flat_map esc_char s.

(* load_from's unescape loop. [None] = "bad escaped line" (the raw line is
   kept). A lone backslash at the very end of the line (only a torn write
   produces one) is dropped, keeping what was decoded (fix for F13). *)
Fixpoint unesc (s : str) : option str :=
  match s with
  | [] => Some []
  | c :: t =>
    if (c =? 92)%N then
      match t with
      | [] => Some []
      | d :: t' =>
        if (d =? 110)%N then omap (cons 10%N) (unesc t')
        else if (d =? 92)%N then omap (cons 92%N) (unesc t')
        else if (d =? 114)%N then omap (cons 13%N) (unesc t')
        else None
      end
    else omap (cons c) (unesc t)
  end.

Definition entry_bytes (e : str) : list N := encode (esc e) ++ [10%N].
Definition entries_bytes (es : list str) : list N := flat_map entry_bytes es.
Definition save_bytes (es : list str) : list N := header ++ [10%N] ++ entries_bytes es.

(* BufRead::lines at byte level: segments ended by LF (flag true) and a last
   unterminated non-empty segment (flag false). *)
Fixpoint split_lines_aux (bs : list N) (cur : list N) : list (list N * bool) :=
  match bs with
  | [] => match cur with [] => [] | _ => [(rev cur, false)] end
  | b :: t => if (b =? 10)%N then (rev cur, true) :: split_lines_aux t []
              else split_lines_aux t (b :: cur)
  end.
Definition split_lines (bs : list N) : list (list N * bool) := split_lines_aux bs [].

Definition strip_cr (l : list N) : list N :=
  match rev l with
  | c :: r => if (c =? 13)%N then rev r else l
  | [] => l
  end.

(* one item of [lines()]: a String, or an InvalidData error *)
Definition decode_line (lb : list N * bool) : option str :=
  let '(l, term) := lb in
  match decode l with
  | Some _ => decode (if term then strip_cr l else l)
  | None => None
  end.

(* ---------- FileHistory ---------- *)

Record fhist := mkF {
  f_mem : hist;
  f_new : nat;                       (* new_entries *)
  f_pinfo : option (nat * nat);      (* (mtime, size) for the one path *)
}.

Definition f_new_cfg (max : nat) (igs igd : bool) : fhist :=
  mkF (hist_new max igs igd) 0 None.

Definition f_entries (f : fhist) : list str := h_entries (f_mem f).

Definition f_add (U : UData) (f : fhist) (l : str) : fhist * bool :=
  let '(m, b) := h_add U (f_mem f) l in
  if b then (mkF m (Nat.min (S (f_new f)) (hlen m)) (f_pinfo f), true)
  else (f, false).

Definition f_set_max_len (f : fhist) (n : nat) : fhist :=
  mkF (h_set_max_len (f_mem f) n) (Nat.min (f_new f) n) (f_pinfo f).

Definition f_clear (f : fhist) : fhist :=
  mkF (h_clear (f_mem f)) 0 (f_pinfo f).

Inductive loadres :=
| LOk (f : fhist) (appendable : bool)
| LErr (f : fhist).

Fixpoint load_rest (U : UData) (v2 : bool) (f : fhist) (app : bool)
         (ls : list (list N * bool)) : loadres :=
  match ls with
  | [] => LOk (mkF (f_mem f) 0 (f_pinfo f)) app
  | lb :: t =>
    match decode_line lb with
    | None => LErr f
    | Some line =>
      match line with
      | [] => load_rest U v2 f app t
      | _ =>
        let line' := if v2 then match unesc line with Some s => s | None => line end
                     else line in
        let '(f', b) := f_add U f line' in
        load_rest U v2 f' (app && b) t
      end
    end
  end.

Definition load_from (U : UData) (f : fhist) (bytes : list N) : loadres :=
  match split_lines bytes with
  | [] => LOk (mkF (f_mem f) 0 (f_pinfo f)) false
  | lb :: t =>
    match decode_line lb with
    | None => LErr f
    | Some line =>
      if str_eqb line header then load_rest U true f true t
      else let '(f', _) := f_add U f line in load_rest U false f' false t
    end
  end.

(* ---------- one file with an mtime ---------- *)

Record fsys := mkFs {
  fs_content : option (list N);
  fs_mtime : nat;       (* mtime of the file (meaningful when it exists) *)
}.

(* a write: [tick] says whether the new mtime is distinguishable from the
   newest mtime handed out so far *)
Definition fs_write (fs : fsys) (bytes : list N) (tick : bool) : fsys :=
  mkFs (Some bytes) (if tick then S (fs_mtime fs) else fs_mtime fs).

Inductive ioresult := IoOk | IoErr.

Definition f_save (f : fhist) (fs : fsys) (tick : bool) : fhist * fsys * ioresult :=
  if Nat.eqb (hlen (f_mem f)) 0 || Nat.eqb (f_new f) 0 then (f, fs, IoOk)
  else
    let fs' := fs_write fs (save_bytes (f_entries f)) tick in
    (mkF (f_mem f) 0 (Some (fs_mtime fs', hlen (f_mem f))), fs', IoOk).

Definition can_just_append (f : fhist) (fs : fsys) : bool :=
  match f_pinfo f with
  | Some (pm, psize) =>
    if negb (Nat.eqb pm (fs_mtime fs)) || Nat.leb (h_max (f_mem f)) psize
       || Nat.ltb (h_max (f_mem f)) (psize + f_new f)
    then false else true
  | None => false
  end.

Definition pending (f : fhist) : list str :=
  skipn (hlen (f_mem f) - f_new f) (f_entries f).

Fixpoint f_add_all (U : UData) (f : fhist) (ls : list str) : fhist :=
  match ls with [] => f | l :: t => f_add_all U (fst (f_add U f l)) t end.

Definition f_append (U : UData) (f : fhist) (fs : fsys) (tick : bool)
  : fhist * fsys * ioresult :=
  if Nat.eqb (hlen (f_mem f)) 0 || Nat.eqb (f_new f) 0 then (f, fs, IoOk)
  else
    match fs_content fs with
    | None => f_save f fs tick
    | Some content =>
      if Nat.eqb (f_new f) (h_max (f_mem f)) then f_save f fs tick
      else if can_just_append f fs then
        let fs' := fs_write fs (content ++ entries_bytes (pending f)) tick in
        let size := match f_pinfo f with Some (_, s) => s + f_new f | None => 0 end in
        (mkF (f_mem f) 0 (Some (fs_mtime fs', size)), fs', IoOk)
      else
        let other := f_new_cfg (h_max (f_mem f)) (h_ign_space (f_mem f)) (h_ign_dups (f_mem f)) in
        match load_from U other content with
        | LErr _ => (f, fs, IoErr)
        | LOk other1 _ =>
          let other2 := f_add_all U other1 (pending f) in
          let fs' := fs_write fs (save_bytes (f_entries other2)) tick in
          (mkF (f_mem f) 0 (Some (fs_mtime fs', hlen (f_mem other2))), fs', IoOk)
        end
    end.

Definition f_load (U : UData) (f : fhist) (fs : fsys) : fhist * ioresult :=
  match fs_content fs with
  | None => (f, IoErr)
  | Some content =>
    let len := hlen (f_mem f) in
    match load_from U f content with
    | LErr f' => (f', IoErr)
    | LOk f' true => (mkF (f_mem f') (f_new f') (Some (fs_mtime fs, hlen (f_mem f') - len)), IoOk)
    | LOk f' false => (mkF (f_mem f') (f_new f') None, IoOk)
    end
  end.

(* ---------- several sessions on the one file (C10/C11/C12 streams) ---------- *)

Inductive fop :=
| FNew (i : nat) (max : nat) (igs igd : bool)
| FAdd (i : nat) (l : str)
| FSave (i : nat) (tick : bool)
| FAppend (i : nat) (tick : bool)
| FLoad (i : nat)
| FSetMax (i : nat) (n : nat)
| FClear (i : nat)
| FPut (bytes : list N) (tick : bool)        (* harness overwrites the file *)
| FRemove.                                   (* harness removes the file *)

Record world := mkW { w_sessions : list (nat * fhist); w_fs : fsys }.

Definition w_init : world := mkW [] (mkFs None 0).

Fixpoint sess_get (ss : list (nat * fhist)) (i : nat) : option fhist :=
  match ss with
  | [] => None
  | (j, f) :: t => if Nat.eqb i j then Some f else sess_get t i
  end.
Fixpoint sess_set (ss : list (nat * fhist)) (i : nat) (f : fhist) : list (nat * fhist) :=
  match ss with
  | [] => [(i, f)]
  | (j, g) :: t => if Nat.eqb i j then (j, f) :: t else (j, g) :: sess_set t i f
  end.

Inductive fout :=
| FoUnit | FoBool (b : bool) | FoIo (r : ioresult) | FoNoSession.

Definition w_step (U : UData) (w : world) (o : fop) : world * fout :=
  let ss := w_sessions w in
  let fs := w_fs w in
  let with_sess i (k : fhist -> world * fout) :=
      match sess_get ss i with Some f => k f | None => (w, FoNoSession) end in
  match o with
  | FNew i max igs igd => (mkW (sess_set ss i (f_new_cfg max igs igd)) fs, FoUnit)
  | FAdd i l => with_sess i (fun f =>
      let '(f', b) := f_add U f l in (mkW (sess_set ss i f') fs, FoBool b))
  | FSave i tick => with_sess i (fun f =>
      let '(f', fs', r) := f_save f fs tick in (mkW (sess_set ss i f') fs', FoIo r))
  | FAppend i tick => with_sess i (fun f =>
      let '(f', fs', r) := f_append U f fs tick in (mkW (sess_set ss i f') fs', FoIo r))
  | FLoad i => with_sess i (fun f =>
      let '(f', r) := f_load U f fs in (mkW (sess_set ss i f') fs, FoIo r))
  | FSetMax i n => with_sess i (fun f => (mkW (sess_set ss i (f_set_max_len f n)) fs, FoUnit))
  | FClear i => with_sess i (fun f => (mkW (sess_set ss i (f_clear f)) fs, FoUnit))
  | FPut bytes tick => (mkW ss (fs_write fs bytes tick), FoUnit)
  | FRemove => (mkW ss (mkFs None (fs_mtime fs)), FoUnit)
  end.

(* observation after each step: output, the acting session's entries and
   new_entries, the file *)
Record fobs := mkObs {
  ob_out : fout;
  ob_entries : list str;
  ob_file : option (list N);
}.

Definition fop_session (o : fop) : option nat :=
  match o with
  | FNew i _ _ _ | FAdd i _ | FSave i _ | FAppend i _ | FLoad i | FSetMax i _ | FClear i => Some i
  | _ => None
  end.

Definition w_observe (w : world) (o : fop) (out : fout) : fobs :=
  mkObs out
        (match fop_session o with
         | Some i => match sess_get (w_sessions w) i with Some f => f_entries f | None => [] end
         | None => []
         end)
        (fs_content (w_fs w)).

Fixpoint w_run (U : UData) (w : world) (ops : list fop) : list fobs :=
  match ops with
  | [] => []
  | o :: t => let '(w', out) := w_step U w o in w_observe w' o out :: w_run U w' t
  end.
