(* Model of src/completion.rs (unix): escape, unescape, extract_word,
   find_unclosed_quote, longest_common_prefix, FilenameCompleter::complete_path
   with the directory tree as a parameter. Definitions only. *)
From RL Require Export Utf8 GenConsts.

Fixpoint mem_N (c : N) (l : list N) : bool :=
  match l with [] => false | x :: t => (x =? c)%N || mem_N c t end.

Definition is_break (c : N) : bool := mem_N c default_break_chars.
Definition is_dq_special (c : N) : bool := mem_N c double_quotes_special_chars.

Inductive quote := QDouble | QSingle | QNone.

(* unescape(input, Some(esc)) *)
Fixpoint unescape (esc : N) (s : str) : str :=
  match s with
  | [] => []
  | c :: t => if (c =? esc)%N then
                match t with
                | [] => []
                | d :: t' => d :: unescape esc t'
                end
              else c :: unescape esc t
  end.

(* escape(input, Some(esc), is_break_char, quote) *)
Definition escape (esc : N) (brk : N -> bool) (q : quote) (s : str) : str :=
  match q with
  | QSingle => s
  | _ => flat_map (fun c => if brk c then [esc; c] else [c]) s
  end.

(* extract_word(line, pos, Some(esc), is_break_char) on line[..pos] given as
   the reversed prefix; returns the number of BYTES in the word *)
Fixpoint extract_go (esc : N) (brk : N -> bool) (rev_line : list N)
         (pending : option nat) (acc : nat) : nat :=
  (* [acc] = bytes walked so far; [pending] = Some n: a break char was seen,
     the word would be the last n bytes *)
  match rev_line with
  | [] => match pending with Some n => n | None => acc end
  | c :: t =>
    match pending with
    | Some n => if (c =? esc)%N then extract_go esc brk t None (acc + clen c) else n
    | None => if brk c then extract_go esc brk t (Some acc) (acc + clen c)
              else extract_go esc brk t None (acc + clen c)
    end
  end.

(* (start, word) *)
Definition extract_word (esc : N) (brk : N -> bool) (line : str) : nat * str :=
  let n := extract_go esc brk (rev line) None 0 in
  let start := blen line - n in
  match bsplit line start with
  | Some (_, w) => (start, w)
  | None => (start, [])      (* unreachable: proved in CompletionProofs *)
  end.

Inductive scan_mode := MNormal | MDouble | MEscape | MEscapeInDouble | MSingle.

Fixpoint scan (s : str) (mode : scan_mode) (idx : nat) (qidx : nat) : scan_mode * nat :=
  match s with
  | [] => (mode, qidx)
  | c :: t =>
    let next := idx + clen c in
    match mode with
    | MDouble => if (c =? 34)%N then scan t MNormal next qidx
                 else if (c =? 92)%N then scan t MEscapeInDouble next qidx
                 else scan t MDouble next qidx
    | MEscape => scan t MNormal next qidx
    | MEscapeInDouble => scan t MDouble next qidx
    | MNormal => if (c =? 34)%N then scan t MDouble next idx
                 else if (c =? 92)%N then scan t MEscape next qidx
                 else if (c =? 39)%N then scan t MSingle next idx
                 else scan t MNormal next qidx
    | MSingle => if (c =? 39)%N then scan t MNormal next qidx else scan t MSingle next qidx
    end
  end.

Definition find_unclosed_quote (s : str) : option (nat * quote) :=
  match scan s MNormal 0 0 with
  | (MDouble, i) | (MEscapeInDouble, i) => Some (i, QDouble)
  | (MSingle, i) => Some (i, QSingle)
  | _ => None
  end.

(* ---------- longest_common_prefix over bytes ---------- *)

Fixpoint all_adjacent_agree (k : nat) (bs : list (list N)) : bool :=
  match bs with
  | b1 :: ((b2 :: _) as t) =>
    match nth_error b1 k, nth_error b2 k with
    | Some x, Some y => (x =? y)%N && all_adjacent_agree k t
    | _, _ => false
    end
  | _ => true
  end.

Fixpoint lcp_len (fuel k : nat) (bs : list (list N)) : nat :=
  match fuel with
  | 0 => k
  | S f => if all_adjacent_agree k bs then lcp_len f (S k) bs else k
  end.

Fixpoint backoff (s : str) (n : nat) : nat :=
  match n with
  | 0 => 0
  | S m => if is_boundary s n then n else backoff s m
  end.

Definition longest_common_prefix (cands : list str) : option str :=
  match cands with
  | [] => None
  | [c] => Some c
  | c0 :: _ =>
    let bs := map encode cands in
    let n := lcp_len (S (length (encode c0))) 0 bs in
    let n' := backoff c0 n in
    if Nat.eqb n' 0 then None
    else match bsplit c0 n' with Some (l, _) => Some l | None => None end
  end.

(* ---------- FilenameCompleter ---------- *)

(* a directory tree two levels deep is enough for the streams: entries of the
   current directory, each possibly a directory with its own entries *)
Record dentry := mkD { d_name : str; d_is_dir : bool; d_children : list (str * bool) }.

Definition sep : N := 47%N.

(* split at the last '/' : (dir_name incl. the separator, file_name) *)
Fixpoint rsplit_sep (s : str) : str * str :=
  match s with
  | [] => ([], [])
  | c :: t => let '(d, f) := rsplit_sep t in
              match d with
              | [] => if (c =? sep)%N then ([c], f) else ([], c :: f)
              | _ => (c :: d, f)
              end
  end.

Definition lookup_dir (root : list dentry) (dir_name : str) : option (list (str * bool)) :=
  match dir_name with
  | [] => Some (map (fun d => (d_name d, d_is_dir d)) root)
  | _ =>
    (* "name/" for a sub-directory of the current directory *)
    let name := removelast dir_name in
    match find (fun d => str_eqb (d_name d) name && d_is_dir d) root with
    | Some d => if mem_N sep name then None else Some (d_children d)
    | None => None
    end
  end.

Definition filename_complete (root : list dentry) (path : str)
           (esc : option N) (brk : N -> bool) (q : quote) : list (str * str) :=
  let '(dir_name, file_name) := rsplit_sep path in
  match lookup_dir root dir_name with
  | None => []
  | Some ents =>
    flat_map (fun e : str * bool =>
                let '(name, isdir) := e in
                if prefix_b file_name name then
                  let p := dir_name ++ name ++ (if isdir then [sep] else []) in
                  [(name, match esc with Some ec => escape ec brk q p | None => p end)]
                else []) ents
  end.

(* complete_path_unsorted: (start, candidates as (display, replacement)) *)
Definition complete_path (root : list dentry) (line : str) : nat * list (str * str) :=
  match find_unclosed_quote line with
  | Some (idx, QDouble) =>
    let start := idx + 1 in
    let word := match bsplit line start with Some (_, w) => w | None => [] end in
    (start, filename_complete root (unescape double_quotes_escape_char word)
                              (Some double_quotes_escape_char) is_dq_special QDouble)
  | Some (idx, q) =>
    let start := idx + 1 in
    let word := match bsplit line start with Some (_, w) => w | None => [] end in
    (start, filename_complete root word None is_break q)
  | None =>
    let '(start, word) := extract_word escape_char is_break line in
    (start, filename_complete root (unescape escape_char word) (Some escape_char) is_break QNone)
  end.
