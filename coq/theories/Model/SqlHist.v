(* Model of src/sqlite_history.rs (feature with-sqlite-history): the history table as a list of rows in
   rowid order, the cached maximal rowid, the session. SQLite itself is not modelled: INSERT OR REPLACE under
   the (entry, session_id) unique index, rowid allocation (one more than the largest rowid in the table) and
   ORDER BY rowid LIMIT 1 are written down here as documented. The full-text search is not modelled at all.
   Definitions only. *)
From RL Require Export History.

Record row := mkRow { r_id : nat; r_sess : nat; r_entry : str }.

Record sqlh := mkSql {
  q_rows : list row;        (* ascending rowid; survives a reopen *)
  q_nsess : nat;            (* sessions created so far (table session); survives a reopen *)
  q_cache : nat;            (* row_id: the largest rowid this object knows of; len() *)
  q_sess : nat;             (* session_id of this object, 0 = none yet *)
  q_max : nat; q_igs : bool; q_igd : bool;
  q_cfg_max : nat;          (* the size limit of the Config every (re)open is given *)
}.

Definition sql_new (max : nat) (igs igd : bool) : sqlh := mkSql [] 0 0 0 max igs igd max.

Definition max_id (rows : list row) : nat := fold_left (fun a r => Nat.max a (r_id r)) rows 0.

Section Sql.
  Variable U : UData.

  Definition sql_ignore (h : sqlh) (line : str) : bool :=
    Nat.eqb (q_max h) 0
    || match line with
       | [] => true
       | c :: _ => q_igs h && u_is_whitespace U c
       end.

  (* INSERT OR REPLACE INTO history (session_id, entry): with the unique index a row with the same entry
     and session is deleted first; the new row gets the largest rowid of the table (as it was before the replacement) + 1 *)
  Definition same_key (sess : nat) (line : str) (r : row) : bool :=
    Nat.eqb (r_sess r) sess && str_eqb (r_entry r) line.

  Definition sql_add (h : sqlh) (line : str) : sqlh * bool :=
    if sql_ignore h line then (h, false)
    else
      let '(sess, nsess) := if Nat.eqb (q_sess h) 0 then (S (q_nsess h), S (q_nsess h)) else (q_sess h, q_nsess h) in
      let kept := if q_igd h then filter (fun r => negb (same_key sess line r)) (q_rows h) else q_rows h in
      let id := S (max_id (q_rows h)) in      (* the rowid is chosen before the conflicting row is replaced *)
      (mkSql (kept ++ [mkRow id sess line]) nsess id sess (q_max h) (q_igs h) (q_igd h) (q_cfg_max h), true).

  (* ... WHERE rowid >= ?1 ORDER BY rowid ASC LIMIT 1 / rowid <= ?1 ORDER BY rowid DESC LIMIT 1 *)
  Fixpoint find_ge (rows : list row) (rid : nat) : option row :=
    match rows with
    | [] => None
    | r :: rest => if Nat.leb rid (r_id r) then Some r else find_ge rest rid
    end.
  Fixpoint find_le (rows : list row) (rid : nat) : option row :=
    match rows with
    | [] => None
    | r :: rest => if Nat.leb (r_id r) rid
                   then match find_le rest rid with Some r' => Some r' | None => Some r end
                   else None
    end.

  Definition sql_get (h : sqlh) (index : nat) (d : sdir) : sqlh * option (nat * str) :=
    if Nat.eqb (q_cache h) 0 then (h, None)
    else
      match (match d with Forward => find_ge | Reverse => find_le end) (q_rows h) (S index) with
      | Some r =>
        (mkSql (q_rows h) (q_nsess h) (Nat.max (q_cache h) (r_id r)) (q_sess h) (q_max h) (q_igs h) (q_igd h) (q_cfg_max h),
         Some (r_id r - 1, r_entry r))
      | None => (h, None)
      end.

  Definition sql_set_max (h : sqlh) (n : nat) : sqlh :=
    let count := length (q_rows h) in
    mkSql (skipn (count - n) (q_rows h)) (q_nsess h) (q_cache h) (q_sess h) n (q_igs h) (q_igd h) (q_cfg_max h).

  (* the database is closed and opened again (same settings): a new object over the same tables *)
  Definition sql_reopen (h : sqlh) : sqlh :=
    mkSql (q_rows h) (q_nsess h) (max_id (q_rows h)) 0 (q_cfg_max h) (q_igs h) (q_igd h) (q_cfg_max h).

  (* ... with another Config: the duplicates policy is the new one (the unique index is dropped / created on open) *)
  Definition sql_reopen_cfg (h : sqlh) (igs igd : bool) : sqlh :=
    mkSql (q_rows h) (q_nsess h) (max_id (q_rows h)) 0 (q_cfg_max h) igs igd (q_cfg_max h).

  (* History::ignore_dups(yes) on the open object: the unique index (entry, session_id) is created or dropped at once;
     creating it fails when two rows of one session hold the same entry (entered under the other policy): the caller
     gets the error (the stream's operation then switches back, which always succeeds) *)
  Fixpoint has_dup_rows (rows : list row) : bool :=
    match rows with
    | [] => false
    | r :: rest => existsb (same_key (r_sess r) (r_entry r)) rest || has_dup_rows rest
    end.
  Definition sql_set_dups (h : sqlh) (yes : bool) : sqlh * bool :=
    if Bool.eqb (q_igd h) yes then (h, true)
    else if yes && has_dup_rows (q_rows h) then (h, false)
    else (mkSql (q_rows h) (q_nsess h) (q_cache h) (q_sess h) (q_max h) (q_igs h) yes (q_cfg_max h), true).
  Definition sql_set_space (h : sqlh) (yes : bool) : sqlh :=
    mkSql (q_rows h) (q_nsess h) (q_cache h) (q_sess h) (q_max h) yes (q_igd h) (q_cfg_max h).

  Inductive sop := SAdd (l : str) | SGet (i : nat) (d : sdir) | SLen | SSetMax (n : nat) | SReopen
                 | SReopenCfg (igs igd : bool) | SSetDups (yes : bool) | SSetSpace (yes : bool).
  Inductive sout := SoBool (b : bool) | SoGet (r : option (nat * str)) | SoNat (n : nat) | SoUnit | SoRefused.

  Definition sql_step (h : sqlh) (o : sop) : sqlh * sout :=
    match o with
    | SAdd l => let '(h', b) := sql_add h l in (h', SoBool b)
    | SGet i d => let '(h', r) := sql_get h i d in (h', SoGet r)
    | SLen => (h, SoNat (q_cache h))
    | SSetMax n => (sql_set_max h n, SoUnit)
    | SReopen => (sql_reopen h, SoUnit)
    | SReopenCfg igs igd => (sql_reopen_cfg h igs igd, SoUnit)
    | SSetDups yes => let '(h', ok) := sql_set_dups h yes in (h', if ok then SoUnit else SoRefused)
    | SSetSpace yes => (sql_set_space h yes, SoUnit)
    end.
  Fixpoint sql_run (h : sqlh) (ops : list sop) : sqlh * list sout :=
    match ops with
    | [] => (h, [])
    | o :: rest => let '(h1, x) := sql_step h o in let '(h2, xs) := sql_run h1 rest in (h2, x :: xs)
    end.

  (* walking the history the way the editor does: from an index, the next older / newer row *)
  Fixpoint walk_down (fuel : nat) (rows : list row) (bound : nat) : list row :=
    match fuel with
    | 0 => []
    | S f => match find_le rows bound with
             | Some r => r :: walk_down f rows (r_id r - 1)
             | None => []
             end
    end.
  Fixpoint walk_up (fuel : nat) (rows : list row) (bound : nat) : list row :=
    match fuel with
    | 0 => []
    | S f => match find_ge rows bound with
             | Some r => r :: walk_up f rows (S (r_id r))
             | None => []
             end
    end.
End Sql.
