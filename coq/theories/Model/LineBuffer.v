(* Model of src/line_buffer.rs: one function per public method, the same
   byte arithmetic, explicit Panic where Rust's slicing / arithmetic would
   panic. Definitions only. The grapheme segmentation is a parameter. *)
From RL Require Export UData GenConsts.

(* ---------- Rust string primitives on (list of chars, byte offsets) ---------- *)

(* &s[a..] *)
Definition slice_from (s : str) (a : nat) : res str :=
  match bsplit s a with Some (_, r) => Ok r | None => Panic end.
(* &s[..b] *)
Definition slice_to (s : str) (b : nat) : res str :=
  match bsplit s b with Some (l, _) => Ok l | None => Panic end.
(* &s[a..b] *)
Definition slice (s : str) (a b : nat) : res str :=
  if Nat.ltb b a then Panic
  else match bsplit s a with
       | Some (_, r) => match bsplit r (b - a) with Some (m, _) => Ok m | None => Panic end
       | None => Panic
       end.
(* String::drain(a..b): (removed, remaining) *)
Definition str_drain (s : str) (a b : nat) : res (str * str) :=
  if Nat.ltb b a then Panic
  else match bsplit s a with
       | Some (l, r) => match bsplit r (b - a) with
                        | Some (m, r') => Ok (m, l ++ r')
                        | None => Panic
                        end
       | None => Panic
       end.
(* String::insert_str(idx, t) *)
Definition str_insert (s : str) (idx : nat) (t : str) : res str :=
  match bsplit s idx with Some (l, r) => Ok (l ++ t ++ r) | None => Panic end.

(* str::find(c) / rfind(c) for a char: byte offset *)
Fixpoint find_char (c : N) (s : str) : option nat :=
  match s with
  | [] => None
  | x :: t => if (x =? c)%N then Some 0
              else match find_char c t with Some k => Some (clen x + k) | None => None end
  end.
Fixpoint rfind_char (c : N) (s : str) : option nat :=
  match s with
  | [] => None
  | x :: t => match rfind_char c t with
              | Some k => Some (clen x + k)
              | None => if (x =? c)%N then Some 0 else None
              end
  end.

Definition LF : N := 10%N.

(* ---------- types of keymap.rs ---------- *)

Inductive word_def := WBig | WEmacs | WVi.
Inductive at_pos := AtStart | AtBeforeEnd | AtAfterEnd.
Inductive char_search := CsForward (c : N) | CsForwardBefore (c : N) | CsBackward (c : N) | CsBackwardAfter (c : N).
Inductive movement :=
| MWholeLine | MBeginningOfLine | MEndOfLine
| MBackwardWord (n : nat) (w : word_def)
| MForwardWord (n : nat) (a : at_pos) (w : word_def)
| MViCharSearch (n : nat) (cs : char_search)
| MViFirstPrint
| MBackwardChar (n : nat) | MForwardChar (n : nat)
| MLineUp (n : nat) | MLineDown (n : nat)
| MWholeBuffer | MBeginningOfBuffer | MEndOfBuffer.
Inductive word_action := Capitalize | Lowercase | Uppercase.
Inductive direction := DForward | DBackward.

Inductive event :=
| EInsertChar (idx : nat) (c : N)
| EInsertStr (idx : nat) (s : str)
| EDelete (idx : nat) (s : str) (d : direction)
| EReplace (idx : nat) (old new : str)
| EStartKill | EStopKill.

Record lb := mkLb { buf : str; pos : nat; cap : nat; grow : bool }.

Definition lb_len (b : lb) : nat := blen (buf b).
Definition set_buf (b : lb) (s : str) : lb := mkLb s (pos b) (cap b) (grow b).
Definition set_pos' (b : lb) (p : nat) : lb := mkLb (buf b) p (cap b) (grow b).

Definition must_truncate (b : lb) (new_len : nat) : bool :=
  negb (grow b) && Nat.ltb (cap b) new_len.

Section LB.
  Variable U : UData.
  Variable seg : str -> list str.

  (* grapheme_indices(true) of a string: (byte offset, cluster) *)
  Fixpoint index_from (i : nat) (gs : list str) : list (nat * str) :=
    match gs with [] => [] | g :: t => (i, g) :: index_from (i + blen g) t end.
  Definition gindices (s : str) : list (nat * str) := index_from 0 (seg s).

  (* ---------- mutation primitives: the only places where [buf] changes ---------- *)

  Definition M (A : Type) : Type := lb -> res (A * lb * list event).
  Definition ret {A} (a : A) : M A := fun b => Ok (a, b, []).
  Definition bind {A B} (m : M A) (f : A -> M B) : M B :=
    fun b => match m b with
             | Ok (a, b1, e1) => match f a b1 with
                                 | Ok (r, b2, e2) => Ok (r, b2, e1 ++ e2)
                                 | Panic => Panic
                                 end
             | Panic => Panic
             end.
  Definition get : M lb := fun b => Ok (b, b, []).
  Definition put_pos (p : nat) : M unit := fun b => Ok (tt, set_pos' b p, []).
  Definition fail {A} : M A := fun _ => Panic.
  Definition lift {A} (r : res A) : M A := fun b => match r with Ok a => Ok (a, b, []) | Panic => Panic end.
  Definition emit (e : event) : M unit := fun b => Ok (tt, b, [e]).

  Notation "'do' x '<-' m ';' k" := (bind m (fun x => k)) (at level 200, x pattern, m at level 100, k at level 200).
  Notation "m ';;' k" := (bind m (fun _ => k)) (at level 90, right associativity).

  (* drain(range, dir, dl): notifies, then removes; returns the removed text *)
  Definition drain (a b' : nat) (d : direction) : M str :=
    fun b => match str_drain (buf b) a b' with
             | Ok (m, rest) => Ok (m, set_buf b rest, [EDelete a m d])
             | Panic => Panic
             end.
  (* insert_str(idx, s, cl) : true iff appended at the end *)
  Definition insert_str (idx : nat) (s : str) : M bool :=
    fun b => match str_insert (buf b) idx s with
             | Ok nb => Ok (Nat.eqb idx (lb_len b), set_buf b nb, [EInsertStr idx s])
             | Panic => Panic
             end.
  Definition insert_char_at (idx : nat) (c : N) : M unit :=
    fun b => match str_insert (buf b) idx [c] with
             | Ok nb => Ok (tt, set_buf b nb, [EInsertChar idx c])
             | Panic => Panic
             end.
  (* replace(range, text, cl) *)
  Definition replace_range (a b' : nat) (text : str) : M unit :=
    fun b => match slice (buf b) a b' with
             | Panic => Panic
             | Ok old =>
               match str_drain (buf b) a b' with
               | Panic => Panic
               | Ok (_, rest) =>
                 match str_insert rest a text with
                 | Panic => Panic
                 | Ok nb => Ok (tt, mkLb nb (a + blen text) (cap b) (grow b), [EReplace a old text])
                 end
               end
             end.

  (* ---------- position finders (pure) ---------- *)

  Definition end_of_line (b : lb) : res nat :=
    match slice_from (buf b) (pos b) with
    | Panic => Panic
    | Ok r => Ok (match find_char LF r with Some n => n + pos b | None => lb_len b end)
    end.
  Definition start_of_line (b : lb) : res nat :=
    match slice_to (buf b) (pos b) with
    | Panic => Panic
    | Ok l => Ok (match rfind_char LF l with Some i => i + 1 | None => 0 end)
    end.

  Fixpoint last_opt {A} (l : list A) : option A :=
    match l with [] => None | [x] => Some x | _ :: t => last_opt t end.

  Definition next_pos (b : lb) (n : nat) : res (option nat) :=
    if Nat.eqb (pos b) (lb_len b) then Ok None
    else match slice_from (buf b) (pos b) with
         | Panic => Panic
         | Ok r => Ok (match last_opt (firstn n (gindices r)) with
                       | Some (i, s) => Some (i + pos b + blen s)
                       | None => None
                       end)
         end.
  Definition prev_pos (b : lb) (n : nat) : res (option nat) :=
    if Nat.eqb (pos b) 0 then Ok None
    else match slice_to (buf b) (pos b) with
         | Panic => Panic
         | Ok l => Ok (match last_opt (firstn n (rev (gindices l))) with
                       | Some (i, _) => Some i
                       | None => None
                       end)
         end.

  Definition all_alnum (g : str) : bool := forallb (u_is_alphanumeric U) g.
  Definition any_ws (g : str) : bool := existsb (u_is_whitespace U) g.
  Definition is_vi_word_char (g : str) : bool := all_alnum g || str_eqb g [95%N].
  Definition is_other_char (g : str) : bool := negb (any_ws g || is_vi_word_char g).
  Definition is_word_char (w : word_def) (g : str) : bool :=
    match w with WEmacs => all_alnum g | WVi => is_vi_word_char g | WBig => negb (any_ws g) end.
  Definition is_vi (w : word_def) : bool := match w with WVi => true | _ => false end.
  Definition is_emacs (w : word_def) : bool := match w with WEmacs => true | _ => false end.
  Definition is_start_of_word (w : word_def) (previous g : str) : bool :=
    (negb (is_word_char w previous) && is_word_char w g)
    || (is_vi w && negb (is_other_char previous) && is_other_char g).
  Definition is_end_of_word (w : word_def) (g next : str) : bool :=
    (negb (is_word_char w next) && is_word_char w g)
    || (is_vi w && negb (is_other_char next) && is_other_char g).

  (* prev_word_pos: [gis] iterates the clusters before [pos] from the last one *)
  Fixpoint pw_inner (w : word_def) (gj : nat * str) (gis : list (nat * str))
    : option (nat * list (nat * str)) :=
    match gis with
    | [] => None
    | gi :: rest => if is_start_of_word w (snd gi) (snd gj) then Some (fst gj, rest)
                    else pw_inner w gi rest
    end.
  Fixpoint pw_outer (w : word_def) (n : nat) (gis : list (nat * str)) (sow : nat) : nat :=
    match n with
    | 0 => sow
    | S n' => match gis with
              | [] => 0
              | gj :: rest => match pw_inner w gj rest with
                              | None => 0
                              | Some (s, rest') => pw_outer w n' rest' s
                              end
              end
    end.
  Definition prev_word_pos (b : lb) (p : nat) (w : word_def) (n : nat) : res (option nat) :=
    if Nat.eqb p 0 then Ok None
    else match slice_to (buf b) p with
         | Panic => Panic
         | Ok l => Ok (Some (pw_outer w n (rev (gindices l)) 0))
         end.

  Definition at_is_start (a : at_pos) : bool := match a with AtStart => true | _ => false end.
  Definition at_is_after (a : at_pos) : bool := match a with AtAfterEnd => true | _ => false end.
  Definition at_is_before (a : at_pos) : bool := match a with AtBeforeEnd => true | _ => false end.

  (* inner loop: (Some (wp, rest) | None = break 'outer, gi at exit) *)
  Fixpoint nw_inner (a : at_pos) (w : word_def) (gi : nat * str) (gis : list (nat * str))
    : option (nat * list (nat * str)) * (nat * str) :=
    match gis with
    | [] => (None, gi)
    | gj :: rest =>
      if at_is_start a && is_start_of_word w (snd gi) (snd gj) then (Some (fst gj, rest), gi)
      else if negb (at_is_start a) && is_end_of_word w (snd gi) (snd gj) then
             (Some (if is_emacs w || at_is_after a then fst gj else fst gi, rest), gi)
      else nw_inner a w gj rest
    end.
  Fixpoint nw_outer (a : at_pos) (w : word_def) (n : nat) (gis : list (nat * str))
           (wp : nat) (gi : option (nat * str)) : nat * option (nat * str) :=
    match n with
    | 0 => (wp, gi)
    | S n' => match gis with
              | [] => (0, None)
              | g :: rest => match nw_inner a w g rest with
                             | (None, g') => (0, Some g')
                             | (Some (wp', rest'), g') => nw_outer a w n' rest' wp' (Some g')
                             end
              end
    end.
  Definition next_word_pos (b : lb) (p : nat) (a : at_pos) (w : word_def) (n : nat) : res (option nat) :=
    if Nat.eqb p (lb_len b) then Ok None
    else match slice_from (buf b) p with
         | Panic => Panic
         | Ok r =>
           let gis := gindices r in
           let '(gi0, gis0) := if at_is_before a then
                                 match gis with [] => (None, []) | g :: t => (Some g, t) end
                               else (None, gis) in
           let '(wp, gi) := nw_outer a w n gis0 0 gi0 in
           Ok (if Nat.eqb wp 0 then
                 if is_emacs w || at_is_after a then Some (lb_len b)
                 else match gi with
                      | Some (i, _) => if Nat.eqb i 0 then None else Some (i + p)
                      | None => None
                      end
               else Some (wp + p))
         end.

  (* char_indices().filter(==c).take(n).last() *)
  Fixpoint char_hits (c : N) (s : str) (i : nat) : list nat :=
    match s with
    | [] => []
    | x :: t => if (x =? c)%N then i :: char_hits c t (i + clen x) else char_hits c t (i + clen x)
    end.
  Definition cs_char (cs : char_search) : N :=
    match cs with CsForward c | CsForwardBefore c | CsBackward c | CsBackwardAfter c => c end.
  Fixpoint last_char_len (s : str) : option nat :=
    match s with [] => None | [x] => Some (clen x) | _ :: t => last_char_len t end.

  Definition search_char_pos (b : lb) (cs : char_search) (n : nat) : res (option nat) :=
    match cs with
    | CsBackward c | CsBackwardAfter c =>
      match slice_to (buf b) (pos b) with
      | Panic => Panic
      | Ok l =>
        match last_opt (firstn n (rev (char_hits c l 0))) with
        | None => Ok None
        | Some p => Ok (Some (match cs with CsBackwardAfter _ => p + clen c | _ => p end))
        end
      end
    | CsForward c | CsForwardBefore c =>
      if Nat.eqb (pos b) (lb_len b) then Ok None
      else match slice_from (buf b) (pos b) with
           | Panic => Panic
           | Ok r =>
             match seg r with
             | [] => Ok None
             | cc :: _ =>
               let shift := pos b + blen cc in
               if Nat.ltb shift (lb_len b) then
                 match slice_from (buf b) shift with
                 | Panic => Panic
                 | Ok r2 =>
                   match last_opt (firstn n (char_hits c r2 0)) with
                   | None => Ok None
                   | Some p =>
                     match cs with
                     | CsForwardBefore _ =>
                       match slice_to (buf b) (shift + p) with
                       | Panic => Panic
                       | Ok l2 => match rev (seg l2) with       (* one cluster before the match (repair of F5) *)
                                  | g :: _ => Ok (Some (shift + p - blen g))
                                  | [] => Ok (Some (shift + p))
                                  end
                       end
                     | _ => Ok (Some (shift + p))
                     end
                   end
                 end
               else Ok None
             end
           end
    end.

  (* n_lines_up / n_lines_down *)
  Fixpoint lines_up_loop (s : str) (n : nat) (start : nat) : res nat :=
    match n with
    | 0 => Ok start
    | S n' =>
      if Nat.eqb start 0 then Panic      (* start - 1 underflows *)
      else match slice_to s (start - 1) with
           | Panic => Panic
           | Ok l => match rfind_char LF l with
                     | Some off => lines_up_loop s n' (off + 1)
                     | None => Ok 0
                     end
           end
    end.
  Definition n_lines_up (b : lb) (n : nat) : res (option (nat * nat)) :=
    match slice_to (buf b) (pos b), slice_from (buf b) (pos b) with
    | Ok l, Ok r =>
      match rfind_char LF l with
      | None => Ok None
      | Some off =>
        let e := match find_char LF r with Some x => pos b + x + 1 | None => lb_len b end in
        match lines_up_loop (buf b) n (off + 1) with
        | Ok s => Ok (Some (s, e))
        | Panic => Panic
        end
      end
    | _, _ => Panic
    end.
  Fixpoint lines_down_loop (s : str) (len : nat) (n : nat) (e : nat) : res nat :=
    match n with
    | 0 => Ok e
    | S n' => match slice_from s e with
              | Panic => Panic
              | Ok r => match find_char LF r with
                        | Some off => lines_down_loop s len n' (e + off + 1)
                        | None => Ok len
                        end
              end
    end.
  Definition n_lines_down (b : lb) (n : nat) : res (option (nat * nat)) :=
    match slice_to (buf b) (pos b), slice_from (buf b) (pos b) with
    | Ok l, Ok r =>
      match find_char LF r with
      | None => Ok None
      | Some off =>
        let s := match rfind_char LF l with Some i => i + 1 | None => 0 end in
        match lines_down_loop (buf b) (lb_len b) n (pos b + off + 1) with
        | Ok e => Ok (Some (s, e))
        | Panic => Panic
        end
      end
    | _, _ => Panic
    end.

  (* ---------- operations ---------- *)

  Definition set_pos (p : nat) : M unit :=
    do b <- get; if Nat.ltb (lb_len b) p then fail else put_pos p.

  Definition move_backward (n : nat) : M bool :=
    do b <- get; do r <- lift (prev_pos b n);
    match r with Some p => put_pos p ;; ret true | None => ret false end.
  Definition move_forward (n : nat) : M bool :=
    do b <- get; do r <- lift (next_pos b n);
    match r with Some p => put_pos p ;; ret true | None => ret false end.
  Definition move_buffer_start : M bool :=
    do b <- get; if Nat.ltb 0 (pos b) then put_pos 0 ;; ret true else ret false.
  Definition move_buffer_end : M bool :=
    do b <- get; if Nat.eqb (pos b) (lb_len b) then ret false else put_pos (lb_len b) ;; ret true.
  Definition move_home : M bool :=
    do b <- get; do s <- lift (start_of_line b);
    if Nat.ltb s (pos b) then put_pos s ;; ret true else ret false.
  Definition move_end : M bool :=
    do b <- get; do e <- lift (end_of_line b);
    if Nat.eqb (pos b) e then ret false else put_pos e ;; ret true.

  Fixpoint trim_end_len (s : str) : nat :=
    (* byte length of s without its trailing whitespace *)
    match s with
    | [] => 0
    | c :: t => let k := trim_end_len t in
                if Nat.eqb k 0 then (if u_is_whitespace U c then 0 else clen c) else clen c + k
    end.
  Definition is_end_of_input (b : lb) : bool := Nat.leb (trim_end_len (buf b)) (pos b).

  Fixpoint repeat_str (s : str) (n : nat) : str :=
    match n with 0 => [] | S n' => s ++ repeat_str s n' end.

  Definition insert (c : N) (n : nat) : M (option bool) :=
    do b <- get;
    let shift := clen c * n in
    if must_truncate b (lb_len b + shift) then ret None
    else
      let push := Nat.eqb (pos b) (lb_len b) in
      (if Nat.eqb n 1 then insert_char_at (pos b) c
       else (do _ <- insert_str (pos b) (repeat_str [c] n); ret tt)) ;;
      put_pos (pos b + shift) ;; ret (Some push).

  Definition yank (text : str) (n : nat) : M (option bool) :=
    do b <- get;
    let shift := blen text * n in
    match text with
    | [] => ret None
    | _ =>
      if must_truncate b (lb_len b + shift) then ret None
      else
        let push := Nat.eqb (pos b) (lb_len b) in
        (do _ <- insert_str (pos b) (if Nat.eqb n 1 then text else repeat_str text n); ret tt) ;;
        put_pos (pos b + shift) ;; ret (Some push)
    end.

  Definition yank_pop (yank_size : nat) (text : str) : M (option bool) :=
    do b <- get;
    let e := pos b in
    (* end.checked_sub(yank_size)?, then the start must be a character boundary (repair of F22) *)
    if Nat.ltb e yank_size then ret None
    else if negb (is_boundary (buf b) (e - yank_size)) then ret None
    else
      do _ <- drain (e - yank_size) e DForward;
      put_pos (e - yank_size) ;;
      yank text 1.

  Definition delete (n : nat) : M (option str) :=
    do b <- get; do r <- lift (next_pos b n);
    match r with
    | Some p => do s <- drain (pos b) p DForward; ret (Some s)
    | None => ret None
    end.
  Definition backspace (n : nat) : M bool :=
    do b <- get; do r <- lift (prev_pos b n);
    match r with
    | Some p => do _ <- drain p (pos b) DBackward; put_pos p ;; ret true
    | None => ret false
    end.

  Definition kill_line : M bool :=
    do b <- get;
    if negb (Nat.eqb (lb_len b) 0) && Nat.ltb (pos b) (lb_len b) then
      do e <- lift (end_of_line b);
      (if Nat.eqb (pos b) e then (do _ <- delete 1; ret tt)
       else (do _ <- drain (pos b) e DForward; ret tt)) ;;
      ret true
    else ret false.
  Definition kill_buffer : M bool :=
    do b <- get;
    if negb (Nat.eqb (lb_len b) 0) && Nat.ltb (pos b) (lb_len b) then
      do _ <- drain (pos b) (lb_len b) DForward; ret true
    else ret false.
  Definition discard_line : M bool :=
    do b <- get;
    if Nat.ltb 0 (pos b) && negb (Nat.eqb (lb_len b) 0) then
      do s <- lift (start_of_line b);
      if Nat.eqb (pos b) s then backspace 1
      else (do _ <- drain s (pos b) DBackward; put_pos s ;; ret true)
    else ret false.
  Definition discard_buffer : M bool :=
    do b <- get;
    if Nat.ltb 0 (pos b) && negb (Nat.eqb (lb_len b) 0) then
      do _ <- drain 0 (pos b) DBackward; put_pos 0 ;; ret true
    else ret false.

  Definition transpose_chars : M bool :=
    do b <- get;
    if Nat.eqb (pos b) 0 || Nat.ltb (length (seg (buf b))) 2 then ret false
    else
      (if Nat.eqb (pos b) (lb_len b) then (do _ <- move_backward 1; ret tt) else ret tt) ;;
      do r <- delete 1;
      match r with
      | None => fail                              (* unwrap *)
      | Some chars =>
        do _ <- move_backward 1;
        do _ <- yank chars 1;
        do _ <- move_forward 1;
        ret true
      end.

  Definition move_to_prev_word (w : word_def) (n : nat) : M bool :=
    do b <- get; do r <- lift (prev_word_pos b (pos b) w n);
    match r with Some p => put_pos p ;; ret true | None => ret false end.
  Definition delete_prev_word (w : word_def) (n : nat) : M bool :=
    do b <- get; do r <- lift (prev_word_pos b (pos b) w n);
    match r with
    | Some p => do _ <- drain p (pos b) DBackward; put_pos p ;; ret true
    | None => ret false
    end.
  Definition move_to_next_word (a : at_pos) (w : word_def) (n : nat) : M bool :=
    do b <- get; do r <- lift (next_word_pos b (pos b) a w n);
    match r with Some p => put_pos p ;; ret true | None => ret false end.
  Definition delete_word (a : at_pos) (w : word_def) (n : nat) : M bool :=
    do b <- get; do r <- lift (next_word_pos b (pos b) a w n);
    match r with
    | Some p => do _ <- drain (pos b) p DForward; ret true
    | None => ret false
    end.

  Definition move_to (cs : char_search) (n : nat) : M bool :=
    do b <- get; do r <- lift (search_char_pos b cs n);
    match r with Some p => put_pos p ;; ret true | None => ret false end.

  Definition delete_to (cs : char_search) (n : nat) : M bool :=
    do b <- get;
    do r <- lift (match cs with
                  | CsForwardBefore c => search_char_pos b (CsForward c) n
                  | _ => search_char_pos b cs n
                  end);
    match r with
    | None => ret false
    | Some p =>
      match cs with
      | CsBackward _ | CsBackwardAfter _ =>
        put_pos p ;; do _ <- drain p (pos b) DBackward; ret true
      | CsForwardBefore _ => do _ <- drain (pos b) p DForward; ret true
      | CsForward c => do _ <- drain (pos b) (p + clen c) DForward; ret true
      end
    end.

  (* skip_whitespace: first cluster made of alphanumerics, from the cursor *)
  Fixpoint first_alnum (gis : list (nat * str)) : option nat :=
    match gis with
    | [] => None
    | (i, g) :: t => if all_alnum g then Some i else first_alnum t
    end.
  Definition skip_whitespace (b : lb) : res (option nat) :=
    if Nat.eqb (pos b) (lb_len b) then Ok None
    else match slice_from (buf b) (pos b) with
         | Panic => Panic
         | Ok r => Ok (match first_alnum (gindices r) with Some i => Some (i + pos b) | None => None end)
         end.

  Definition to_upper (s : str) : str := flat_map (u_to_upper U) s.
  Definition to_lower (s : str) : str := flat_map (u_to_lower U) s.

  Definition edit_word (a : word_action) : M bool :=
    do b <- get; do r <- lift (skip_whitespace b);
    match r with
    | None => ret false
    | Some start =>
      do r2 <- lift (next_word_pos b start AtAfterEnd WEmacs 1);
      match r2 with
      | None => ret false
      | Some e =>
        if Nat.eqb start e then ret false
        else
          do word <- drain start e DForward;
          do result <- lift (match a with
                             | Capitalize =>
                               match seg word with
                               | [] => Panic                     (* unwrap *)
                               | ch :: _ =>
                                 match slice_from word (blen ch) with
                                 | Ok rest => Ok (to_upper ch ++ to_lower rest)
                                 | Panic => Panic
                                 end
                               end
                             | Lowercase => Ok (to_lower word)
                             | Uppercase => Ok (to_upper word)
                             end);
          do _ <- insert_str start result;
          put_pos (start + blen result) ;; ret true
      end
    end.

  Definition transpose_words (n : nat) : M bool :=
    do b0 <- get;
    do _ <- move_to_next_word AtAfterEnd WEmacs n;
    do b1 <- get; let w2_end := pos b1 in
    do _ <- move_to_prev_word WEmacs 1;
    do b2 <- get; let w2_beg := pos b2 in
    do _ <- move_to_prev_word WEmacs n;
    do b3 <- get; let w1_beg := pos b3 in
    do _ <- move_to_next_word AtAfterEnd WEmacs 1;
    do b4 <- get; let w1_end := pos b4 in
    if Nat.eqb w1_beg w2_beg || Nat.ltb w2_beg w1_end then put_pos (pos b0) ;; ret false
    else
      do w1 <- lift (slice (buf b4) w1_beg w1_end);
      do w2 <- drain w2_beg w2_end DForward;
      do _ <- insert_str w2_beg w1;
      do _ <- drain w1_beg w1_end DForward;
      do _ <- insert_str w1_beg w2;
      put_pos w2_end ;; ret true.

  Definition replace (a b' : nat) (text : str) : M unit := replace_range a b' text.

  Definition delete_range (a b' : nat) : M unit :=
    set_pos a ;; do _ <- drain a b' DForward; ret tt.

  Fixpoint boundary_down (s : str) (k m : nat) : nat :=
    match k with
    | 0 => 0
    | S k' => if is_boundary s m then m else boundary_down s k' (m - 1)
    end.

  Definition update (s : str) (p : nat) : M unit :=
    if Nat.ltb (blen s) p then fail            (* assert!(pos <= buf.len()) *)
    else
      do b <- get;
      do _ <- drain 0 (lb_len b) DForward;
      if must_truncate b (blen s) then
        (* largest character boundary <= capacity (the repair of finding F4) *)
        let mx := boundary_down s (S (cap b)) (cap b) in
        do t <- lift (slice_to s mx);
        do _ <- insert_str 0 t;
        put_pos (Nat.min mx p)
      else
        do _ <- insert_str 0 s; put_pos p.

  (* vi_first_print_pos *)
  Definition vi_first_print_pos (b : lb) : res (option nat) :=
    match buf b with
    | c :: _ =>
      if u_is_whitespace U c then
        (* .or(Some(0)): no next word, the motion stays at the start (repair of F25) *)
        match next_word_pos b 0 AtStart WBig 1 with
        | Ok None => Ok (Some 0)
        | r => r
        end
      else Ok (Some 0)
    | [] => Ok (Some 0)
    end.

  (* copy(mvt) *)
  Definition copy (b : lb) (m : movement) : res (option str) :=
    if Nat.eqb (lb_len b) 0 then Ok None
    else
      let sl (a e : nat) : res (option str) :=
          match slice (buf b) a e with Ok s => Ok (Some s) | Panic => Panic end in
      let opt_map (r : res (option nat)) (f : nat -> res (option str)) : res (option str) :=
          match r with Panic => Panic | Ok None => Ok None | Ok (Some p) => f p end in
      match m with
      | MWholeLine =>
        match start_of_line b, end_of_line b with
        | Ok s, Ok e => if Nat.eqb s e then Ok None else sl s e
        | _, _ => Panic
        end
      | MBeginningOfLine =>
        match start_of_line b with
        | Ok s => if Nat.eqb (pos b) s then Ok None else sl s (pos b)
        | Panic => Panic
        end
      | MViFirstPrint =>
        opt_map (vi_first_print_pos b)
                (fun p => if Nat.ltb p (pos b) then sl p (pos b)
                          else if Nat.ltb (pos b) p then sl (pos b) p else Ok None)
      | MEndOfLine =>
        match end_of_line b with
        | Ok e => if Nat.eqb (pos b) e then Ok None else sl (pos b) e
        | Panic => Panic
        end
      | MEndOfBuffer => if Nat.eqb (pos b) (lb_len b) then Ok None else sl (pos b) (lb_len b)
      | MWholeBuffer => Ok (Some (buf b))
      | MBeginningOfBuffer => if Nat.eqb (pos b) 0 then Ok None else sl 0 (pos b)
      | MBackwardWord n w => opt_map (prev_word_pos b (pos b) w n) (fun p => sl p (pos b))
      | MForwardWord n a w => opt_map (next_word_pos b (pos b) a w n) (fun p => sl (pos b) p)
      | MViCharSearch n cs =>
        opt_map (match cs with
                 | CsForwardBefore c => search_char_pos b (CsForward c) n
                 | _ => search_char_pos b cs n
                 end)
                (fun p => match cs with
                          | CsBackward _ | CsBackwardAfter _ => sl p (pos b)
                          | CsForwardBefore _ => sl (pos b) p
                          | CsForward c => sl (pos b) (p + clen c)
                          end)
      | MBackwardChar n => opt_map (prev_pos b n) (fun p => sl p (pos b))
      | MForwardChar n => opt_map (next_pos b n) (fun p => sl (pos b) p)
      | MLineUp n =>
        match n_lines_up b n with
        | Panic => Panic | Ok None => Ok None | Ok (Some (s, e)) => sl s e
        end
      | MLineDown n =>
        match n_lines_down b n with
        | Panic => Panic | Ok None => Ok None | Ok (Some (s, e)) => sl s e
        end
      end.

  Definition notifies (m : movement) : bool :=
    match m with MForwardChar _ | MBackwardChar _ => false | _ => true end.

  Definition kill (m : movement) : M bool :=
    (if notifies m then emit EStartKill else ret tt) ;;
    do killed <-
       match m with
       | MForwardChar n => do r <- delete n; ret (match r with Some _ => true | None => false end)
       | MBackwardChar n => backspace n
       | MEndOfLine => kill_line
       | MWholeLine => do _ <- move_home; kill_line
       | MBeginningOfLine => discard_line
       | MBackwardWord n w => delete_prev_word w n
       | MForwardWord n a w => delete_word a w n
       | MViCharSearch n cs => delete_to cs n
       | MLineUp n =>
         do b <- get; do r <- lift (n_lines_up b n);
         match r with Some (s, e) => delete_range s e ;; ret true | None => ret false end
       | MLineDown n =>
         do b <- get; do r <- lift (n_lines_down b n);
         match r with Some (s, e) => delete_range s e ;; ret true | None => ret false end
       | MViFirstPrint =>
         do b <- get; do r <- lift (vi_first_print_pos b);
         match r with
         | Some p =>
           if Nat.ltb p (pos b) then (do _ <- drain p (pos b) DBackward; put_pos p ;; ret true)
           else if Nat.ltb (pos b) p then (do _ <- drain (pos b) p DForward; ret true)
           else ret false
         | None => ret false
         end
       | MEndOfBuffer => kill_buffer
       | MBeginningOfBuffer => discard_buffer
       | MWholeBuffer => do _ <- move_buffer_start; kill_buffer
       end;
    (if notifies m then emit EStopKill else ret tt) ;;
    ret killed.

  (* indent(mvt, amount, dedent) *)
  Fixpoint split_lf (s : str) (cur : str) : list str :=
    match s with
    | [] => [rev cur]
    | c :: t => if (c =? LF)%N then rev cur :: split_lf t [] else split_lf t (c :: cur)
    end.
  Fixpoint leading_ws_bytes (s : str) : nat :=
    match s with
    | c :: t => if u_is_whitespace U c then clen c + leading_ws_bytes t else 0
    | [] => 0
    end.
  Fixpoint dedent_lines (lines : list str) (amount : nat) (index : nat) : M unit :=
    match lines with
    | [] => ret tt
    | line :: t =>
      let mx := leading_ws_bytes line in
      let deleting := boundary_down line (S (Nat.min mx amount)) (Nat.min mx amount) in
      do _ <- drain index (index + deleting) DForward;
      do b <- get;
      (if Nat.leb index (pos b) then
         if Nat.ltb (pos b - index) deleting then put_pos index else put_pos (pos b - deleting)
       else ret tt) ;;
      dedent_lines t amount (index + blen line + 1 - deleting)
    end.

  Fixpoint indent_chunks (amount off : nat) (fuel : nat) (index : nat) : M unit :=
    match fuel with
    | 0 => ret tt
    | S f =>
      if Nat.ltb off amount then
        do _ <- insert_str index (repeat 32%N (Nat.min (amount - off) indent_max));
        indent_chunks amount (off + indent_max) f index
      else ret tt
    end.
  Fixpoint indent_lines (lines : list str) (amount : nat) (index : nat) : M unit :=
    match lines with
    | [] => ret tt
    | line :: t =>
      indent_chunks amount 0 (S amount) index ;;
      do b <- get;
      (if Nat.leb index (pos b) then put_pos (pos b + amount) else ret tt) ;;
      indent_lines t amount (index + amount + blen line + 1)
    end.

  Definition indent (m : movement) (amount : nat) (dedent : bool) : M bool :=
    do b <- get;
    do pr <- lift (match m with
                     | MWholeLine | MBeginningOfLine | MViFirstPrint | MEndOfLine
                     | MBackwardChar _ | MForwardChar _ | MViCharSearch _ _ => Ok (Some (pos b, pos b))
                     | MEndOfBuffer => Ok (Some (pos b, lb_len b))
                     | MWholeBuffer => Ok (Some (0, lb_len b))
                     | MBeginningOfBuffer => Ok (Some (0, pos b))
                     | MBackwardWord n w =>
                       match prev_word_pos b (pos b) w n with
                       | Ok (Some p) => Ok (Some (p, pos b)) | Ok None => Ok None | Panic => Panic end
                     | MForwardWord n a w =>
                       match next_word_pos b (pos b) a w n with
                       | Ok (Some p) => Ok (Some (pos b, p)) | Ok None => Ok None | Panic => Panic end
                     | MLineUp n => n_lines_up b n
                     | MLineDown n => n_lines_down b n
                     end);
    let '(s0, e0) := match pr with Some p => p | None => (pos b, pos b) end in
    do l <- lift (slice_to (buf b) s0);
    let start := match rfind_char LF l with Some p => p + 1 | None => 0 end in
    do r <- lift (slice_from (buf b) e0);
    let e := match rfind_char LF r with Some p => e0 + p | None => lb_len b end in
    do text <- lift (slice (buf b) start e);
    (if dedent then dedent_lines (split_lf text []) amount start
     else indent_lines (split_lf text []) amount start) ;;
    ret true.

  (* ---------- move_to_line_up / down (need the layout: crate-private, driven through the editor) ---------- *)
  Variable width : str -> nat.          (* layout.width *)

  Fixpoint line_up_loop (s : str) (k : nat) (dest_start dest_end : nat) : res (nat * nat) :=
    match k with
    | 0 => Ok (dest_start, dest_end)
    | S k' =>
      if Nat.eqb dest_start 0 then Ok (dest_start, dest_end)
      else
        let de := dest_start - 1 in
        match slice_to s de with
        | Panic => Panic
        | Ok l => line_up_loop s k' (match rfind_char LF l with Some n => n + 1 | None => 0 end) de
        end
    end.

  Definition move_to_line_up (n : nat) (prompt_col : nat) : M bool :=
    do b <- get;
    do l <- lift (slice_to (buf b) (pos b));
    match rfind_char LF l with
    | None => ret false
    | Some off =>
      do cur <- lift (slice (buf b) (off + 1) (pos b));
      let column := width cur in
      do l2 <- lift (slice_to (buf b) off);
      let ds0 := match rfind_char LF l2 with Some k => k + 1 | None => 0 end in
      do se <- lift (line_up_loop (buf b) (n - 1) ds0 off);
      let '(ds, de) := se in
      let offset := if Nat.eqb ds 0 then prompt_col else 0 in
      do dest <- lift (slice (buf b) ds de);
      put_pos (match nth_error (gindices dest) (column - offset) with
               | Some (idx, _) => ds + idx
               | None => de
               end) ;;
      ret true
    end.

  Fixpoint line_down_loop (s : str) (len : nat) (k : nat) (dest_start dest_end : nat) : res (nat * nat) :=
    match k with
    | 0 => Ok (dest_start, dest_end)
    | S k' =>
      if Nat.eqb dest_end len then Ok (dest_start, dest_end)
      else
        let ds := dest_end + 1 in
        match slice_from s ds with
        | Panic => Panic
        | Ok r => line_down_loop s len k' ds (match find_char LF r with Some v => ds + v | None => len end)
        end
    end.

  Definition move_to_line_down (n : nat) (prompt_col : nat) : M bool :=
    do b <- get;
    do r <- lift (slice_from (buf b) (pos b));
    match find_char LF r with
    | None => ret false
    | Some off =>
      do l <- lift (slice_to (buf b) (pos b));
      let line_start := match rfind_char LF l with Some k => k + 1 | None => 0 end in
      let offset := if Nat.eqb line_start 0 then prompt_col else 0 in
      do cur <- lift (slice (buf b) line_start (pos b));
      let column := Nat.min (width cur + offset) (N.to_nat 65535%N) in        (* u16, saturating_add (repair of F23) *)
      let ds0 := pos b + off + 1 in
      do r2 <- lift (slice_from (buf b) ds0);
      let de0 := match find_char LF r2 with Some v => ds0 + v | None => lb_len b end in
      do se <- lift (line_down_loop (buf b) (lb_len b) (n - 1) ds0 de0);
      let '(ds, de) := se in
      do dest <- lift (slice (buf b) ds de);
      put_pos (match nth_error (gindices dest) column with
               | Some (idx, _) => ds + idx
               | None => de
               end) ;;
      ret true
    end.
End LB.
