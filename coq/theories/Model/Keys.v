(* Keys (src/keys.rs): key codes, modifiers, KeyEvent::new. Definitions only. *)
From RL Require Export UData.

Inductive keycode :=
| KChar (c : N) | KBackspace | KBackTab | KDelete | KDown | KEnd | KEnter | KEsc | KF (n : nat)
| KHome | KInsert | KLeft | KNull | KPageDown | KPageUp | KRight | KTab | KUp | KUnknown
| KPasteStart | KPasteEnd.

Record mods := mkMods { m_ctrl : bool; m_alt : bool; m_shift : bool }.
Definition key : Type := keycode * mods.

Definition M_NONE := mkMods false false false.
Definition M_CTRL := mkMods true false false.
Definition M_ALT := mkMods false true false.
Definition M_CTRL_ALT := mkMods true true false.

Definition mods_eqb (a b : mods) : bool :=
  Bool.eqb (m_ctrl a) (m_ctrl b) && Bool.eqb (m_alt a) (m_alt b) && Bool.eqb (m_shift a) (m_shift b).
Definition mods_empty (m : mods) : bool := mods_eqb m M_NONE.
Definition with_ctrl (m : mods) := mkMods true (m_alt m) (m_shift m).
Definition with_alt (m : mods) := mkMods (m_ctrl m) true (m_shift m).
Definition no_shift (m : mods) := mkMods (m_ctrl m) (m_alt m) false.

Definition keycode_eqb (a b : keycode) : bool :=
  match a, b with
  | KChar x, KChar y => (x =? y)%N
  | KF x, KF y => Nat.eqb x y
  | KBackspace, KBackspace | KBackTab, KBackTab | KDelete, KDelete | KDown, KDown | KEnd, KEnd
  | KEnter, KEnter | KEsc, KEsc | KHome, KHome | KInsert, KInsert | KLeft, KLeft | KNull, KNull
  | KPageDown, KPageDown | KPageUp, KPageUp | KRight, KRight | KTab, KTab | KUp, KUp
  | KUnknown, KUnknown | KPasteStart, KPasteStart | KPasteEnd, KPasteEnd => true
  | _, _ => false
  end.
Definition key_eqb (a b : key) : bool := keycode_eqb (fst a) (fst b) && mods_eqb (snd a) (snd b).

(* KeyEvent::new(c, mods) on unix *)
Definition key_new (U : UData) (c : N) (m : mods) : key :=
  if negb (u_is_control U c) then (KChar c, if mods_empty m then m else no_shift m)
  else if (c =? 0)%N then (KChar 64, with_ctrl m)
  else if (c =? 8)%N then (KBackspace, m)
  else if (c =? 9)%N then (if m_shift m then (KBackTab, no_shift m) else (KTab, m))
  else if (c =? 13)%N then (KEnter, m)
  else if (c =? 27)%N then (KEsc, m)
  else if (c <? 32)%N then (KChar (c + 64), with_ctrl m)      (* ^A .. ^_ except the ones above *)
  else if (c =? 127)%N then (KBackspace, m)
  else if (c =? 155)%N then (KEsc, mkMods (m_ctrl m) (m_alt m) true)
  else (KNull, m).

Definition is_digit (c : N) : bool := ((48 <=? c) && (c <=? 57))%N.

Fixpoint assoc_key (k : list N) (t : list (list N * key)) : option key :=
  match t with
  | [] => None
  | (p, v) :: rest => if str_eqb p k then Some v else assoc_key k rest
  end.
Definition K_UNKNOWN : key := (KUnknown, M_NONE).
Definition lookup_key (k : list N) (t : list (list N * key)) : key :=
  match assoc_key k t with Some v => v | None => K_UNKNOWN end.
