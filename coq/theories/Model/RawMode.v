(* Model of the raw-mode discipline around a read (src/lib.rs Editor::readline_with and its Guard,
   src/tty/unix.rs enable_raw_mode / PosixMode::disable_raw_mode). A deliberately small abstraction:
   terminal settings are an opaque value, the editing loop is an arbitrary function that can write but
   cannot change the settings. Definitions only. *)
From Coq Require Import List Bool Arith.
Import ListNotations.

Section RawMode.
  Variable settings : Type.              (* struct termios *)
  Variable raw_of : settings -> settings. (* the flags enable_raw_mode clears / sets *)

  Inductive wr := PasteOn | PasteOff | Other.   (* ESC[?2004h, ESC[?2004l, anything else *)
  Record term := mkTerm { t_tio : settings; t_out : list wr }.

  (* every way a read can end *)
  Inductive exit := XLine | XEof | XInterrupted | XInvalidData | XHelperError | XHelperPanic.

  (* the editing loop: whatever it does, it only writes "Other" output and returns how it ended *)
  Definition body := term -> list wr * exit.
  Definition body_ok (b : body) : Prop := forall t, Forall (fun w => w = Other) (fst (b t)).

  Definition write (t : term) (ws : list wr) : term := mkTerm (t_tio t) (t_out t ++ ws).

  (* readline_with: enable_raw_mode (remember the settings found, switch paste on), run the loop under the
     Guard, and -- on EVERY exit, unwinding included, because the Guard's Drop runs -- restore the
     remembered settings and switch paste off *)
  Definition read_once (paste : bool) (b : body) (t : term) : term * exit :=
    let orig := t_tio t in
    let t1 := write (mkTerm (raw_of orig) (t_out t)) (if paste then [PasteOn] else []) in
    let '(ws, x) := b t1 in
    let t2 := write t1 ws in
    (write (mkTerm orig (t_out t2)) (if paste then [PasteOff] else []), x).

  (* successive reads on one editor; between two reads the application may change the settings *)
  Fixpoint reads (paste : bool) (rs : list (body * (settings -> settings))) (t : term) : term * list exit :=
    match rs with
    | [] => (t, [])
    | (b, change) :: rest =>
      let '(t1, x) := read_once paste b t in
      let '(t2, xs) := reads paste rest (mkTerm (change (t_tio t1)) (t_out t1)) in
      (t2, x :: xs)
    end.

  (* bracketed paste is off at the end of an output: the last switch, if any, is PasteOff *)
  Fixpoint paste_state (ws : list wr) (on : bool) : bool :=
    match ws with
    | [] => on
    | PasteOn :: r => paste_state r true
    | PasteOff :: r => paste_state r false
    | Other :: r => paste_state r on
    end.
End RawMode.
