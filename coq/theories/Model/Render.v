(* Model of the renderer (src/tty/unix.rs PosixRenderer, src/tty/mod.rs,
   src/layout.rs) in WcWidth cluster mode: positions, layout, and the exact
   characters written to the terminal. Definitions only. *)
From RL Require Export UData.

Record pos2 := mkP { p_col : nat; p_row : nat }.
Definition P0 := mkP 0 0.
Definition pos2_eqb (a b : pos2) : bool := Nat.eqb (p_col a) (p_col b) && Nat.eqb (p_row a) (p_row b).

Record layout := mkLay {
  l_prompt_size : pos2;
  l_default_prompt : bool;
  l_cursor : pos2;
  l_end : pos2;
}.
Definition layout0 : layout := mkLay P0 false P0 P0.

Section Render.
  Variable U : UData.
  Variable seg : str -> list str.
  Variable cols : nat.
  Variable tab_stop : nat.

  (* wcwidth: sum of the character widths *)
  Definition wcwidth (g : str) : nat := fold_left (fun a c => a + u_width U c) g 0.

  (* tty::width with its escape-sequence state (0, 1, 2) *)
  Definition gwidth (g : str) (esc : nat) : nat * nat :=
    match esc with
    | 1 => (0, if str_eqb g [91%N] then 2 else 0)
    | 2 => (0, if str_eqb g [59%N] || match g with c :: _ => ((48 <=? c) && (c <=? 57))%N | [] => false end
               then 2 else 0)
    | _ => if str_eqb g [27%N] then (0, 1)
           else if str_eqb g [10%N] then (0, 0)
           else (wcwidth g, 0)
    end.

  Fixpoint calc_go (gs : list str) (p : pos2) (esc : nat) : pos2 :=
    match gs with
    | [] => p
    | g :: t =>
      if str_eqb g [10%N] then calc_go t (mkP 0 (S (p_row p))) esc
      else
        let '(cw, esc') := if str_eqb g [9%N] then (tab_stop - (p_col p) mod tab_stop, esc)
                           else gwidth g esc in
        let col := p_col p + cw in
        if Nat.ltb cols col then calc_go t (mkP cw (S (p_row p))) esc'
        else calc_go t (mkP col (p_row p)) esc'
    end.

  (* calculate_position(s, orig) *)
  Definition calculate_position (s : str) (orig : pos2) : pos2 :=
    let p := calc_go (seg s) orig 0 in
    if Nat.eqb (p_col p) cols then mkP 0 (S (p_row p)) else p.

  (* Layout::width(s) = gcm.width(s) *)
  Definition layout_width (s : str) : nat := wcwidth s.

  (* compute_layout(prompt_size, default_prompt, line, info) *)
  Definition compute_layout (prompt_size : pos2) (default_prompt : bool)
             (before after : str) (info : option str) : layout :=
    let cursor := calculate_position before prompt_size in
    let e := match after with [] => cursor | _ => calculate_position after cursor end in
    let e' := match info with Some i => calculate_position i e | None => e end in
    mkLay prompt_size default_prompt cursor e'.

  (* decimal digits of a number *)
  Fixpoint digits_fuel (fuel n : nat) (acc : str) : str :=
    match fuel with
    | 0 => acc
    | S f => let d := N.of_nat (n mod 10) in
             let acc' := (48 + d)%N :: acc in
             if Nat.ltb n 10 then acc' else digits_fuel f (n / 10) acc'
    end.
  Definition dec (n : nat) : str := digits_fuel (S n) n [].

  Definition ESC : N := 27%N.
  Definition csi (n : nat) (final : N) : str := [ESC; 91%N] ++ dec n ++ [final].

  Definition clear_old_rows (lay : layout) : str :=
    let cur := p_row (l_cursor lay) in
    let old_rows := p_row (l_end lay) in
    let mv := old_rows - cur in
    (if Nat.ltb 0 mv then csi mv 66%N else [])
      ++ concat (repeat [13%N; ESC; 91%N; 75%N; ESC; 91%N; 65%N] old_rows)
      ++ [13%N; ESC; 91%N; 75%N].

  Fixpoint ends_with_lf (s : str) : bool :=
    match s with [] => false | [c] => (c =? 10)%N | _ :: t => ends_with_lf t end.

  (* refresh_line: [prompt] and [line] are the (possibly highlighted) texts written *)
  Definition refresh_bytes (prompt line_shown : str) (line_raw : str) (hint : option str)
             (old new : layout) : str :=
    let cursor := l_cursor new in
    let e := l_end new in
    clear_old_rows old
      ++ prompt ++ line_shown
      ++ (match hint with Some h => h | None => [] end)
      ++ (if Nat.eqb (p_col e) 0 && Nat.ltb 0 (p_row e)
             && negb (match hint with Some h => ends_with_lf h | None => ends_with_lf line_raw end)
          then [10%N] else [])
      ++ (let up := p_row e - p_row cursor in if Nat.ltb 0 up then csi up 65%N else [])
      ++ (if Nat.ltb 0 (p_col cursor) then [13%N] ++ csi (p_col cursor) 67%N else [13%N]).

  (* move_cursor(old, new) *)
  Definition move_one_or_n (n : nat) (final : N) : str :=
    if Nat.eqb n 1 then [ESC; 91%N; final] else csi n final.
  Definition move_cursor_bytes (old new : pos2) : str :=
    (if Nat.ltb (p_row old) (p_row new) then move_one_or_n (p_row new - p_row old) 66%N
     else if Nat.ltb (p_row new) (p_row old) then move_one_or_n (p_row old - p_row new) 65%N else [])
      ++ (if Nat.ltb (p_col old) (p_col new) then move_one_or_n (p_col new - p_col old) 67%N
          else if Nat.ltb (p_col new) (p_col old) then move_one_or_n (p_col old - p_col new) 68%N else []).
End Render.
