(* The README "Actions" tables, transcribed as data: key -> command with no
   pending numeric argument. *)
From RL Require Import UData LineBuffer Keys Editor EditorRun.

Definition k_ctrl (c : N) : key := (KChar c, M_CTRL).
Definition k_alt (c : N) : key := (KChar c, M_ALT).
Definition k_plain (c : N) : key := (KChar c, M_NONE).
Definition k_named (k : keycode) : key := (k, M_NONE).

(* "For all modes" + "Emacs mode": ASCII codes: A=65 ... *)
Definition doc_emacs : list (key * cmd) :=
  [ (k_named KHome, CMove MBeginningOfLine); (k_named KEnd, CMove MEndOfLine);
    (k_named KLeft, CMove (MBackwardChar 1)); (k_named KRight, CMove (MForwardChar 1));
    (k_ctrl 67, CInterrupt);
    (k_named KDelete, CKill (MForwardChar 1));
    (k_ctrl 74, CAcceptOrInsertLine true); (k_ctrl 77, CAcceptOrInsertLine true);
    (k_named KEnter, CAcceptOrInsertLine true);
    (k_ctrl 82, CReverseSearchHistory); (k_ctrl 83, CForwardSearchHistory);
    (k_ctrl 84, CTransposeChars); (k_ctrl 85, CKill MBeginningOfLine); (k_ctrl 86, CQuotedInsert);
    (k_ctrl 87, CKill (MBackwardWord 1 WBig)); (k_ctrl 89, CYank 1 ABefore); (k_ctrl 90, CSuspend);
    (k_ctrl 95, CUndo 1);
    (k_ctrl 65, CMove MBeginningOfLine); (k_ctrl 66, CMove (MBackwardChar 1));
    (k_ctrl 69, CMove MEndOfLine); (k_ctrl 70, CMove (MForwardChar 1));
    (k_ctrl 72, CKill (MBackwardChar 1)); (k_named KBackspace, CKill (MBackwardChar 1));
    (k_ctrl 73, CComplete); (k_named KTab, CComplete);
    (k_ctrl 75, CKill MEndOfLine); (k_ctrl 76, CClearScreen);
    (k_ctrl 78, CNextHistory); (k_named KDown, CLineDownOrNextHistory 1);
    (k_ctrl 80, CPreviousHistory); (k_named KUp, CLineUpOrPreviousHistory 1);
    (k_alt 60, CBeginningOfHistory); (k_alt 62, CEndOfHistory);
    (k_alt 98, CMove (MBackwardWord 1 WEmacs)); ((KLeft, M_ALT), CMove (MBackwardWord 1 WEmacs));
    (k_alt 99, CCapitalizeWord); (k_alt 100, CKill (MForwardWord 1 AtAfterEnd WEmacs));
    (k_alt 102, CMove (MForwardWord 1 AtAfterEnd WEmacs)); ((KRight, M_ALT), CMove (MForwardWord 1 AtAfterEnd WEmacs));
    (k_alt 108, CDowncaseWord); (k_alt 116, CTransposeWords 1); (k_alt 117, CUpcaseWord);
    (k_alt 121, CYankPop); ((KBackspace, M_ALT), CKill (MBackwardWord 1 WEmacs));
    (k_plain 97, CSelfInsert 1 97); (k_plain 233, CSelfInsert 1 233); (k_plain 26085, CSelfInsert 1 26085) ]%N.

(* "vi command mode" rows that need no further key *)
Definition doc_vi_command : list (key * cmd) :=
  [ (k_plain 36, CMove MEndOfLine); (k_named KEnd, CMove MEndOfLine);
    (k_plain 48, CMove MBeginningOfLine); (k_named KHome, CMove MBeginningOfLine);
    (k_plain 94, CMove MViFirstPrint);
    (k_plain 97, CMove (MForwardChar 1)); (k_plain 65, CMove MEndOfLine);
    (k_plain 98, CMove (MBackwardWord 1 WVi)); (k_plain 66, CMove (MBackwardWord 1 WBig));
    (k_plain 67, CReplace MEndOfLine None);
    (k_plain 68, CKill MEndOfLine); (k_ctrl 75, CKill MEndOfLine);
    (k_plain 101, CMove (MForwardWord 1 AtBeforeEnd WVi)); (k_plain 69, CMove (MForwardWord 1 AtBeforeEnd WBig));
    (k_plain 104, CMove (MBackwardChar 1)); (k_ctrl 72, CMove (MBackwardChar 1));
    (k_named KBackspace, CMove (MBackwardChar 1));
    (k_plain 108, CMove (MForwardChar 1)); (k_plain 32, CMove (MForwardChar 1));
    (k_ctrl 76, CClearScreen);
    (k_plain 105, CNoop); (k_plain 73, CMove MBeginningOfLine);
    (k_plain 43, CLineDownOrNextHistory 1); (k_plain 106, CLineDownOrNextHistory 1); (k_ctrl 78, CNextHistory);
    (k_plain 45, CLineUpOrPreviousHistory 1); (k_plain 107, CLineUpOrPreviousHistory 1); (k_ctrl 80, CPreviousHistory);
    (k_plain 112, CYank 1 AAfter); (k_plain 80, CYank 1 ABefore);
    (k_plain 115, CReplace (MForwardChar 1) None); (k_plain 83, CReplace MWholeLine None);
    (k_plain 117, CUndo 1);
    (k_plain 119, CMove (MForwardWord 1 AtStart WVi)); (k_plain 87, CMove (MForwardWord 1 AtStart WBig));
    (k_plain 120, CKill (MForwardChar 1)); (k_plain 88, CKill (MBackwardChar 1)) ]%N.

Definition doc_vi_insert : list (key * cmd) :=
  [ (k_ctrl 72, CKill (MBackwardChar 1)); (k_named KBackspace, CKill (MBackwardChar 1));
    (k_ctrl 73, CComplete); (k_named KTab, CComplete);
    (k_plain 97, CSelfInsert 1 97) ]%N.

Definition cmd_of {A} (r : eres A) : option A := match r with EOk a _ => Some a | _ => None end.

Definition cfg_plain (mode : edit_mode) : config :=
  mk_config mode CTCircular true 80 false [] [] VKNone [].

(* a state with nothing pending: no numeric argument, no hint, a non-empty line *)
Definition plain_state (b : lb) (cs : changeset) (kr : KillRing.killring) (hist : list str) (hidx : nat)
           (saved : str * nat) (lay : Render.layout) (prompt : str) (ps : Render.pos2)
           (im : input_mode) (lc : cmd) (lcs : option char_search) (inp : istream)
           (out : list (list N)) (obs : list observation) : est :=
  mkEst b cs kr hist hidx saved None lay prompt ps im 0%Z lc lcs inp out obs.

(* ---------- numeric arguments (README: "M-digit / M--": the command is repeated, a negative
   argument runs the command in the opposite direction) ---------- *)

(* with the argument -3 pending *)
Definition doc_emacs_neg3 : list (key * cmd) :=
  [ (k_ctrl 70, CMove (MBackwardChar 3)); (k_ctrl 66, CMove (MForwardChar 3));
    (k_named KRight, CMove (MBackwardChar 3)); (k_named KLeft, CMove (MForwardChar 3));
    (k_named KDelete, CKill (MBackwardChar 3));
    (k_ctrl 72, CKill (MForwardChar 3)); (k_named KBackspace, CKill (MForwardChar 3));
    (k_ctrl 75, CKill MBeginningOfLine); (k_ctrl 85, CKill MEndOfLine);
    (k_alt 102, CMove (MBackwardWord 3 WEmacs)); (k_alt 98, CMove (MForwardWord 3 AtAfterEnd WEmacs));
    (k_alt 100, CKill (MBackwardWord 3 WEmacs)); ((KBackspace, M_ALT), CKill (MForwardWord 3 AtAfterEnd WEmacs));
    (k_ctrl 87, CKill (MForwardWord 3 AtAfterEnd WBig));
    (k_ctrl 73, CCompleteBackward); (k_named KTab, CCompleteBackward);
    (k_plain 97, CUnknown); (k_ctrl 89, CUnknown) ]%N.

(* with the argument 7 pending *)
Definition doc_emacs_pos7 : list (key * cmd) :=
  [ (k_ctrl 70, CMove (MForwardChar 7)); (k_ctrl 66, CMove (MBackwardChar 7));
    (k_named KRight, CMove (MForwardChar 7)); (k_named KLeft, CMove (MBackwardChar 7));
    (k_named KDelete, CKill (MForwardChar 7));
    (k_ctrl 72, CKill (MBackwardChar 7)); (k_named KBackspace, CKill (MBackwardChar 7));
    (k_alt 102, CMove (MForwardWord 7 AtAfterEnd WEmacs)); (k_alt 98, CMove (MBackwardWord 7 WEmacs));
    (k_alt 100, CKill (MForwardWord 7 AtAfterEnd WEmacs)); ((KBackspace, M_ALT), CKill (MBackwardWord 7 WEmacs));
    (k_ctrl 87, CKill (MBackwardWord 7 WBig)); (k_alt 116, CTransposeWords 7);
    (k_ctrl 89, CYank 7 ABefore); (k_ctrl 95, CUndo 7);
    (k_plain 97, CSelfInsert 7 97) ]%N.

Definition doc_vi_command_5 : list (key * cmd) :=
  [ (k_plain 104, CMove (MBackwardChar 5)); (k_plain 108, CMove (MForwardChar 5)); (k_plain 32, CMove (MForwardChar 5));
    (k_plain 119, CMove (MForwardWord 5 AtStart WVi)); (k_plain 87, CMove (MForwardWord 5 AtStart WBig));
    (k_plain 98, CMove (MBackwardWord 5 WVi)); (k_plain 66, CMove (MBackwardWord 5 WBig));
    (k_plain 101, CMove (MForwardWord 5 AtBeforeEnd WVi)); (k_plain 69, CMove (MForwardWord 5 AtBeforeEnd WBig));
    (k_plain 120, CKill (MForwardChar 5)); (k_plain 88, CKill (MBackwardChar 5));
    (k_plain 112, CYank 5 AAfter); (k_plain 80, CYank 5 ABefore); (k_plain 117, CUndo 5);
    (k_plain 106, CLineDownOrNextHistory 5); (k_plain 107, CLineUpOrPreviousHistory 5);
    (k_plain 115, CReplace (MForwardChar 5) None) ]%N.

Definition with_arg (s : est) (z : Z) : est :=
  mkEst (e_line s) (e_changes s) (e_kr s) (e_hist s) (e_hidx s) (e_saved s) (e_hint s) (e_layout s) (e_prompt s)
        (e_prompt_size s) (i_input_mode s) z (i_last_cmd s) (i_last_cs s) (e_inp s) (e_out s) (e_obs s).

(* ---------- the byte decoder: the standard encodings of the documented keys ---------- *)

(* Unicode data whose control class is the C0/C1 controls (general category Cc; the
   check compares this with the table dumped from the implementation's std) *)
Definition is_cc (c : N) : bool := ((c <? 32) || ((127 <=? c) && (c <? 160)))%N.
Definition with_cc (U : UData) : UData :=
  Build_UData (u_is_whitespace U) (u_is_alphanumeric U) (u_is_alphabetic U) is_cc (u_is_lowercase U)
              (u_is_uppercase U) (u_to_upper U) (u_to_lower U) (u_width U) (u_gcat U) (u_incb_extend U) (u_incb_linker U).

Definition csi (s : list N) : list N := (27 :: 91 :: s)%N.
Definition ss3 (s : list N) : list N := (27 :: 79 :: s)%N.
Definition M_SHIFT := mkMods false false true.

Definition doc_encodings : list (list N * key) :=
  [ ([1], k_ctrl 65); ([2], k_ctrl 66); ([3], k_ctrl 67); ([4], k_ctrl 68); ([5], k_ctrl 69); ([6], k_ctrl 70);
    ([7], k_ctrl 71); ([8], k_named KBackspace); ([9], k_named KTab); ([10], k_ctrl 74); ([11], k_ctrl 75);
    ([12], k_ctrl 76); ([13], k_named KEnter); ([14], k_ctrl 78); ([16], k_ctrl 80); ([17], k_ctrl 81);
    ([18], k_ctrl 82); ([19], k_ctrl 83); ([20], k_ctrl 84); ([21], k_ctrl 85); ([22], k_ctrl 86); ([23], k_ctrl 87);
    ([24], k_ctrl 88); ([25], k_ctrl 89); ([26], k_ctrl 90); ([29], k_ctrl 93); ([31], k_ctrl 95); ([127], k_named KBackspace);
    ([97], k_plain 97); ([233], k_plain 233); ([26085], k_plain 26085); ([128512], k_plain 128512);
    (csi [65], k_named KUp); (csi [66], k_named KDown); (csi [67], k_named KRight); (csi [68], k_named KLeft);
    (csi [72], k_named KHome); (csi [70], k_named KEnd); (csi [90], k_named KBackTab);
    (ss3 [65], k_named KUp); (ss3 [66], k_named KDown); (ss3 [67], k_named KRight); (ss3 [68], k_named KLeft);
    (ss3 [72], k_named KHome); (ss3 [70], k_named KEnd);
    (csi [49; 126], k_named KHome); (csi [50; 126], k_named KInsert); (csi [51; 126], k_named KDelete);
    (csi [52; 126], k_named KEnd); (csi [53; 126], k_named KPageUp); (csi [54; 126], k_named KPageDown);
    (csi [55; 126], k_named KHome); (csi [56; 126], k_named KEnd);
    (csi [49; 59; 53; 67], (KRight, M_CTRL)); (csi [49; 59; 53; 68], (KLeft, M_CTRL));
    (csi [49; 59; 51; 67], (KRight, M_ALT)); (csi [49; 59; 51; 68], (KLeft, M_ALT));
    (csi [49; 59; 50; 65], (KUp, M_SHIFT)); (csi [49; 59; 50; 66], (KDown, M_SHIFT));
    (csi [50; 48; 48; 126], k_named KPasteStart); (csi [50; 48; 49; 126], k_named KPasteEnd);
    ([27; 98], k_alt 98); ([27; 102], k_alt 102); ([27; 100], k_alt 100); ([27; 121], k_alt 121); ([27; 60], k_alt 60);
    ([27; 62], k_alt 62); ([27; 45], k_alt 45); ([27; 53], k_alt 53); ([27; 127], (KBackspace, M_ALT));
    ([27; 29], (KChar 93, M_CTRL_ALT)); ([27; 7], (KChar 71, M_CTRL_ALT)) ]%N.

Definition with_input (s : est) (i : istream) : est :=
  mkEst (e_line s) (e_changes s) (e_kr s) (e_hist s) (e_hidx s) (e_saved s) (e_hint s) (e_layout s) (e_prompt s)
        (e_prompt_size s) (i_input_mode s) (i_num_args s) (i_last_cmd s) (i_last_cs s) i (e_out s) (e_obs s).

(* decoding a chunk that holds exactly these characters: the key, and what is left of the chunk *)
Definition decode_one (U : UData) (cfg : config) (sea : bool) (s : est) (rest : list (list inchar)) (chars : list N)
  : option (key * list inchar * list (list inchar)) :=
  match next_key U cfg sea (with_input s (mkIn (map Ch chars) rest)) with
  | EOk k s' => Some (k, in_cur (e_inp s'), in_rest (e_inp s'))
  | _ => None
  end.
