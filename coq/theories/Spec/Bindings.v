(* The README "Actions" tables, transcribed as data: key -> command with no
   pending numeric argument. *)
From RL Require Import UData LineBuffer Keys Editor EditorRun.

Definition k_ctrl (c : N) : key := (KChar c, M_CTRL).
Definition k_alt (c : N) : key := (KChar c, M_ALT).
Definition k_plain (c : N) : key := (KChar c, M_NONE).
Definition k_named (k : keycode) : key := (k, M_NONE).

(* "For all modes" + "Emacs mode": ASCII codes: A=65 ... *)
Definition doc_emacs : list (key * cmd) :=
  [ (k_named KHome, CMove MBeginningOfLine); (k_named KEnd, CMove MEndOfLine);
    (k_named KLeft, CMove (MBackwardChar 1)); (k_named KRight, CMove (MForwardChar 1));
    (k_ctrl 67, CInterrupt);
    (k_named KDelete, CKill (MForwardChar 1));
    (k_ctrl 74, CAcceptOrInsertLine true); (k_ctrl 77, CAcceptOrInsertLine true);
    (k_named KEnter, CAcceptOrInsertLine true);
    (k_ctrl 82, CReverseSearchHistory); (k_ctrl 83, CForwardSearchHistory);
    (k_ctrl 84, CTransposeChars); (k_ctrl 85, CKill MBeginningOfLine); (k_ctrl 86, CQuotedInsert);
    (k_ctrl 87, CKill (MBackwardWord 1 WBig)); (k_ctrl 89, CYank 1 ABefore); (k_ctrl 90, CSuspend);
    (k_ctrl 95, CUndo 1);
    (k_ctrl 65, CMove MBeginningOfLine); (k_ctrl 66, CMove (MBackwardChar 1));
    (k_ctrl 69, CMove MEndOfLine); (k_ctrl 70, CMove (MForwardChar 1));
    (k_ctrl 72, CKill (MBackwardChar 1)); (k_named KBackspace, CKill (MBackwardChar 1));
    (k_ctrl 73, CComplete); (k_named KTab, CComplete);
    (k_ctrl 75, CKill MEndOfLine); (k_ctrl 76, CClearScreen);
    (k_ctrl 78, CNextHistory); (k_named KDown, CLineDownOrNextHistory 1);
    (k_ctrl 80, CPreviousHistory); (k_named KUp, CLineUpOrPreviousHistory 1);
    (k_alt 60, CBeginningOfHistory); (k_alt 62, CEndOfHistory);
    (k_alt 98, CMove (MBackwardWord 1 WEmacs)); ((KLeft, M_ALT), CMove (MBackwardWord 1 WEmacs));
    (k_alt 99, CCapitalizeWord); (k_alt 100, CKill (MForwardWord 1 AtAfterEnd WEmacs));
    (k_alt 102, CMove (MForwardWord 1 AtAfterEnd WEmacs)); ((KRight, M_ALT), CMove (MForwardWord 1 AtAfterEnd WEmacs));
    (k_alt 108, CDowncaseWord); (k_alt 116, CTransposeWords 1); (k_alt 117, CUpcaseWord);
    (k_alt 121, CYankPop); ((KBackspace, M_ALT), CKill (MBackwardWord 1 WEmacs));
    (k_plain 97, CSelfInsert 1 97); (k_plain 233, CSelfInsert 1 233); (k_plain 26085, CSelfInsert 1 26085) ]%N.

(* "vi command mode" rows that need no further key *)
Definition doc_vi_command : list (key * cmd) :=
  [ (k_plain 36, CMove MEndOfLine); (k_named KEnd, CMove MEndOfLine);
    (k_plain 48, CMove MBeginningOfLine); (k_named KHome, CMove MBeginningOfLine);
    (k_plain 94, CMove MViFirstPrint);
    (k_plain 97, CMove (MForwardChar 1)); (k_plain 65, CMove MEndOfLine);
    (k_plain 98, CMove (MBackwardWord 1 WVi)); (k_plain 66, CMove (MBackwardWord 1 WBig));
    (k_plain 67, CReplace MEndOfLine None);
    (k_plain 68, CKill MEndOfLine); (k_ctrl 75, CKill MEndOfLine);
    (k_plain 101, CMove (MForwardWord 1 AtBeforeEnd WVi)); (k_plain 69, CMove (MForwardWord 1 AtBeforeEnd WBig));
    (k_plain 104, CMove (MBackwardChar 1)); (k_ctrl 72, CMove (MBackwardChar 1));
    (k_named KBackspace, CMove (MBackwardChar 1));
    (k_plain 108, CMove (MForwardChar 1)); (k_plain 32, CMove (MForwardChar 1));
    (k_ctrl 76, CClearScreen);
    (k_plain 105, CNoop); (k_plain 73, CMove MBeginningOfLine);
    (k_plain 43, CLineDownOrNextHistory 1); (k_plain 106, CLineDownOrNextHistory 1); (k_ctrl 78, CNextHistory);
    (k_plain 45, CLineUpOrPreviousHistory 1); (k_plain 107, CLineUpOrPreviousHistory 1); (k_ctrl 80, CPreviousHistory);
    (k_plain 112, CYank 1 AAfter); (k_plain 80, CYank 1 ABefore);
    (k_plain 115, CReplace (MForwardChar 1) None); (k_plain 83, CReplace MWholeLine None);
    (k_plain 117, CUndo 1);
    (k_plain 119, CMove (MForwardWord 1 AtStart WVi)); (k_plain 87, CMove (MForwardWord 1 AtStart WBig));
    (k_plain 120, CKill (MForwardChar 1)); (k_plain 88, CKill (MBackwardChar 1)) ]%N.

Definition doc_vi_insert : list (key * cmd) :=
  [ (k_ctrl 72, CKill (MBackwardChar 1)); (k_named KBackspace, CKill (MBackwardChar 1));
    (k_ctrl 73, CComplete); (k_named KTab, CComplete);
    (k_plain 97, CSelfInsert 1 97) ]%N.

Definition cmd_of {A} (r : eres A) : option A := match r with EOk a _ => Some a | _ => None end.

Definition cfg_plain (mode : edit_mode) : config :=
  mk_config mode CTCircular true 80 false [] [] VKNone [].

(* a state with nothing pending: no numeric argument, no hint, a non-empty line *)
Definition plain_state (b : lb) (cs : changeset) (kr : KillRing.killring) (hist : list str) (hidx : nat)
           (saved : str * nat) (lay : Render.layout) (prompt : str) (ps : Render.pos2)
           (im : input_mode) (lc : cmd) (lcs : option char_search) (inp : istream)
           (out : list (list N)) (obs : list observation) : est :=
  mkEst b cs kr hist hidx saved None lay prompt ps im 0%Z lc lcs inp out obs.
