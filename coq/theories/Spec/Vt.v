(* A VT100-subset terminal, written as the specification side of C02 (independent of rustyline's
   layout arithmetic; tools/vt.py is the same machine in Python, used on the implementation's output).
   Cells are addressed (row, column) from the anchor row -- the row on which the read began.
   This file covers the fragment the theorems use: characters of width 1, CR, LF, cursor movements,
   erase-to-end-of-line. Definitions only. *)
From Coq Require Import List Bool Arith NArith Lia.
Import ListNotations.

Section Vt.
  Variable W : nat.                       (* number of columns *)

  Record vt := mkVt {
    v_row : nat; v_col : nat;
    v_pending : bool;                     (* deferred wrap: the last column has just been written *)
    v_cells : nat -> nat -> option N;
  }.
  Definition blank : nat -> nat -> option N := fun _ _ => None.
  Definition vt0 : vt := mkVt 0 0 false blank.

  Definition upd (cells : nat -> nat -> option N) (r c : nat) (x : option N) : nat -> nat -> option N :=
    fun r' c' => if Nat.eqb r r' && Nat.eqb c c' then x else cells r' c'.

  (* a character of width 1 *)
  Definition put1 (ch : N) (v : vt) : vt :=
    let r := if v_pending v then S (v_row v) else v_row v in
    let c := if v_pending v then 0 else v_col v in
    let cells := upd (v_cells v) r c (Some ch) in
    if Nat.eqb (S c) W then mkVt r c true cells else mkVt r (S c) false cells.

  Definition cr (v : vt) : vt := mkVt (v_row v) 0 false (v_cells v).
  Definition lf (v : vt) : vt := mkVt (S (v_row v)) (v_col v) false (v_cells v).
  Definition up (n : nat) (v : vt) : vt := mkVt (v_row v - n) (v_col v) false (v_cells v).
  Definition down (n : nat) (v : vt) : vt := mkVt (v_row v + n) (v_col v) false (v_cells v).
  Definition right (n : nat) (v : vt) : vt := mkVt (v_row v) (Nat.min (W - 1) (v_col v + n)) false (v_cells v).
  Definition left (n : nat) (v : vt) : vt := mkVt (v_row v) (v_col v - n) false (v_cells v).
  (* CSI K: erase from the cursor to the end of the row *)
  Definition erase_eol (v : vt) : vt :=
    mkVt (v_row v) (v_col v) (v_pending v)
         (fun r c => if Nat.eqb r (v_row v) && Nat.leb (v_col v) c then None else v_cells v r c).

  Definition print (s : list N) (v : vt) : vt := fold_left (fun v ch => put1 ch v) s v.

  (* where the next character goes, as a (row, column-count) pair: deferred wrap = column W *)
  Definition epos (v : vt) : nat * nat := (v_row v, if v_pending v then W else v_col v).
  (* the cell the cursor is drawn on / the cell of "the position after what was printed" *)
  Definition cursor_cell (v : vt) : nat * nat := (v_row v, v_col v).
  Definition next_cell (v : vt) : nat * nat := if v_pending v then (S (v_row v), 0) else (v_row v, v_col v).

  Definition wf (v : vt) : Prop := v_col v < W /\ (v_pending v = true -> S (v_col v) = W).

  (* what a blank screen shows after printing s from the anchor *)
  Definition shown (s : list N) : nat -> nat -> option N := v_cells (print s vt0).
End Vt.

(* ---------- terminal operations and their standard byte encoding ---------- *)

Inductive op :=
| OPrint (s : list N)          (* characters of width 1 *)
| OCr | OLf                    (* LF: what the terminal receives for a written line feed is CR LF (ONLCR) *)
| OUp1                         (* ESC [ A *)
| OUp (n : nat) | ODown (n : nat) | ORight (n : nat)   (* ESC [ n A / B / C *)
| ODown1 | ORight1 | OLeft1    (* ESC [ B / C / D *)
| OLeft (n : nat)              (* ESC [ n D *)
| OEraseEol.                   (* ESC [ K *)

Section VtOps.
  Variable W : nat.
  Definition run1 (v : vt) (o : op) : vt :=
    match o with
    | OPrint s => print W s v
    | OCr => cr v
    | OLf => lf (cr v)
    | OUp1 => up 1 v
    | OUp n => up n v
    | ODown n => down n v
    | ORight n => right W n v
    | ODown1 => down 1 v
    | ORight1 => right W 1 v
    | OLeft1 => left 1 v
    | OLeft n => left n v
    | OEraseEol => erase_eol v
    end.
  Definition run (ops : list op) (v : vt) : vt := fold_left run1 ops v.
End VtOps.
