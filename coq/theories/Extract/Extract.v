(* Extraction of the executable model for the correspondence check.
   ExtrOcamlBasic only: N, Z, positive, nat stay the extracted inductives. *)
From Coq Require Import Extraction ExtrOcamlBasic.
From RL Require Import UData Uax29 Utf8 History HistFile Direct Completion LineBufferOps EditorRun SqlHist RawMode RawSteps.

Extraction Blacklist List String Int.

Extraction "model.ml"
  (* base *)
  Build_UData blen bsplit encode decode useg
  (* history *)
  hist_new h_run h_step
  (* history file *)
  w_run w_init save_bytes load_from f_new_cfg f_entries
  (* direct input *)
  direct_all bracket_validator apply_bs_impl apply_bs
  (* completion *)
  complete_path longest_common_prefix unescape escape extract_word find_unclosed_quote
  (* line buffer *)
  lb_run lb_apply mkLb move_to_line_up move_to_line_down
  (* sqlite history *)
  sql_new sql_run
  (* raw mode around a read *)
  read_steps switches mkTerm
  (* editor *)
  run_reads mk_config kr_new mkIn mkMods.
