(* C03: totality and cursor validity of the character- and line-level
   operations, for every buffer, every cursor on a character boundary and
   every count -- given only that the segmentation is a partition
   (concat (seg s) = s). *)
From RL Require Import UData LineBuffer LineBufferOps LineBufferProofs.

Definition wf (b : lb) : Prop := exists l r, buf b = l ++ r /\ pos b = blen l.

Lemma wf_bsplit b l r : buf b = l ++ r -> pos b = blen l -> bsplit (buf b) (pos b) = Some (l, r).
Proof. intros -> ->. apply bsplit_app. Qed.

Lemma find_char_spec c r k :
  find_char c r = Some k -> exists a b, r = a ++ c :: b /\ k = blen a /\ ~ In c a.
Proof.
  revert k. induction r as [|x r IH]; intros k H; [discriminate|]. cbn [find_char] in H.
  destruct (x =? c)%N eqn:E.
  - apply N.eqb_eq in E. subst. inversion H; subst. exists [], r. repeat split; auto.
  - destruct (find_char c r) as [k'|]; [|discriminate]. inversion H; subst.
    destruct (IH _ eq_refl) as [a [b [-> [-> Hn]]]]. exists (x :: a), b. repeat split; auto.
    intros [Hx|Hx]; [subst; rewrite N.eqb_refl in E; discriminate|contradiction].
Qed.

Lemma rfind_char_spec c l k :
  rfind_char c l = Some k -> exists a b, l = a ++ c :: b /\ k = blen a.
Proof.
  revert k. induction l as [|x l IH]; intros k H; [discriminate|]. cbn [rfind_char] in H.
  destruct (rfind_char c l) as [k'|].
  - inversion H; subst. destruct (IH _ eq_refl) as [a [b [-> ->]]]. exists (x :: a), b. split; reflexivity.
  - destruct (x =? c)%N eqn:E; [|discriminate]. apply N.eqb_eq in E. subst. inversion H; subst.
    exists [], l. split; reflexivity.
Qed.

Lemma in_index_from gs : forall i0 i s,
  In (i, s) (index_from i0 gs) -> exists g1 g2, gs = g1 ++ s :: g2 /\ i = i0 + blen (concat g1).
Proof.
  induction gs as [|g gs IH]; intros i0 i s H; [destruct H|]. cbn [index_from] in H. destruct H as [H|H].
  - inversion H; subst. exists [], gs. split; [reflexivity|cbn; lia].
  - destruct (IH _ _ _ H) as [g1 [g2 [-> ->]]]. exists (g :: g1), g2. split; [reflexivity|].
    cbn [concat]. rewrite blen_app. lia.
Qed.

Lemma last_opt_in {A} (l : list A) x : last_opt l = Some x -> In x l.
Proof.
  induction l as [|a l IH]; [discriminate|]. cbn [last_opt]. destruct l as [|b l].
  - intros H; inversion H; left; reflexivity.
  - intros H. right. apply IH. exact H.
Qed.

Lemma firstn_in {A} n (l : list A) x : In x (firstn n l) -> In x l.
Proof. intros H. rewrite <- (firstn_skipn n l). apply in_or_app. left. exact H. Qed.

Lemma blen_repeat_str s n : blen (repeat_str s n) = blen s * n.
Proof. induction n as [|n IH]; cbn [repeat_str blen]; [lia|]. rewrite blen_app, IH, Nat.mul_succ_r. lia. Qed.

Section Total.
  Variable seg : str -> list str.
  Hypothesis seg_concat : forall s, concat (seg s) = s.

  (* the position after n clusters: a boundary at or after the cursor *)
  Lemma next_pos_ok b n l r :
    buf b = l ++ r -> pos b = blen l ->
    exists o, next_pos seg b n = Ok o
              /\ forall p, o = Some p -> exists m r', r = m ++ r' /\ p = blen l + blen m.
  Proof.
    intros Hb Hp. unfold next_pos, slice_from. destruct (Nat.eqb (pos b) (lb_len b)).
    { exists None. split; [reflexivity|discriminate]. }
    rewrite (wf_bsplit b l r Hb Hp).
    destruct (last_opt (firstn n (gindices seg r))) as [[i s]|] eqn:E.
    - eexists. split; [reflexivity|]. intros p Hp'. inversion Hp'; subst.
      apply last_opt_in, firstn_in in E. unfold gindices in E.
      destruct (in_index_from _ _ _ _ E) as [g1 [g2 [Hg ->]]].
      exists (concat g1 ++ s), (concat g2). split.
      + rewrite <- (seg_concat r), Hg, concat_app. cbn [concat]. rewrite <- app_assoc. reflexivity.
      + rewrite blen_app, Hp. lia.
    - exists None. split; [reflexivity|discriminate].
  Qed.

  Lemma prev_pos_ok b n l r :
    buf b = l ++ r -> pos b = blen l ->
    exists o, prev_pos seg b n = Ok o
              /\ forall p, o = Some p -> exists l' m, l = l' ++ m /\ p = blen l'.
  Proof.
    intros Hb Hp. unfold prev_pos, slice_to. destruct (Nat.eqb (pos b) 0).
    { exists None. split; [reflexivity|discriminate]. }
    rewrite (wf_bsplit b l r Hb Hp).
    destruct (last_opt (firstn n (rev (gindices seg l)))) as [[i s]|] eqn:E.
    - eexists. split; [reflexivity|]. intros p Hp'. inversion Hp'; subst.
      apply last_opt_in, firstn_in, in_rev in E. unfold gindices in E.
      destruct (in_index_from _ _ _ _ E) as [g1 [g2 [Hg ->]]].
      exists (concat g1), (s ++ concat g2). split; [|reflexivity].
      rewrite <- (seg_concat l), Hg, concat_app. reflexivity.
    - exists None. split; [reflexivity|discriminate].
  Qed.

  Lemma end_of_line_ok b l r :
    buf b = l ++ r -> pos b = blen l ->
    exists m r', end_of_line b = Ok (blen l + blen m) /\ r = m ++ r' /\ ~ In LF m
                 /\ (r' = [] \/ exists r'', r' = LF :: r'').
  Proof.
    intros Hb Hp. unfold end_of_line, slice_from. rewrite (wf_bsplit b l r Hb Hp).
    destruct (find_char LF r) as [k|] eqn:E.
    - destruct (find_char_spec _ _ _ E) as [a [c [-> [-> Hn]]]].
      exists a, (LF :: c). repeat split; auto; [f_equal; lia|right; eexists; reflexivity].
    - exists r, []. unfold lb_len. rewrite Hb, blen_app, app_nil_r. repeat split; auto.
      clear - E. induction r as [|x r IH]; [intros []|]. cbn [find_char] in E.
      destruct (x =? LF)%N eqn:Ex; [discriminate|]. destruct (find_char LF r); [discriminate|].
      intros [H|H]; [subst; rewrite N.eqb_refl in Ex; discriminate|apply IH; auto].
  Qed.

  Lemma start_of_line_ok b l r :
    buf b = l ++ r -> pos b = blen l ->
    exists l' m, start_of_line b = Ok (blen l') /\ l = l' ++ m.
  Proof.
    intros Hb Hp. unfold start_of_line, slice_to. rewrite (wf_bsplit b l r Hb Hp).
    destruct (rfind_char LF l) as [k|] eqn:E.
    - destruct (rfind_char_spec _ _ _ E) as [a [c [-> ->]]].
      exists (a ++ [LF]), c. split; [|rewrite <- app_assoc; reflexivity].
      rewrite blen_app. cbn [blen]. change (clen LF) with 1. f_equal; try lia.
    - exists [], l. split; reflexivity.
  Qed.

  Definition total_wf {A} (m : M A) : Prop :=
    forall b, wf b -> exists a b' ev, m b = Ok (a, b', ev) /\ wf b'.

  Ltac start b l r Hb Hp := intros b [l [r [Hb Hp]]].

  Lemma wf_set_pos' b l r : buf b = l ++ r -> wf (set_pos' b (blen l)).
  Proof. intros H. exists l, r. split; [exact H|reflexivity]. Qed.

  Theorem move_forward_total n : total_wf (move_forward seg n).
  Proof.
    start b l r Hb Hp. unfold move_forward, bind, get, lift.
    destruct (next_pos_ok b n l r Hb Hp) as [o [-> Ho]].
    destruct o as [p|].
    - destruct (Ho p eq_refl) as [m [r' [-> ->]]]. cbn [put_pos ret].
      eexists _, _, _. split; [reflexivity|]. exists (l ++ m), r'. cbn. split; [rewrite Hb, app_assoc; reflexivity|symmetry; apply blen_app].
    - eexists _, _, _. split; [reflexivity|]. exists l, r. split; assumption.
  Qed.

  Theorem move_backward_total n : total_wf (move_backward seg n).
  Proof.
    start b l r Hb Hp. unfold move_backward, bind, get, lift.
    destruct (prev_pos_ok b n l r Hb Hp) as [o [-> Ho]].
    destruct o as [p|].
    - destruct (Ho p eq_refl) as [l' [m [-> ->]]]. cbn [put_pos ret].
      eexists _, _, _. split; [reflexivity|]. exists l', (m ++ r). cbn. split; [rewrite Hb, app_assoc; reflexivity|reflexivity].
    - eexists _, _, _. split; [reflexivity|]. exists l, r. split; assumption.
  Qed.

  Theorem move_buffer_start_total : total_wf move_buffer_start.
  Proof.
    start b l r Hb Hp. unfold move_buffer_start, bind, get. destruct (Nat.ltb 0 (pos b)).
    - eexists _, _, _. split; [reflexivity|]. exists [], (buf b). split; reflexivity.
    - eexists _, _, _. split; [reflexivity|]. exists l, r. split; assumption.
  Qed.

  Theorem move_buffer_end_total : total_wf move_buffer_end.
  Proof.
    start b l r Hb Hp. unfold move_buffer_end, bind, get. destruct (Nat.eqb (pos b) (lb_len b)).
    - eexists _, _, _. split; [reflexivity|]. exists l, r. split; assumption.
    - eexists _, _, _. split; [reflexivity|]. exists (buf b), []. cbn. split; [rewrite app_nil_r; reflexivity|reflexivity].
  Qed.

  Theorem move_home_total : total_wf move_home.
  Proof.
    start b l r Hb Hp. unfold move_home, bind, get, lift.
    destruct (start_of_line_ok b l r Hb Hp) as [l' [m [-> ->]]].
    destruct (Nat.ltb (blen l') (pos b)).
    - eexists _, _, _. split; [reflexivity|]. exists l', (m ++ r). cbn. split; [rewrite Hb, app_assoc; reflexivity|reflexivity].
    - eexists _, _, _. split; [reflexivity|]. exists (l' ++ m), r. split; assumption.
  Qed.

  Theorem move_end_total : total_wf move_end.
  Proof.
    start b l r Hb Hp. unfold move_end, bind, get, lift.
    destruct (end_of_line_ok b l r Hb Hp) as [m [r' [-> [-> _]]]].
    destruct (Nat.eqb (pos b) (blen l + blen m)).
    - eexists _, _, _. split; [reflexivity|]. exists l, (m ++ r'). split; assumption.
    - eexists _, _, _. split; [reflexivity|]. exists (l ++ m), r'. cbn.
      split; [rewrite Hb, app_assoc; reflexivity|symmetry; apply blen_app].
  Qed.

  (* draining [blen l, blen l + blen m) of l ++ m ++ r *)
  Lemma drain_ok b l m r d :
    buf b = l ++ m ++ r ->
    drain (blen l) (blen l + blen m) d b = Ok (m, set_buf b (l ++ r), [EDelete (blen l) m d]).
  Proof.
    intros Hb. unfold drain, str_drain. rewrite Hb.
    replace (Nat.ltb (blen l + blen m) (blen l)) with false by (symmetry; apply Nat.ltb_ge; lia).
    rewrite bsplit_app. replace (blen l + blen m - blen l) with (blen m) by lia. rewrite bsplit_app.
    reflexivity.
  Qed.

  Theorem delete_total n : total_wf (delete seg n).
  Proof.
    start b l r Hb Hp. unfold delete, bind, get, lift.
    destruct (next_pos_ok b n l r Hb Hp) as [o [-> Ho]].
    destruct o as [p|].
    - destruct (Ho p eq_refl) as [m [r' [-> ->]]]. rewrite Hp. rewrite (drain_ok b l m r' DForward Hb).
      eexists _, _, _. split; [reflexivity|]. exists l, r'. cbn. split; [reflexivity|exact Hp].
    - eexists _, _, _. split; [reflexivity|]. exists l, r. split; assumption.
  Qed.

  Theorem backspace_total n : total_wf (backspace seg n).
  Proof.
    start b l r Hb Hp. unfold backspace, bind, get, lift.
    destruct (prev_pos_ok b n l r Hb Hp) as [o [-> Ho]].
    destruct o as [p|].
    - destruct (Ho p eq_refl) as [l' [m [-> ->]]]. rewrite Hp, blen_app.
      rewrite <- app_assoc in Hb. rewrite (drain_ok b l' m r DBackward Hb). cbn [put_pos ret].
      eexists _, _, _. split; [reflexivity|]. exists l', r. cbn. split; reflexivity.
    - eexists _, _, _. split; [reflexivity|]. exists l, r. split; assumption.
  Qed.

  Lemma insert_str_ok b l r s :
    buf b = l ++ r ->
    insert_str (blen l) s b = Ok (Nat.eqb (blen l) (lb_len b), set_buf b (l ++ s ++ r), [EInsertStr (blen l) s]).
  Proof. intros Hb. unfold insert_str, str_insert. rewrite Hb, bsplit_app. reflexivity. Qed.

  Theorem insert_total c n : total_wf (insert c n).
  Proof.
    start b l r Hb Hp. unfold insert, bind, get.
    destruct (must_truncate b (lb_len b + clen c * n)).
    { eexists _, _, _. split; [reflexivity|]. exists l, r. split; assumption. }
    destruct (Nat.eqb n 1) eqn:En.
    - apply Nat.eqb_eq in En. subst n. unfold insert_char_at, str_insert. rewrite (wf_bsplit b l r Hb Hp).
      cbn [put_pos ret]. eexists _, _, _. split; [reflexivity|]. exists (l ++ [c]), r. cbn.
      split; [rewrite <- app_assoc; reflexivity|]. rewrite blen_app, Hp. cbn [blen]. lia.
    - rewrite Hp. rewrite (insert_str_ok b l r _ Hb). cbn [ret put_pos].
      eexists _, _, _. split; [reflexivity|]. exists (l ++ repeat_str [c] n), r. cbn.
      split; [rewrite <- app_assoc; reflexivity|]. rewrite blen_app, blen_repeat_str. cbn [blen]. lia.
  Qed.

  Theorem yank_total s n : total_wf (yank s n).
  Proof.
    start b l r Hb Hp. unfold yank, bind, get. destruct s as [|c s].
    { eexists _, _, _. split; [reflexivity|]. exists l, r. split; assumption. }
    destruct (must_truncate b (lb_len b + blen (c :: s) * n)).
    { eexists _, _, _. split; [reflexivity|]. exists l, r. split; assumption. }
    rewrite Hp. rewrite (insert_str_ok b l r _ Hb). cbn [ret put_pos].
    eexists _, _, _. split; [reflexivity|].
    exists (l ++ (if Nat.eqb n 1 then c :: s else repeat_str (c :: s) n)), r. cbn [set_pos' set_buf buf pos].
    split; [rewrite <- app_assoc; reflexivity|]. rewrite blen_app.
    destruct (Nat.eqb n 1) eqn:En;
      [apply Nat.eqb_eq in En; subst; rewrite Nat.mul_1_r; reflexivity|rewrite blen_repeat_str; reflexivity].
  Qed.

  Theorem kill_buffer_total : total_wf kill_buffer.
  Proof.
    start b l r Hb Hp. unfold kill_buffer, bind, get.
    destruct (negb (Nat.eqb (lb_len b) 0) && Nat.ltb (pos b) (lb_len b)).
    - assert (Hlen : lb_len b = blen l + blen r) by (unfold lb_len; rewrite Hb, blen_app; reflexivity).
      assert (Hb' : buf b = l ++ r ++ []) by (rewrite app_nil_r; exact Hb).
      rewrite Hp, Hlen. rewrite (drain_ok b l r [] DForward Hb'). cbn [ret].
      eexists _, _, _. split; [reflexivity|]. exists l, []. cbn. split; [reflexivity|exact Hp].
    - eexists _, _, _. split; [reflexivity|]. exists l, r. split; assumption.
  Qed.

  Theorem discard_buffer_total : total_wf discard_buffer.
  Proof.
    start b l r Hb Hp. unfold discard_buffer, bind, get.
    destruct (Nat.ltb 0 (pos b) && negb (Nat.eqb (lb_len b) 0)).
    - rewrite Hp. assert (Hb' : buf b = [] ++ l ++ r) by exact Hb.
      pose proof (drain_ok b [] l r DBackward Hb') as Hd. cbn [blen plus] in Hd. rewrite Hd. cbn [put_pos ret].
      eexists _, _, _. split; [reflexivity|]. exists [], r. cbn. split; reflexivity.
    - eexists _, _, _. split; [reflexivity|]. exists l, r. split; assumption.
  Qed.

  Theorem kill_line_total : total_wf (kill_line seg).
  Proof.
    start b l r Hb Hp. unfold kill_line. unfold bind at 1. unfold get at 1.
    destruct (negb (Nat.eqb (lb_len b) 0) && Nat.ltb (pos b) (lb_len b)).
    2:{ eexists _, _, _. split; [reflexivity|]. exists l, r. split; assumption. }
    unfold bind at 1. unfold lift.
    destruct (end_of_line_ok b l r Hb Hp) as [m [r' [-> [Hr _]]]].
    destruct (Nat.eqb (pos b) (blen l + blen m)).
    - destruct (delete_total 1 b (ex_intro _ l (ex_intro _ r (conj Hb Hp)))) as [a [b' [ev [Hd Hw]]]].
      unfold bind. rewrite Hd. cbn [ret]. eexists _, _, _. split; [reflexivity|exact Hw].
    - subst r. rewrite Hp. unfold bind. rewrite (drain_ok b l m r' DForward Hb). cbn [ret].
      eexists _, _, _. split; [reflexivity|]. exists l, r'. cbn. split; [reflexivity|exact Hp].
  Qed.

  Theorem discard_line_total : total_wf (discard_line seg).
  Proof.
    start b l r Hb Hp. unfold discard_line. unfold bind at 1. unfold get at 1.
    destruct (Nat.ltb 0 (pos b) && negb (Nat.eqb (lb_len b) 0)).
    2:{ eexists _, _, _. split; [reflexivity|]. exists l, r. split; assumption. }
    unfold bind at 1. unfold lift.
    destruct (start_of_line_ok b l r Hb Hp) as [l' [m [-> Hl]]].
    destruct (Nat.eqb (pos b) (blen l')).
    - destruct (backspace_total 1 b (ex_intro _ l (ex_intro _ r (conj Hb Hp)))) as [a [b' [ev [Hd Hw]]]].
      rewrite Hd. cbn [app]. eexists _, _, _. split; [reflexivity|exact Hw].
    - subst l. rewrite Hp, blen_app. rewrite <- app_assoc in Hb. unfold bind.
      rewrite (drain_ok b l' m r DBackward Hb). cbn [put_pos ret].
      eexists _, _, _. split; [reflexivity|]. exists l', r. cbn. split; reflexivity.
  Qed.

  (* fixed capacity: insert and yank refuse (None, nothing changed) rather than exceed it *)
  Theorem insert_capacity c n b r b' ev :
    wf b -> grow b = false -> insert c n b = Ok (r, b', ev) ->
    (r = None /\ b' = b /\ ev = [] /\ cap b < lb_len b + clen c * n)
    \/ (r <> None /\ lb_len b' = lb_len b + clen c * n /\ lb_len b' <= cap b /\ cap b' = cap b).
  Proof.
    intros [l [r0 [Hb Hp]]] Hg. unfold insert, bind, get, must_truncate. rewrite Hg. cbn [negb andb].
    destruct (Nat.ltb (cap b) (lb_len b + clen c * n)) eqn:E.
    { intros H; inversion H; subst. left. apply Nat.ltb_lt in E. auto. }
    apply Nat.ltb_ge in E. intros H. right.
    destruct (Nat.eqb n 1) eqn:En.
    - apply Nat.eqb_eq in En. subst n. unfold insert_char_at, str_insert in H. rewrite (wf_bsplit b l r0 Hb Hp) in H.
      cbn [put_pos ret] in H. inversion H; subst. unfold lb_len in *. cbn [set_pos' set_buf buf cap].
      rewrite Hb in *. rewrite !blen_app in *. cbn [blen] in *. repeat split; try discriminate; lia.
    - rewrite Hp in H. rewrite (insert_str_ok b l r0 _ Hb) in H. cbn [ret put_pos] in H. inversion H; subst.
      unfold lb_len in *. cbn [set_pos' set_buf buf cap]. rewrite Hb in *. rewrite !blen_app in *.
      rewrite blen_repeat_str. cbn [blen] in *. repeat split; try discriminate; lia.
  Qed.

  Theorem yank_capacity s n b r b' ev :
    wf b -> grow b = false -> yank s n b = Ok (r, b', ev) ->
    (r = None /\ b' = b /\ ev = []) \/ (r <> None /\ lb_len b' <= cap b /\ cap b' = cap b).
  Proof.
    intros [l [r0 [Hb Hp]]] Hg. unfold yank, bind, get, must_truncate. rewrite Hg. cbn [negb andb].
    destruct s as [|c s]; [intros H; inversion H; subst; left; auto|].
    destruct (Nat.ltb (cap b) (lb_len b + blen (c :: s) * n)) eqn:E.
    { intros H; inversion H; subst. left. auto. }
    apply Nat.ltb_ge in E. intros H. right.
    rewrite Hp in H. rewrite (insert_str_ok b l r0 _ Hb) in H. cbn [ret put_pos] in H. inversion H; subst.
    unfold lb_len in *. cbn [set_pos' set_buf buf cap]. rewrite Hb in *. rewrite !blen_app in *.
    split; [discriminate|]. split; [|reflexivity].
    destruct (Nat.eqb n 1) eqn:En; [apply Nat.eqb_eq in En; subst; lia|rewrite blen_repeat_str; lia].
  Qed.

  (* the operations of the stream covered by the theorems above *)
  Definition is_core (o : lbop) : bool :=
    match o with
    | OpIns _ _ | OpYank _ _ | OpMoveBackward _ | OpMoveForward _ | OpBufferStart | OpBufferEnd
    | OpHome | OpEnd | OpDelete _ | OpBackspace _ | OpKillLine | OpKillBuffer | OpDiscardLine
    | OpDiscardBuffer | OpIsEndOfInput => true
    | _ => false
    end.

  Theorem lb_core_total_wf (U : UData) (o : lbop) :
    is_core o = true -> total_wf (lb_apply U seg o).
  Proof.
    assert (Hmap : forall A B (f : A -> B) (m : M A), total_wf m -> total_wf (mapM f m)).
    { intros A B f m Hm b Hw. destruct (Hm b Hw) as [a [b' [ev [H1 H2]]]].
      unfold mapM, bind. rewrite H1. cbn [ret]. eexists _, _, _. split; [reflexivity|exact H2]. }
    intros Hc. destruct o; try discriminate; cbn [lb_apply]; try apply Hmap;
      first [ apply insert_total | apply yank_total | apply move_backward_total | apply move_forward_total
            | apply move_buffer_start_total | apply move_buffer_end_total | apply move_home_total
            | apply move_end_total | apply delete_total | apply backspace_total | apply kill_line_total
            | apply kill_buffer_total | apply discard_line_total | apply discard_buffer_total | idtac ].
    intros b Hw. unfold pureM, bind, get, lift. eexists _, _, _. split; [reflexivity|exact Hw].
  Qed.
End Total.
