(* C11, the size-limit clause: "when modification times of successive writes are distinguishable the file never exceeds the size
   limit". What the clause rests on is what a session REMEMBERS about the file (FileHistory::path_info: the modification
   time and the number of entries it knows to be in it). If that record is right whenever the file still carries the recorded
   modification time -- which distinguishable modification times guarantee: any write by anybody changes the time --, then
   ONE append, down any of its four paths, leaves a file of at most max_len entries. *)
From Coq Require Import List Arith Bool Lia.
From RL Require Import UData Ustr History HistFile HistoryProofs HistFileProofs HistShareProofs.
Import ListNotations.

Section Bound.
  Variable U : UData.

  Lemma pending_length f : f_new f <= hlen (f_mem f) -> length (pending f) = f_new f.
  Proof. intros H. unfold pending, f_entries. rewrite skipn_length. unfold hlen in *. lia. Qed.

  Lemma f_add_all_max ls f : h_max (f_mem (f_add_all U f ls)) = h_max (f_mem f).
  Proof. pose proof (f_add_all_cfg U ls f) as H. unfold cfg_of in H. inversion H. reflexivity. Qed.

  Theorem append_keeps_bound (f : fhist) (fs : fsys) (tick : bool) f' fs' r (es : list str) :
    f_append U f fs tick = (f', fs', r) ->
    fs_content fs = Some (save_bytes es) ->
    Forall (fun e => valid_str e = true) es ->
    length es <= h_max (f_mem f) ->
    length (f_entries f) <= h_max (f_mem f) ->
    f_new f <= hlen (f_mem f) ->
    (* the session's record of the file is right while the file carries the recorded modification time *)
    (forall pm psize, f_pinfo f = Some (pm, psize) -> pm = fs_mtime fs -> psize = length es) ->
    exists es', fs_content fs' = Some (save_bytes es') /\ length es' <= h_max (f_mem f).
  Proof.
    intros Ha Hc Hv Hle Hmem Hnew Hrec. apply f_append_effect in Ha.
    destruct Ha as [->|Hs _|c Hc' Hj Hf|c other ap Hc' Hl Hf].
    - exists es. split; assumption.
    - exists (f_entries f). split; assumption.
    - rewrite Hc in Hc'. inversion Hc'; subst c. exists (es ++ pending f). split.
      + rewrite Hf, save_bytes_app. reflexivity.
      + rewrite app_length, pending_length by exact Hnew.
        unfold can_just_append in Hj. destruct (f_pinfo f) as [[pm psize]|] eqn:Ep; [|discriminate].
        destruct (negb (Nat.eqb pm (fs_mtime fs))) eqn:E1; [discriminate|].
        destruct (Nat.leb (h_max (f_mem f)) psize) eqn:E2; [discriminate|].
        destruct (Nat.ltb (h_max (f_mem f)) (psize + f_new f)) eqn:E3; [discriminate|].
        apply negb_false_iff, Nat.eqb_eq in E1. apply Nat.ltb_ge in E3.
        rewrite <- (Hrec pm psize eq_refl E1). exact E3.
    - rewrite Hc in Hc'. inversion Hc'; subst c.
      set (fresh := f_new_cfg (h_max (f_mem f)) (h_ign_space (f_mem f)) (h_ign_dups (f_mem f))) in *.
      destruct (load_save_general U fresh es Hv) as [ap' Hl']. rewrite Hl' in Hl. inversion Hl; subst other.
      exists (f_entries (f_add_all U (f_reset (f_add_all U fresh es)) (pending f))). split; [exact Hf|].
      assert (Hm1 : h_max (f_mem (f_reset (f_add_all U fresh es))) = h_max (f_mem f)).
      { unfold f_reset. cbn [f_mem]. rewrite f_add_all_max. reflexivity. }
      assert (Hb1 : length (f_entries (f_reset (f_add_all U fresh es))) <= h_max (f_mem (f_reset (f_add_all U fresh es)))).
      { rewrite Hm1. unfold f_reset, f_entries. cbn [f_mem].
        destruct (f_add_all_shape U es fresh) as [_ H]; [unfold fresh, f_entries; cbn; lia|].
        exact H. }
      destruct (f_add_all_shape U (pending f) _ Hb1) as [_ H2]. rewrite Hm1 in H2. exact H2.
  Qed.
End Bound.
