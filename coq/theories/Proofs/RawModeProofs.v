(* C16 over the small model of Model/RawMode.v. *)
From Coq Require Import List Bool Arith Lia.
From RL Require Import RawMode.
Import ListNotations.

Section RawModeProofs.
  Variable settings : Type.
  Variable raw_of : settings -> settings.
  Notation term := (term settings).
  Notation body := (body settings).

  Lemma paste_state_app ws1 : forall ws2 on, paste_state (ws1 ++ ws2) on = paste_state ws2 (paste_state ws1 on).
  Proof. induction ws1 as [|w ws1 IH]; intros ws2 on; [reflexivity|]. destruct w; cbn; apply IH. Qed.
  Lemma paste_state_other ws on : Forall (fun w => w = Other) ws -> paste_state ws on = on.
  Proof. induction 1 as [|w ws Hw _ IH]; [reflexivity|]. subst w. exact IH. Qed.

  (* however the read ends: the settings are those found, and paste is off if it was off before *)
  Theorem read_restores (paste : bool) (b : body) (t : term) :
    body_ok settings b ->
    let '(t', x) := read_once settings raw_of paste b t in
    t_tio settings t' = t_tio settings t
    /\ paste_state (t_out settings t') false = paste_state (t_out settings t) false
       \/ paste_state (t_out settings t) false = true.
  Proof.
    intros Hb. unfold read_once. destruct (b _) as [ws x] eqn:E. cbn [t_tio t_out write].
    destruct (paste_state (t_out settings t) false) eqn:Ep; [right; reflexivity|left].
    split; [reflexivity|].
    assert (Hws : Forall (fun w => w = Other) ws).
    { specialize (Hb (write settings (mkTerm settings (raw_of (t_tio settings t)) (t_out settings t)) (if paste then [PasteOn] else []))).
      rewrite E in Hb. exact Hb. }
    unfold write. cbn [t_out t_tio]. rewrite !paste_state_app, Ep. destruct paste; cbn.
    - reflexivity.
    - apply paste_state_other. exact Hws.
  Qed.

  (* any number of successive reads, any exits, any changes of the settings between reads: every read gives
     the terminal back as it found it, so at the end the settings are exactly what the application's own
     changes made of the initial ones, and paste is off *)
  Fixpoint app_changes (rs : list (body * (settings -> settings))) (s : settings) : settings :=
    match rs with [] => s | (_, ch) :: rest => app_changes rest (ch s) end.

  Theorem reads_restore (paste : bool) rs : forall t,
    Forall (fun r => body_ok settings (fst r)) rs ->
    paste_state (t_out settings t) false = false ->
    let '(t', xs) := reads settings raw_of paste rs t in
    t_tio settings t' = app_changes rs (t_tio settings t)
    /\ paste_state (t_out settings t') false = false
    /\ length xs = length rs.
  Proof.
    induction rs as [|[b ch] rest IH]; intros t Hok Hp; cbn [reads app_changes].
    - repeat split; assumption.
    - inversion Hok as [|r rs' Hb Hrest]; subst. cbn [fst] in Hb.
      pose proof (read_restores paste b t Hb) as H1.
      destruct (read_once settings raw_of paste b t) as [t1 x].
      destruct H1 as [[Ht Hps]|Hbad]; [|congruence].
      specialize (IH (mkTerm settings (ch (t_tio settings t1)) (t_out settings t1)) Hrest).
      cbn [t_out t_tio] in IH. rewrite Hps, Hp in IH. specialize (IH eq_refl).
      destruct (reads settings raw_of paste rest _) as [t2 xs]. destruct IH as [I1 [I2 I3]].
      rewrite Ht in I1. cbn [length]. repeat split; [exact I1|exact I2|lia].
  Qed.
End RawModeProofs.
