(* C03 (extension): EVERY operation of the line buffer is total (never reaches a
   Panic: no slice off a character boundary, no underflow, no unwrap of None)
   and leaves the cursor on a character boundary -- for every buffer, every
   cursor on a boundary, every count / word definition / search / movement --
   given that the segmentation is a partition into non-empty clusters.
   Operations that take raw byte offsets carry the precondition the crate
   documents for them (offsets on boundaries, ordered). *)
From RL Require Import UData Uax29 LineBuffer LineBufferOps LineBufferProofs LineBufferTotal LineBufferRanges.

(* ---------- byte offsets that are character boundaries ---------- *)

Definition bd (s : str) (p : nat) : Prop := exists l r, s = l ++ r /\ p = blen l.

Lemma bd_0 s : bd s 0.
Proof. exists [], s. split; reflexivity. Qed.
Lemma bd_len s : bd s (blen s).
Proof. exists s, []. split; [rewrite app_nil_r|]; reflexivity. Qed.
Lemma bd_le s p : bd s p -> p <= blen s.
Proof. intros [l [r [-> ->]]]. rewrite blen_app. lia. Qed.
Lemma bd_app_l a b p : bd a p -> bd (a ++ b) p.
Proof. intros [l [r [-> ->]]]. exists l, (r ++ b). split; [rewrite app_assoc|]; reflexivity. Qed.
Lemma bd_app_r a b p : bd b p -> bd (a ++ b) (blen a + p).
Proof. intros [l [r [-> ->]]]. exists (a ++ l), r. split; [rewrite app_assoc; reflexivity|symmetry; apply blen_app]. Qed.
Lemma bd_mid a b : bd (a ++ b) (blen a).
Proof. exists a, b. split; reflexivity. Qed.

Lemma blen_0_nil s : blen s = 0 -> s = [].
Proof. destruct s as [|c s]; [reflexivity|]. cbn [blen]. pose proof (clen_pos c). lia. Qed.

Lemma bd_split a b p : bd (a ++ b) p -> (bd a p /\ p <= blen a) \/ (blen a <= p /\ bd b (p - blen a)).
Proof.
  intros [l [r [H ->]]]. apply app_eq_app in H. destruct H as [x [[-> ->]|[-> ->]]].
  - left. split; [apply bd_mid|rewrite blen_app; lia].
  - right. rewrite blen_app. split; [lia|]. replace (blen a + blen x - blen a) with (blen x) by lia. apply bd_mid.
Qed.

(* two ordered boundaries cut the string in three *)
Lemma bd2 s a e : bd s a -> bd s e -> a <= e ->
  exists l m r, s = l ++ m ++ r /\ a = blen l /\ e = blen l + blen m.
Proof.
  intros [l [r [-> ->]]] He Hle. destruct (bd_split _ _ _ He) as [[Hb Hle']|[_ Hb]].
  - assert (e = blen l) by lia. subst e. exists l, [], r. cbn. repeat split; lia.
  - destruct Hb as [m [r' [-> Hm]]]. exists l, m, r'. repeat split; lia.
Qed.

Lemma bd_bsplit s p : bd s p -> exists l r, bsplit s p = Some (l, r) /\ s = l ++ r /\ p = blen l.
Proof. intros [l [r [-> ->]]]. exists l, r. split; [apply bsplit_app|split; reflexivity]. Qed.

Lemma wf_bd b : wf b <-> bd (buf b) (pos b).
Proof. unfold wf, bd. reflexivity. Qed.

(* ---------- the string primitives at boundaries ---------- *)

Lemma slice_from_bd s a : bd s a -> exists l r, s = l ++ r /\ a = blen l /\ slice_from s a = Ok r.
Proof. intros [l [r [-> ->]]]. exists l, r. unfold slice_from. rewrite bsplit_app. repeat split. Qed.
Lemma slice_to_bd s a : bd s a -> exists l r, s = l ++ r /\ a = blen l /\ slice_to s a = Ok l.
Proof. intros [l [r [-> ->]]]. exists l, r. unfold slice_to. rewrite bsplit_app. repeat split. Qed.
Lemma slice_app l m r : slice (l ++ m ++ r) (blen l) (blen l + blen m) = Ok m.
Proof.
  unfold slice. replace (Nat.ltb (blen l + blen m) (blen l)) with false by (symmetry; apply Nat.ltb_ge; lia).
  rewrite bsplit_app. replace (blen l + blen m - blen l) with (blen m) by lia. rewrite bsplit_app. reflexivity.
Qed.
Lemma slice_bd s a e : bd s a -> bd s e -> a <= e ->
  exists l m r, s = l ++ m ++ r /\ a = blen l /\ e = blen l + blen m /\ slice s a e = Ok m.
Proof.
  intros Ha He Hle. destruct (bd2 s a e Ha He Hle) as [l [m [r [-> [-> ->]]]]].
  exists l, m, r. repeat split. apply slice_app.
Qed.

(* ---------- facts about the helper lists ---------- *)

Lemma char_hits_in c s : forall i0 i, In i (char_hits c s i0) -> exists a rest, s = a ++ c :: rest /\ i = i0 + blen a.
Proof.
  induction s as [|x s IH]; intros i0 i H; [destruct H|]. cbn [char_hits] in H.
  destruct (x =? c)%N eqn:E.
  - destruct H as [H|H].
    + apply N.eqb_eq in E. subst. exists [], s. split; [reflexivity|cbn; lia].
    + destruct (IH _ _ H) as [a [rest [-> ->]]]. exists (x :: a), rest. split; [reflexivity|cbn [blen]; lia].
  - destruct (IH _ _ H) as [a [rest [-> ->]]]. exists (x :: a), rest. split; [reflexivity|cbn [blen]; lia].
Qed.

Lemma last_opt_rev_nonnil {A} (l : list A) : l <> [] -> exists x, last_opt l = Some x.
Proof.
  induction l as [|a l IH]; [congruence|]. intros _. destruct l as [|b l]; [exists a; reflexivity|].
  destruct IH as [x Hx]; [discriminate|]. exists x. exact Hx.
Qed.

Section All.
  Variable seg : str -> list str.
  Hypothesis seg_concat : forall s, concat (seg s) = s.
  Hypothesis seg_nonempty : forall s g, In g (seg s) -> g <> [].

  Lemma seg_nonnil' r : r <> [] -> seg r <> [].
  Proof. intros Hr Hs. apply Hr. rewrite <- (seg_concat r), Hs. reflexivity. Qed.

  (* an indexed cluster of r: where it starts is a boundary of r, and the cluster follows it *)
  Lemma gi_in r i g : In (i, g) (gindices seg r) -> exists a c, r = a ++ g ++ c /\ i = blen a /\ g <> [].
  Proof.
    unfold gindices. intros H. destruct (in_index_from _ _ _ _ H) as [g1 [g2 [Hg ->]]].
    exists (concat g1), (concat g2). split; [|split; [reflexivity|]].
    - rewrite <- (seg_concat r) at 1. rewrite Hg, concat_app. reflexivity.
    - apply (seg_nonempty r). rewrite Hg. apply in_or_app. right. left. reflexivity.
  Qed.

  Lemma gi_bd r i g : In (i, g) (gindices seg r) -> bd r i.
  Proof. intros H. destruct (gi_in _ _ _ H) as [a [c [-> [-> _]]]]. apply bd_mid. Qed.

  (* ---------- word motions ---------- *)

  Section Words.
    Variable U : UData.

    Lemma pw_inner_in w : forall gis gj s rest,
      pw_inner U w gj gis = Some (s, rest) ->
      (exists g, In g (gj :: gis) /\ s = fst g) /\ incl rest gis.
    Proof.
      induction gis as [|gi gis IH]; intros gj s rest H; [discriminate|]. cbn [pw_inner] in H.
      destruct (is_start_of_word U w (snd gi) (snd gj)).
      - inversion H; subst. split; [exists gj; split; [left; reflexivity|reflexivity]|].
        intros x Hx. right. exact Hx.
      - destruct (IH _ _ _ H) as [[g [Hg ->]] Hi]. split.
        + exists g. split; [right; exact Hg|reflexivity].
        + intros x Hx. right. apply Hi. exact Hx.
    Qed.

    Lemma pw_outer_P (P : nat -> Prop) w : forall n gis sow,
      P 0 -> P sow -> (forall g, In g gis -> P (fst g)) -> P (pw_outer U w n gis sow).
    Proof.
      induction n as [|n IH]; intros gis sow H0 Hs Hg; [exact Hs|]. cbn [pw_outer].
      destruct gis as [|gj rest]; [exact H0|].
      destruct (pw_inner U w gj rest) as [[s rest']|] eqn:E; [|exact H0].
      destruct (pw_inner_in _ _ _ _ _ E) as [[g [Hin ->]] Hi].
      apply IH; [exact H0|apply Hg; exact Hin|]. intros x Hx. apply Hg. right. apply Hi. exact Hx.
    Qed.

    Lemma prev_word_pos_ok b p w n :
      bd (buf b) p ->
      exists o, prev_word_pos U seg b p w n = Ok o /\ forall q, o = Some q -> bd (buf b) q /\ q <= p.
    Proof.
      intros Hp. unfold prev_word_pos. destruct (Nat.eqb p 0); [exists None; split; [reflexivity|discriminate]|].
      destruct (slice_to_bd _ _ Hp) as [l [r [Hb [-> ->]]]].
      eexists. split; [reflexivity|]. intros q Hq. inversion Hq; subst q. clear Hq.
      apply (pw_outer_P (fun q => bd (buf b) q /\ q <= blen l)).
      - split; [apply bd_0|lia].
      - split; [apply bd_0|lia].
      - intros [i g] Hin. apply in_rev in Hin. cbn [fst]. pose proof (gi_bd _ _ _ Hin) as Hbd.
        split; [rewrite Hb; apply bd_app_l; exact Hbd|apply bd_le; exact Hbd].
    Qed.

    Lemma nw_inner_in a w : forall gis gi r gi',
      nw_inner U a w gi gis = (r, gi') ->
      In gi' (gi :: gis)
      /\ match r with
         | Some (wp, rest) => (exists g, In g (gi :: gis) /\ wp = fst g) /\ incl rest gis
         | None => True
         end.
    Proof.
      induction gis as [|gj gis IH]; intros gi r gi' H; cbn [nw_inner] in H.
      { inversion H; subst. split; [left; reflexivity|exact I]. }
      destruct (at_is_start a && is_start_of_word U w (snd gi) (snd gj)).
      { inversion H; subst. split; [left; reflexivity|]. split.
        - exists gj. split; [right; left; reflexivity|reflexivity].
        - intros x Hx. right. exact Hx. }
      destruct (negb (at_is_start a) && is_end_of_word U w (snd gi) (snd gj)).
      { inversion H; subst. split; [left; reflexivity|]. split.
        - destruct (is_emacs w || at_is_after a).
          + exists gj. split; [right; left; reflexivity|reflexivity].
          + exists gi'. split; [left; reflexivity|reflexivity].
        - intros x Hx. right. exact Hx. }
      destruct (IH _ _ _ H) as [Hg Hr]. split; [right; exact Hg|].
      destruct r as [[wp rest]|]; [|exact I]. destruct Hr as [[g [Hin ->]] Hi]. split.
      - exists g. split; [right; exact Hin|reflexivity].
      - intros x Hx. right. apply Hi. exact Hx.
    Qed.

    Lemma nw_outer_in a w : forall n gis wp0 gi0 wp gi,
      nw_outer U a w n gis wp0 gi0 = (wp, gi) ->
      (wp = 0 \/ wp = wp0 \/ exists g, In g gis /\ wp = fst g)
      /\ (gi = None \/ gi = gi0 \/ exists g, In g gis /\ gi = Some g).
    Proof.
      induction n as [|n IH]; intros gis wp0 gi0 wp gi H; cbn [nw_outer] in H.
      { inversion H; subst. split; right; left; reflexivity. }
      destruct gis as [|g rest]. { inversion H; subst. split; left; reflexivity. }
      destruct (nw_inner U a w g rest) as [[[wp' rest']|] g'] eqn:E.
      - destruct (nw_inner_in _ _ _ _ _ _ E) as [Hg' [[gx [Hgx ->]] Hi]].
        destruct (IH _ _ _ _ _ H) as [Hw Hg]. split.
        + destruct Hw as [->|[->|[gy [Hgy ->]]]]; [left; reflexivity|right; right; exists gx; split; [exact Hgx|reflexivity]|].
          right. right. exists gy. split; [right; apply Hi; exact Hgy|reflexivity].
        + destruct Hg as [->|[->|[gy [Hgy ->]]]]; [left; reflexivity|right; right; exists g'; split; [exact Hg'|reflexivity]|].
          right. right. exists gy. split; [right; apply Hi; exact Hgy|reflexivity].
      - destruct (nw_inner_in _ _ _ _ _ _ E) as [Hg' _]. inversion H; subst.
        split; [left; reflexivity|]. right. right. exists g'. split; [exact Hg'|reflexivity].
    Qed.

    Lemma next_word_pos_ok b p a w n :
      bd (buf b) p ->
      exists o, next_word_pos U seg b p a w n = Ok o /\ forall q, o = Some q -> bd (buf b) q /\ p <= q.
    Proof.
      intros Hp. unfold next_word_pos.
      destruct (Nat.eqb p (lb_len b)); [exists None; split; [reflexivity|discriminate]|].
      destruct (slice_from_bd _ _ Hp) as [l [r [Hb [-> ->]]]].
      set (gis := gindices seg r).
      assert (Hall : forall g, In g gis -> bd (buf b) (fst g + blen l) /\ blen l <= fst g + blen l).
      { intros [i g] Hin. cbn [fst]. split; [|lia]. rewrite Hb, Nat.add_comm. apply bd_app_r. apply (gi_bd _ _ _ Hin). }
      destruct (if at_is_before a then match gis with [] => (None, []) | g :: t => (Some g, t) end else (None, gis))
        as [gi0 gis0] eqn:E0.
      assert (Hsub : incl gis0 gis /\ (forall g, gi0 = Some g -> In g gis)).
      { destruct (at_is_before a).
        - destruct gis as [|g t]; inversion E0; subst.
          + split; [intros x Hx; exact Hx|discriminate].
          + split; [intros x Hx; right; exact Hx|]. intros g' Hg'. inversion Hg'; subst. left. reflexivity.
        - inversion E0; subst. split; [intros x Hx; exact Hx|discriminate]. }
      destruct Hsub as [Hsub Hgi0].
      destruct (nw_outer U a w n gis0 0 gi0) as [wp gi] eqn:E.
      destruct (nw_outer_in _ _ _ _ _ _ _ _ E) as [Hw Hg].
      eexists. split; [reflexivity|]. intros q Hq.
      assert (Hlen : bd (buf b) (lb_len b) /\ blen l <= lb_len b).
      { split; [apply bd_len|]. unfold lb_len. rewrite Hb, blen_app. lia. }
      destruct (Nat.eqb wp 0) eqn:Ew.
      - destruct (is_emacs w || at_is_after a); [inversion Hq; subst; exact Hlen|].
        destruct gi as [[i s]|]; [|discriminate]. destruct (Nat.eqb i 0); [discriminate|]. inversion Hq; subst.
        assert (Hin : In (i, s) gis).
        { destruct Hg as [Hg|[Hg|[g [Hgin Hg]]]]; [discriminate|apply Hgi0; symmetry; exact Hg|].
          inversion Hg; subst. apply Hsub. exact Hgin. }
        apply (Hall _ Hin).
      - inversion Hq; subst. destruct Hw as [->|[->|[g [Hgin ->]]]]; [discriminate|discriminate|].
        apply Hall. apply Hsub. exact Hgin.
    Qed.
  End Words.

  (* ---------- character search ---------- *)

  Lemma last_firstn_in {A} n (l : list A) x : last_opt (firstn n l) = Some x -> In x l.
  Proof. intros H. apply last_opt_in, firstn_in in H. exact H. Qed.

  Lemma search_char_pos_ok b cs n :
    wf b ->
    exists o, search_char_pos seg b cs n = Ok o
              /\ forall q, o = Some q ->
                 bd (buf b) q
                 /\ match cs with
                    | CsForward c => pos b <= q /\ bd (buf b) (q + clen c)
                    | CsForwardBefore _ => True
                    | CsBackward _ | CsBackwardAfter _ => q <= pos b
                    end.
  Proof.
    intros [l [r [Hb Hp]]].
    assert (Hback : forall c, exists o, (match last_opt (firstn n (rev (char_hits c l 0))) with
                                         | None => Ok None
                                         | Some p => Ok (Some p)
                                         end = Ok o)
                              /\ forall p, last_opt (firstn n (rev (char_hits c l 0))) = Some p ->
                                           exists a x, l = a ++ c :: x /\ p = blen a).
    { intros c. destruct (last_opt (firstn n (rev (char_hits c l 0)))) as [p|] eqn:E.
      - eexists. split; [reflexivity|]. intros p' Hp'. inversion Hp'; subst p'.
        apply last_firstn_in, in_rev in E. destruct (char_hits_in _ _ _ _ E) as [a [x [-> ->]]].
        exists a, x. split; reflexivity.
      - eexists. split; [reflexivity|]. discriminate. }
    assert (Hfwd : forall c (before : bool),
      exists o, (if Nat.eqb (pos b) (lb_len b) then Ok None
                 else match slice_from (buf b) (pos b) with
                      | Panic => Panic
                      | Ok r =>
                        match seg r with
                        | [] => Ok None
                        | cc :: _ =>
                          let shift := pos b + blen cc in
                          if Nat.ltb shift (lb_len b) then
                            match slice_from (buf b) shift with
                            | Panic => Panic
                            | Ok r2 =>
                              match last_opt (firstn n (char_hits c r2 0)) with
                              | None => Ok None
                              | Some p =>
                                if before then
                                  match slice_to (buf b) (shift + p) with
                                  | Panic => Panic
                                  | Ok l2 => match rev (seg l2) with
                                             | g :: _ => Ok (Some (shift + p - blen g))
                                             | [] => Ok (Some (shift + p))
                                             end
                                  end
                                else Ok (Some (shift + p))
                              end
                            end
                          else Ok None
                        end
                      end) = Ok o
                /\ forall q, o = Some q -> bd (buf b) q /\ (before = false -> pos b <= q /\ bd (buf b) (q + clen c))).
    { intros c before. destruct (Nat.eqb (pos b) (lb_len b)); [exists None; split; [reflexivity|discriminate]|].
      unfold slice_from at 1. rewrite (wf_bsplit b l r Hb Hp).
      destruct (seg r) as [|cc t] eqn:Es; [exists None; split; [reflexivity|discriminate]|].
      assert (Hr : r = cc ++ concat t) by (rewrite <- (seg_concat r), Es; reflexivity).
      cbv zeta. destruct (Nat.ltb (pos b + blen cc) (lb_len b)); [|exists None; split; [reflexivity|discriminate]].
      assert (Hb2 : buf b = (l ++ cc) ++ concat t) by (rewrite Hb, Hr, app_assoc; reflexivity).
      assert (Hs : pos b + blen cc = blen (l ++ cc)) by (rewrite blen_app, Hp; reflexivity).
      rewrite Hs.
      assert (Hsf : slice_from (buf b) (blen (l ++ cc)) = Ok (concat t))
        by (unfold slice_from; rewrite Hb2, bsplit_app; reflexivity).
      rewrite Hsf.
      destruct (last_opt (firstn n (char_hits c (concat t) 0))) as [p|] eqn:E;
        [|exists None; split; [reflexivity|discriminate]].
      apply last_firstn_in in E. destruct (char_hits_in _ _ _ _ E) as [a [x [Ht ->]]]. cbn [plus].
      assert (Hb3 : buf b = ((l ++ cc) ++ a) ++ c :: x) by (rewrite Hb2, Ht, app_assoc; reflexivity).
      assert (Hq : blen (l ++ cc) + blen a = blen ((l ++ cc) ++ a)) by (symmetry; apply blen_app).
      assert (Hbdq : bd (buf b) (blen ((l ++ cc) ++ a))) by (rewrite Hb3; apply bd_mid).
      assert (Hbdc : bd (buf b) (blen ((l ++ cc) ++ a) + clen c)).
      { replace (blen ((l ++ cc) ++ a) + clen c) with (blen (((l ++ cc) ++ a) ++ [c])) by (rewrite (blen_app _ [c]); cbn [blen]; lia).
        replace (buf b) with ((((l ++ cc) ++ a) ++ [c]) ++ x) by (rewrite Hb3, <- (app_assoc _ [c] x); reflexivity).
        apply bd_mid. }
      rewrite Hq. destruct before.
      - assert (Hst : slice_to (buf b) (blen ((l ++ cc) ++ a)) = Ok ((l ++ cc) ++ a))
          by (unfold slice_to; rewrite Hb3, bsplit_app; reflexivity).
        rewrite Hst.
        destruct (rev (seg ((l ++ cc) ++ a))) as [|g t'] eqn:Er.
        + eexists. split; [reflexivity|]. intros q Hq'. inversion Hq'; subst q. split; [exact Hbdq|discriminate].
        + eexists. split; [reflexivity|]. intros q Hq'. inversion Hq'; subst q. split; [|discriminate].
          assert (Hl2 : (l ++ cc) ++ a = concat (rev t') ++ g).
          { rewrite <- (seg_concat ((l ++ cc) ++ a)) at 1. rewrite <- (rev_involutive (seg ((l ++ cc) ++ a))), Er.
            cbn [rev]. rewrite concat_app. cbn [concat]. rewrite app_nil_r. reflexivity. }
          rewrite Hl2, blen_app. replace (blen (concat (rev t')) + blen g - blen g) with (blen (concat (rev t'))) by lia.
          rewrite Hb3, Hl2, <- app_assoc. apply bd_mid.
      - eexists. split; [reflexivity|]. intros q Hq'. inversion Hq'; subst q. split; [exact Hbdq|]. intros _.
        split; [rewrite <- Hq, blen_app, Hp; lia|exact Hbdc]. }
    destruct cs as [c|c|c|c]; unfold search_char_pos.
    - destruct (Hfwd c false) as [o [Ho Hq]]. exists o. split; [exact Ho|]. intros q Hq'.
      destruct (Hq q Hq') as [H1 H2]. split; [exact H1|apply H2; reflexivity].
    - destruct (Hfwd c true) as [o [Ho Hq]]. exists o. split; [exact Ho|]. intros q Hq'.
      destruct (Hq q Hq') as [H1 _]. split; [exact H1|exact I].
    - unfold slice_to. rewrite (wf_bsplit b l r Hb Hp). destruct (Hback c) as [o [Ho Hq]].
      destruct (last_opt (firstn n (rev (char_hits c l 0)))) as [p|]; inversion Ho; subst o.
      + eexists. split; [reflexivity|]. intros q Hq'. inversion Hq'; subst q.
        destruct (Hq p eq_refl) as [a [x [-> ->]]]. split; [rewrite Hb, <- app_assoc; apply bd_mid|].
        rewrite Hp, blen_app. lia.
      + eexists. split; [reflexivity|]. discriminate.
    - unfold slice_to. rewrite (wf_bsplit b l r Hb Hp). destruct (Hback c) as [o [Ho Hq]].
      destruct (last_opt (firstn n (rev (char_hits c l 0)))) as [p|]; inversion Ho; subst o.
      + eexists. split; [reflexivity|]. intros q Hq'. inversion Hq'; subst q.
        destruct (Hq p eq_refl) as [a [x [-> ->]]].
        replace (blen a + clen c) with (blen (a ++ [c])) by (rewrite blen_app; cbn [blen]; lia).
        split.
        * rewrite Hb. replace ((a ++ c :: x) ++ r) with ((a ++ [c]) ++ x ++ r) by (rewrite <- !app_assoc; reflexivity).
          apply bd_mid.
        * rewrite Hp. replace (a ++ c :: x) with ((a ++ [c]) ++ x) by (rewrite <- app_assoc; reflexivity).
          rewrite (blen_app (a ++ [c]) x). lia.
      + eexists. split; [reflexivity|]. discriminate.
  Qed.

  (* ---------- line ranges (n_lines_up / n_lines_down) ---------- *)

  Lemma lines_up_loop_ok s : forall n start,
    (exists x y, s = x ++ LF :: y /\ start = blen x + 1) ->
    exists q, lines_up_loop s n start = Ok q /\ bd s q /\ q <= start.
  Proof.
    induction n as [|n IH]; intros start [x [y [Hs Hst]]]; cbn [lines_up_loop].
    - exists start. split; [reflexivity|]. split; [|lia].
      subst. replace (blen x + 1) with (blen (x ++ [LF])) by (rewrite blen_app; reflexivity).
      replace (x ++ LF :: y) with ((x ++ [LF]) ++ y) by (rewrite <- app_assoc; reflexivity). apply bd_mid.
    - replace (Nat.eqb start 0) with false by (symmetry; apply Nat.eqb_neq; lia).
      replace (start - 1) with (blen x) by lia.
      assert (Hsl : slice_to s (blen x) = Ok x) by (unfold slice_to; rewrite Hs, bsplit_app; reflexivity).
      rewrite Hsl. destruct (rfind_char LF x) as [off|] eqn:E.
      + destruct (rfind_char_spec _ _ _ E) as [a [c [Hx ->]]].
        destruct (IH (blen a + 1)) as [q [Hq [Hbd Hle]]].
        { exists a, (c ++ LF :: y). split; [rewrite Hs, Hx, <- app_assoc; reflexivity|reflexivity]. }
        exists q. split; [exact Hq|]. split; [exact Hbd|]. rewrite Hx, blen_app in Hst. cbn [blen] in Hst. lia.
      + exists 0. split; [reflexivity|]. split; [apply bd_0|lia].
  Qed.

  Lemma n_lines_up_ok b n :
    wf b ->
    exists o, n_lines_up b n = Ok o
              /\ forall s e, o = Some (s, e) -> bd (buf b) s /\ bd (buf b) e /\ s <= e.
  Proof.
    intros [l [r [Hb Hp]]]. unfold n_lines_up, slice_to, slice_from. rewrite (wf_bsplit b l r Hb Hp).
    destruct (rfind_char LF l) as [off|] eqn:E; [|exists None; split; [reflexivity|discriminate]].
    destruct (rfind_char_spec _ _ _ E) as [a [c [Hl ->]]].
    destruct (lines_up_loop_ok (buf b) n (blen a + 1)) as [q [Hq [Hbd Hle]]].
    { exists a, (c ++ r). split; [rewrite Hb, Hl, <- app_assoc; reflexivity|reflexivity]. }
    rewrite Hq. eexists. split; [reflexivity|]. intros s e Hse. inversion Hse; subst s e. clear Hse.
    split; [exact Hbd|].
    assert (Hpos : blen a + 1 <= pos b) by (rewrite Hp, Hl, blen_app; cbn [blen]; change (clen LF) with 1; lia).
    destruct (find_char LF r) as [k|] eqn:Ef.
    - destruct (find_char_spec _ _ _ Ef) as [a' [c' [Hr [-> _]]]]. split; [|lia].
      replace (pos b + blen a' + 1) with (blen ((l ++ a') ++ [LF])) by (rewrite !blen_app, Hp; reflexivity).
      replace (buf b) with (((l ++ a') ++ [LF]) ++ c') by (rewrite Hb, Hr, <- !app_assoc; reflexivity).
      apply bd_mid.
    - split; [apply bd_len|]. pose proof (bd_le _ _ (proj1 (wf_bd b) (ex_intro _ l (ex_intro _ r (conj Hb Hp))))).
      unfold lb_len. lia.
  Qed.

  Lemma lines_down_loop_ok s : forall n e,
    bd s e -> exists q, lines_down_loop s (blen s) n e = Ok q /\ bd s q /\ e <= q.
  Proof.
    induction n as [|n IH]; intros e He; cbn [lines_down_loop].
    - exists e. split; [reflexivity|]. split; [exact He|lia].
    - destruct (slice_from_bd _ _ He) as [l [r [Hs [-> ->]]]].
      destruct (find_char LF r) as [off|] eqn:E.
      + destruct (find_char_spec _ _ _ E) as [a [c [Hr [-> _]]]].
        destruct (IH (blen l + blen a + 1)) as [q [Hq [Hbd Hle]]].
        { replace (blen l + blen a + 1) with (blen ((l ++ a) ++ [LF])) by (rewrite !blen_app; reflexivity).
          replace s with (((l ++ a) ++ [LF]) ++ c) by (rewrite Hs, Hr, <- !app_assoc; reflexivity). apply bd_mid. }
        exists q. split; [exact Hq|]. split; [exact Hbd|lia].
      + exists (blen s). split; [reflexivity|]. split; [apply bd_len|]. rewrite Hs, blen_app. lia.
  Qed.

  Lemma n_lines_down_ok b n :
    wf b ->
    exists o, n_lines_down b n = Ok o
              /\ forall s e, o = Some (s, e) -> bd (buf b) s /\ bd (buf b) e /\ s <= e.
  Proof.
    intros [l [r [Hb Hp]]]. unfold n_lines_down, slice_to, slice_from. rewrite (wf_bsplit b l r Hb Hp).
    destruct (find_char LF r) as [off|] eqn:E; [|exists None; split; [reflexivity|discriminate]].
    destruct (find_char_spec _ _ _ E) as [a [c [Hr [-> _]]]].
    destruct (lines_down_loop_ok (buf b) n (pos b + blen a + 1)) as [q [Hq [Hbd Hle]]].
    { replace (pos b + blen a + 1) with (blen ((l ++ a) ++ [LF])) by (rewrite !blen_app, Hp; reflexivity).
      replace (buf b) with (((l ++ a) ++ [LF]) ++ c) by (rewrite Hb, Hr, <- !app_assoc; reflexivity). apply bd_mid. }
    unfold lb_len. rewrite Hq. eexists. split; [reflexivity|]. intros s e Hse. inversion Hse; subst s e. clear Hse.
    split; [|split; [exact Hbd|]].
    - destruct (rfind_char LF l) as [i|] eqn:Er; [|apply bd_0].
      destruct (rfind_char_spec _ _ _ Er) as [a' [c' [Hl ->]]].
      replace (blen a' + 1) with (blen (a' ++ [LF])) by (rewrite blen_app; reflexivity).
      replace (buf b) with ((a' ++ [LF]) ++ c' ++ r) by (rewrite Hb, Hl, <- !app_assoc; reflexivity). apply bd_mid.
    - assert (match rfind_char LF l with Some i => i + 1 | None => 0 end <= pos b); [|lia].
      destruct (rfind_char LF l) as [i|] eqn:Er; [|lia].
      destruct (rfind_char_spec _ _ _ Er) as [a' [c' [Hl ->]]]. rewrite Hp, Hl, blen_app. cbn [blen]. change (clen LF) with 1. lia.
  Qed.

  (* ---------- skip_whitespace / vi_first_print_pos ---------- *)

  Section Words2.
    Variable U : UData.

    Lemma first_alnum_in gis i : first_alnum U gis = Some i -> exists g, In (i, g) gis.
    Proof.
      induction gis as [|[j g] t IH]; [discriminate|]. cbn [first_alnum]. destruct (all_alnum U g).
      - intros H; inversion H; subst. exists g. left. reflexivity.
      - intros H. destruct (IH H) as [g' Hg']. exists g'. right. exact Hg'.
    Qed.

    Lemma skip_whitespace_ok b :
      wf b -> exists o, skip_whitespace U seg b = Ok o /\ forall q, o = Some q -> bd (buf b) q /\ pos b <= q.
    Proof.
      intros [l [r [Hb Hp]]]. unfold skip_whitespace, slice_from.
      destruct (Nat.eqb (pos b) (lb_len b)); [exists None; split; [reflexivity|discriminate]|].
      rewrite (wf_bsplit b l r Hb Hp). eexists. split; [reflexivity|].
      intros q Hq. destruct (first_alnum U (gindices seg r)) as [i|] eqn:E; [|discriminate]. inversion Hq; subst q.
      destruct (first_alnum_in _ _ E) as [g Hg]. split; [|lia].
      rewrite Hb, Hp, Nat.add_comm. apply bd_app_r. apply (gi_bd _ _ _ Hg).
    Qed.

    Lemma vi_first_print_pos_ok b :
      wf b -> exists o, vi_first_print_pos U seg b = Ok o /\ forall q, o = Some q -> bd (buf b) q.
    Proof.
      intros Hw. unfold vi_first_print_pos.
      assert (H0 : exists o, Ok (Some 0) = Ok o /\ forall q, o = Some q -> bd (buf b) q).
      { eexists. split; [reflexivity|]. intros q Hq. inversion Hq. apply bd_0. }
      destruct (buf b) as [|c t] eqn:Eb; [exact H0|]. destruct (u_is_whitespace U c); [|exact H0].
      destruct (next_word_pos_ok U b 0 AtStart WBig 1) as [o [Ho Hq]]; [rewrite Eb; apply bd_0|].
      rewrite Ho. destruct o as [q0|]; [|eexists; split; [reflexivity|]; intros q Hq'; inversion Hq'; apply bd_0].
      exists (Some q0). split; [reflexivity|]. intros q Hq'. rewrite <- Eb. apply (Hq q Hq').
    Qed.
  End Words2.

  (* ---------- a small Hoare logic over the buffer monad ---------- *)

  Definition hoare {A} (P : lb -> Prop) (m : M A) (Q : A -> lb -> Prop) : Prop :=
    forall b, P b -> exists a b' ev, m b = Ok (a, b', ev) /\ Q a b'.

  Lemma h_bind {A B} (P : lb -> Prop) (m : M A) (Q : A -> lb -> Prop) (f : A -> M B) (R : B -> lb -> Prop) :
    hoare P m Q -> (forall a, hoare (Q a) (f a) R) -> hoare P (bind m f) R.
  Proof.
    intros Hm Hf b Hb. destruct (Hm b Hb) as [a [b1 [e1 [H1 HQ]]]].
    destruct (Hf a b1 HQ) as [r [b2 [e2 [H2 HR]]]].
    unfold bind. rewrite H1, H2. eexists _, _, _. split; [reflexivity|exact HR].
  Qed.
  Lemma h_conseq {A} (P P' : lb -> Prop) (m : M A) (Q Q' : A -> lb -> Prop) :
    hoare P' m Q' -> (forall b, P b -> P' b) -> (forall a b, Q' a b -> Q a b) -> hoare P m Q.
  Proof.
    intros H HP HQ b Hb. destruct (H b (HP b Hb)) as [a [b' [ev [H1 H2]]]].
    eexists _, _, _. split; [exact H1|apply HQ; exact H2].
  Qed.
  Lemma h_ret {A} (a : A) (P : lb -> Prop) (Q : A -> lb -> Prop) : (forall b, P b -> Q a b) -> hoare P (ret a) Q.
  Proof. intros H b Hb. eexists _, _, _. split; [reflexivity|apply H; exact Hb]. Qed.
  Lemma h_get (P : lb -> Prop) (Q : lb -> lb -> Prop) : (forall b, P b -> Q b b) -> hoare P get Q.
  Proof. intros H b Hb. eexists _, _, _. split; [reflexivity|apply H; exact Hb]. Qed.
  Lemma h_put_pos p (P : lb -> Prop) (Q : unit -> lb -> Prop) :
    (forall b, P b -> Q tt (set_pos' b p)) -> hoare P (put_pos p) Q.
  Proof. intros H b Hb. eexists _, _, _. split; [reflexivity|apply H; exact Hb]. Qed.
  Lemma h_emit e (P : lb -> Prop) (Q : unit -> lb -> Prop) : (forall b, P b -> Q tt b) -> hoare P (emit e) Q.
  Proof. intros H b Hb. eexists _, _, _. split; [reflexivity|apply H; exact Hb]. Qed.
  Lemma h_lift {A} (r : res A) (P : lb -> Prop) (Q : A -> lb -> Prop) :
    (forall b, P b -> exists a, r = Ok a /\ Q a b) -> hoare P (lift r) Q.
  Proof.
    intros H b Hb. destruct (H b Hb) as [a [-> HQ]]. eexists _, _, _. split; [reflexivity|exact HQ].
  Qed.
  Lemma h_total {A} (m : M A) : total_wf m -> hoare wf m (fun _ => wf).
  Proof. intros H. exact H. Qed.
  Lemma total_bind {A B} (m : M A) (f : A -> M B) : total_wf m -> (forall a, total_wf (f a)) -> total_wf (bind m f).
  Proof. intros Hm Hf. apply (h_bind wf m (fun _ => wf) f (fun _ => wf)); [exact Hm|exact Hf]. Qed.
  Lemma total_ret {A} (a : A) : total_wf (ret a).
  Proof. apply h_ret. auto. Qed.
  (* frame: the buffer a pure step was computed from is still the current one *)
  Lemma h_frame {A} (m : M A) (P : lb -> Prop) (Q : A -> lb -> Prop) :
    (forall b0, P b0 -> hoare (fun b => b = b0) m Q) -> hoare P m Q.
  Proof. intros H b Hb. apply (H b Hb). reflexivity. Qed.

  Lemma hoare_at {A} (m : M A) b (Q : A -> lb -> Prop) :
    hoare (fun b1 => b1 = b) m Q -> exists a b' ev, m b = Ok (a, b', ev) /\ Q a b'.
  Proof. intros H. exact (H b eq_refl). Qed.

  Lemma bind_step {A B} (m : M A) (f : A -> M B) b a b1 e1 (Q : B -> lb -> Prop) :
    m b = Ok (a, b1, e1) -> (exists r b2 e2, f a b1 = Ok (r, b2, e2) /\ Q r b2) ->
    exists r b2 ev, bind m f b = Ok (r, b2, ev) /\ Q r b2.
  Proof.
    intros H1 [r [b2 [e2 [H2 HQ]]]]. unfold bind. rewrite H1, H2. eexists _, _, _. split; [reflexivity|exact HQ].
  Qed.

  Lemma drain_bd b a e d :
    bd (buf b) a -> bd (buf b) e -> a <= e ->
    exists l m r, buf b = l ++ m ++ r /\ a = blen l /\ e = blen l + blen m
                  /\ drain a e d b = Ok (m, set_buf b (l ++ r), [EDelete a m d]).
  Proof.
    intros Ha He Hle. destruct (bd2 _ _ _ Ha He Hle) as [l [m [r [Hb [-> ->]]]]].
    exists l, m, r. repeat split; try assumption. apply drain_ok. exact Hb.
  Qed.

  (* drain [a, e) when the cursor is, or is then put, at a *)
  Lemma drain_wf b a e d :
    bd (buf b) a -> bd (buf b) e -> a <= e ->
    exists m b', drain a e d b = Ok (m, b', [EDelete a m d]) /\ bd (buf b') a /\ pos b' = pos b
                 /\ cap b' = cap b /\ grow b' = grow b.
  Proof.
    intros Ha He Hle. destruct (drain_bd b a e d Ha He Hle) as [l [m [r [Hb [-> [-> Hd]]]]]].
    eexists _, _. split; [exact Hd|]. cbn. split; [apply bd_mid|repeat split].
  Qed.

  Section Ops.
    Variable U : UData.

    Theorem move_to_prev_word_total w n : total_wf (move_to_prev_word U seg w n).
    Proof.
      intros b Hw. unfold move_to_prev_word, bind, get, lift.
      destruct (prev_word_pos_ok U b (pos b) w n Hw) as [o [-> Ho]]. destruct o as [q|].
      - destruct (Ho q eq_refl) as [Hbd _]. cbn [put_pos ret]. eexists _, _, _. split; [reflexivity|exact Hbd].
      - eexists _, _, _. split; [reflexivity|exact Hw].
    Qed.

    Theorem move_to_next_word_total a w n : total_wf (move_to_next_word U seg a w n).
    Proof.
      intros b Hw. unfold move_to_next_word, bind, get, lift.
      destruct (next_word_pos_ok U b (pos b) a w n Hw) as [o [-> Ho]]. destruct o as [q|].
      - destruct (Ho q eq_refl) as [Hbd _]. cbn [put_pos ret]. eexists _, _, _. split; [reflexivity|exact Hbd].
      - eexists _, _, _. split; [reflexivity|exact Hw].
    Qed.

    Theorem delete_prev_word_total w n : total_wf (delete_prev_word U seg w n).
    Proof.
      intros b Hw. unfold delete_prev_word, bind, get, lift.
      destruct (prev_word_pos_ok U b (pos b) w n Hw) as [o [-> Ho]]. destruct o as [q|].
      - destruct (Ho q eq_refl) as [Hbd Hle].
        destruct (drain_wf b q (pos b) DBackward Hbd Hw Hle) as [m [b' [-> [Hb' _]]]].
        cbn [put_pos ret]. eexists _, _, _. split; [reflexivity|exact Hb'].
      - eexists _, _, _. split; [reflexivity|exact Hw].
    Qed.

    Theorem delete_word_total a w n : total_wf (delete_word U seg a w n).
    Proof.
      intros b Hw. unfold delete_word, bind, get, lift.
      destruct (next_word_pos_ok U b (pos b) a w n Hw) as [o [-> Ho]]. destruct o as [q|].
      - destruct (Ho q eq_refl) as [Hbd Hle].
        destruct (drain_wf b (pos b) q DForward Hw Hbd Hle) as [m [b' [-> [Hb' [Hp' _]]]]].
        cbn [ret]. eexists _, _, _. split; [reflexivity|]. unfold wf. rewrite Hp'. exact Hb'.
      - eexists _, _, _. split; [reflexivity|exact Hw].
    Qed.

    Theorem move_to_total cs n : total_wf (move_to seg cs n).
    Proof.
      intros b Hw. unfold move_to, bind, get, lift.
      destruct (search_char_pos_ok b cs n Hw) as [o [-> Ho]]. destruct o as [q|].
      - destruct (Ho q eq_refl) as [Hbd _]. cbn [put_pos ret]. eexists _, _, _. split; [reflexivity|exact Hbd].
      - eexists _, _, _. split; [reflexivity|exact Hw].
    Qed.

    Theorem delete_to_total cs n : total_wf (delete_to seg cs n).
    Proof.
      intros b Hw. unfold delete_to. unfold bind at 1. unfold get at 1. unfold bind at 1. unfold lift.
      destruct cs as [c|c|c|c].
      - destruct (search_char_pos_ok b (CsForward c) n Hw) as [o [-> Ho]]. destruct o as [q|].
        + destruct (Ho q eq_refl) as [Hbd [Hle Hbd2]].
          destruct (drain_wf b (pos b) (q + clen c) DForward Hw Hbd2 ltac:(lia)) as [m [b' [Hd [Hb' [Hp' _]]]]].
          unfold bind. rewrite Hd. cbn [ret]. eexists _, _, _. split; [reflexivity|]. unfold wf. rewrite Hp'. exact Hb'.
        + eexists _, _, _. split; [reflexivity|exact Hw].
      - destruct (search_char_pos_ok b (CsForward c) n Hw) as [o [-> Ho]]. destruct o as [q|].
        + destruct (Ho q eq_refl) as [Hbd [Hle Hbd2]].
          destruct (drain_wf b (pos b) q DForward Hw Hbd Hle) as [m [b' [Hd [Hb' [Hp' _]]]]].
          unfold bind. rewrite Hd. cbn [ret]. eexists _, _, _. split; [reflexivity|]. unfold wf. rewrite Hp'. exact Hb'.
        + eexists _, _, _. split; [reflexivity|exact Hw].
      - destruct (search_char_pos_ok b (CsBackward c) n Hw) as [o [-> Ho]]. destruct o as [q|].
        + destruct (Ho q eq_refl) as [Hbd Hle].
          destruct (drain_wf (set_pos' b q) q (pos b) DBackward Hbd Hw Hle) as [m [b' [Hd [Hb' [Hp' _]]]]].
          unfold bind, put_pos. rewrite Hd. cbn [ret]. eexists _, _, _. split; [reflexivity|]. unfold wf. rewrite Hp'. exact Hb'.
        + eexists _, _, _. split; [reflexivity|exact Hw].
      - destruct (search_char_pos_ok b (CsBackwardAfter c) n Hw) as [o [-> Ho]]. destruct o as [q|].
        + destruct (Ho q eq_refl) as [Hbd Hle].
          destruct (drain_wf (set_pos' b q) q (pos b) DBackward Hbd Hw Hle) as [m [b' [Hd [Hb' [Hp' _]]]]].
          unfold bind, put_pos. rewrite Hd. cbn [ret]. eexists _, _, _. split; [reflexivity|]. unfold wf. rewrite Hp'. exact Hb'.
        + eexists _, _, _. split; [reflexivity|exact Hw].
    Qed.

    (* ---------- operations on raw byte offsets, under their documented preconditions ---------- *)

    Theorem set_pos_total p : hoare (fun b => bd (buf b) p) (set_pos p) (fun _ b => wf b).
    Proof.
      intros b Hp. unfold set_pos, bind, get.
      replace (Nat.ltb (lb_len b) p) with false by (symmetry; apply Nat.ltb_ge; apply bd_le; exact Hp).
      cbn [put_pos]. eexists _, _, _. split; [reflexivity|exact Hp].
    Qed.

    Theorem delete_range_total a e :
      hoare (fun b => bd (buf b) a /\ bd (buf b) e /\ a <= e) (delete_range a e) (fun _ b => wf b).
    Proof.
      intros b [Ha [He Hle]]. unfold delete_range, set_pos, bind, get.
      replace (Nat.ltb (lb_len b) a) with false by (symmetry; apply Nat.ltb_ge; apply bd_le; exact Ha).
      cbn [put_pos]. destruct (drain_wf (set_pos' b a) a e DForward Ha He Hle) as [m [b' [Hd [Hb' [Hp' _]]]]].
      rewrite Hd. cbn [ret]. eexists _, _, _. split; [reflexivity|]. unfold wf. rewrite Hp'. exact Hb'.
    Qed.

    Theorem replace_total a e text :
      hoare (fun b => bd (buf b) a /\ bd (buf b) e /\ a <= e) (replace a e text) (fun _ b => wf b).
    Proof.
      intros b [Ha [He Hle]]. unfold replace, replace_range.
      destruct (bd2 _ _ _ Ha He Hle) as [l [m [r [Hb [-> ->]]]]].
      rewrite Hb, slice_app. unfold str_drain.
      replace (Nat.ltb (blen l + blen m) (blen l)) with false by (symmetry; apply Nat.ltb_ge; lia).
      rewrite bsplit_app. replace (blen l + blen m - blen l) with (blen m) by lia. rewrite bsplit_app.
      unfold str_insert. rewrite bsplit_app. eexists _, _, _. split; [reflexivity|].
      exists (l ++ text), r. cbn. split; [rewrite <- app_assoc; reflexivity|symmetry; apply blen_app].
    Qed.

    Theorem insert_str_total idx s :
      hoare (fun b => wf b /\ bd (buf b) idx /\ pos b <= idx) (insert_str idx s) (fun _ b => wf b).
    Proof.
      intros b [Hw [Hi Hle]]. destruct (bd2 _ _ _ Hw Hi Hle) as [l [m [r [Hb [Hp ->]]]]].
      assert (Hb' : buf b = (l ++ m) ++ r) by (rewrite Hb, app_assoc; reflexivity).
      rewrite <- blen_app. rewrite (insert_str_ok b (l ++ m) r s Hb').
      eexists _, _, _. split; [reflexivity|]. exists l, (m ++ s ++ r). cbn. split; [rewrite <- app_assoc; reflexivity|exact Hp].
    Qed.

    (* yank_pop checks that the text before the cursor can be the previous yank and does nothing otherwise *)
    Theorem yank_pop_total k text : total_wf (yank_pop k text).
    Proof.
      intros b Hw. unfold yank_pop. unfold bind at 1. unfold get at 1.
      destruct (Nat.ltb (pos b) k) eqn:Ek; [eexists _, _, _; split; [reflexivity|exact Hw]|]. apply Nat.ltb_ge in Ek.
      destruct (is_boundary (buf b) (pos b - k)) eqn:Eb; cbn [negb]; [|eexists _, _, _; split; [reflexivity|exact Hw]].
      assert (Hbd : bd (buf b) (pos b - k)).
      { unfold is_boundary in Eb. destruct (bsplit (buf b) (pos b - k)) as [[l r]|] eqn:E; [|discriminate].
        destruct (bsplit_some _ _ _ _ E) as [H1 H2]. rewrite H1, <- H2. apply bd_mid. }
      destruct (drain_wf b (pos b - k) (pos b) DForward Hbd Hw ltac:(lia)) as [m [b' [Hd [Hb' _]]]].
      unfold bind at 1. rewrite Hd. unfold bind at 1. cbn [put_pos].
      destruct (yank_total text 1 (set_pos' b' (pos b - k)) Hb') as [a [b2 [ev [Hy Hw2]]]].
      rewrite Hy. eexists _, _, _. split; [reflexivity|exact Hw2].
    Qed.

    Lemma boundary_down_bd s : forall k m, bd s (boundary_down s k m).
    Proof.
      induction k as [|k IH]; intros m; cbn [boundary_down]; [apply bd_0|].
      destruct (is_boundary s m) eqn:E; [|apply IH]. unfold is_boundary in E.
      destruct (bsplit s m) as [[l r]|] eqn:Eb; [|discriminate].
      destruct (bsplit_some _ _ _ _ Eb) as [-> <-]. apply bd_mid.
    Qed.

    Theorem update_total s p : bd s p -> hoare wf (update s p) (fun _ b => wf b).
    Proof.
      intros Hp b Hw. unfold update.
      replace (Nat.ltb (blen s) p) with false by (symmetry; apply Nat.ltb_ge; apply bd_le; exact Hp).
      unfold bind at 1. unfold get at 1.
      assert (Hb0 : buf b = [] ++ buf b ++ []) by (rewrite app_nil_r; reflexivity).
      pose proof (drain_ok b [] (buf b) [] DForward Hb0) as Hd. cbn [blen plus app] in Hd. fold (lb_len b) in Hd.
      unfold bind at 1. rewrite Hd. destruct (must_truncate b (blen s)).
      - pose proof (boundary_down_bd s (S (cap b)) (cap b)) as Hmx.
        set (mx := boundary_down s (S (cap b)) (cap b)) in *.
        destruct (slice_to_bd _ _ Hmx) as [t [r [Hs [Hmxe Hsl]]]].
        unfold bind at 1. unfold lift. rewrite Hsl. unfold bind at 1.
        assert (Hi : insert_str 0 t (set_buf b []) = Ok (Nat.eqb 0 (lb_len (set_buf b [])), set_buf (set_buf b []) ([] ++ t ++ []), [EInsertStr 0 t])).
        { apply (insert_str_ok (set_buf b []) [] [] t). reflexivity. }
        rewrite Hi. cbn [put_pos app]. eexists _, _, _. split; [reflexivity|]. unfold wf. cbn [buf pos set_pos' set_buf].
        rewrite app_nil_r. destruct (Nat.min_spec mx p) as [[Hlt ->]|[Hge ->]]; [rewrite Hmxe; apply bd_len|].
        rewrite Hs in Hp. destruct (bd_split _ _ _ Hp) as [[Hbt _]|[Hle _]]; [exact Hbt|].
        assert (p = blen t) by lia. subst p. apply bd_len.
      - unfold bind at 1.
        assert (Hi : insert_str 0 s (set_buf b []) = Ok (Nat.eqb 0 (lb_len (set_buf b [])), set_buf (set_buf b []) ([] ++ s ++ []), [EInsertStr 0 s])).
        { apply (insert_str_ok (set_buf b []) [] [] s). reflexivity. }
        rewrite Hi. cbn [put_pos app]. eexists _, _, _. split; [reflexivity|]. unfold wf. cbn [buf pos set_pos' set_buf].
        rewrite app_nil_r. exact Hp.
    Qed.

    (* ---------- copy: every slice it takes is between ordered boundaries ---------- *)

    Lemma sl_ok b a e : bd (buf b) a -> bd (buf b) e -> a <= e ->
      exists o, match slice (buf b) a e with Ok s => Ok (Some s) | Panic => Panic end = Ok o.
    Proof. intros Ha He Hle. destruct (slice_bd _ _ _ Ha He Hle) as [l [m [r [_ [_ [_ ->]]]]]]. eexists. reflexivity. Qed.

    Theorem copy_total b m : wf b -> exists o, copy U seg b m = Ok o.
    Proof.
      intros Hw. unfold copy. destruct (Nat.eqb (lb_len b) 0); [eexists; reflexivity|].
      pose proof Hw as [l [r [Hb Hp]]].
      destruct m as [| | |n w|n a w|n cs| |n|n|n|n| | |].
      - destruct (start_of_line_ok b l r Hb Hp) as [l' [m' [Hs Hl]]].
        destruct (end_of_line_ok b l r Hb Hp) as [m2 [r' [He [Hr _]]]]. rewrite Hs, He.
        destruct (Nat.eqb (blen l') (blen l + blen m2)); [eexists; reflexivity|].
        apply sl_ok.
        + rewrite Hb, Hl, <- app_assoc. apply bd_mid.
        + rewrite Hb, Hr, app_assoc, <- blen_app. apply bd_mid.
        + rewrite Hl, blen_app. lia.
      - destruct (start_of_line_ok b l r Hb Hp) as [l' [m' [Hs Hl]]]. rewrite Hs.
        destruct (Nat.eqb (pos b) (blen l')); [eexists; reflexivity|]. apply sl_ok; [|exact Hw|].
        + rewrite Hb, Hl, <- app_assoc. apply bd_mid.
        + rewrite Hp, Hl, blen_app. lia.
      - destruct (end_of_line_ok b l r Hb Hp) as [m2 [r' [He [Hr _]]]]. rewrite He.
        destruct (Nat.eqb (pos b) (blen l + blen m2)); [eexists; reflexivity|]. apply sl_ok; [exact Hw| |lia].
        rewrite Hb, Hr, app_assoc, <- blen_app. apply bd_mid.
      - destruct (prev_word_pos_ok U b (pos b) w n Hw) as [o [-> Ho]]. destruct o as [q|]; [|eexists; reflexivity].
        destruct (Ho q eq_refl) as [Hq Hle]. apply sl_ok; assumption.
      - destruct (next_word_pos_ok U b (pos b) a w n Hw) as [o [-> Ho]]. destruct o as [q|]; [|eexists; reflexivity].
        destruct (Ho q eq_refl) as [Hq Hle]. apply sl_ok; assumption.
      - destruct cs as [c|c|c|c].
        + destruct (search_char_pos_ok b (CsForward c) n Hw) as [o [-> Ho]]. destruct o as [q|]; [|eexists; reflexivity].
          destruct (Ho q eq_refl) as [Hq [Hle Hq2]]. apply sl_ok; [exact Hw|exact Hq2|lia].
        + destruct (search_char_pos_ok b (CsForward c) n Hw) as [o [-> Ho]]. destruct o as [q|]; [|eexists; reflexivity].
          destruct (Ho q eq_refl) as [Hq [Hle Hq2]]. apply sl_ok; [exact Hw|exact Hq|lia].
        + destruct (search_char_pos_ok b (CsBackward c) n Hw) as [o [-> Ho]]. destruct o as [q|]; [|eexists; reflexivity].
          destruct (Ho q eq_refl) as [Hq Hle]. apply sl_ok; assumption.
        + destruct (search_char_pos_ok b (CsBackwardAfter c) n Hw) as [o [-> Ho]]. destruct o as [q|]; [|eexists; reflexivity].
          destruct (Ho q eq_refl) as [Hq Hle]. apply sl_ok; assumption.
      - destruct (vi_first_print_pos_ok U b Hw) as [o [-> Ho]]. destruct o as [q|]; [|eexists; reflexivity].
        pose proof (Ho q eq_refl) as Hq.
        destruct (Nat.ltb q (pos b)) eqn:E1; [apply Nat.ltb_lt in E1; apply sl_ok; [exact Hq|exact Hw|lia]|].
        destruct (Nat.ltb (pos b) q) eqn:E2; [apply Nat.ltb_lt in E2; apply sl_ok; [exact Hw|exact Hq|lia]|].
        eexists; reflexivity.
      - destruct (prev_pos_ok seg seg_concat b n l r Hb Hp) as [o [-> Ho]]. destruct o as [q|]; [|eexists; reflexivity].
        destruct (Ho q eq_refl) as [l' [m' [Hl ->]]]. apply sl_ok; [|exact Hw|].
        * rewrite Hb, Hl, <- app_assoc. apply bd_mid.
        * rewrite Hp, Hl, blen_app. lia.
      - destruct (next_pos_ok seg seg_concat b n l r Hb Hp) as [o [-> Ho]]. destruct o as [q|]; [|eexists; reflexivity].
        destruct (Ho q eq_refl) as [m' [r' [Hr ->]]]. apply sl_ok; [exact Hw| |lia].
        rewrite Hb, Hr, app_assoc, <- blen_app. apply bd_mid.
      - destruct (n_lines_up_ok b n Hw) as [o [-> Ho]]. destruct o as [[s e]|]; [|eexists; reflexivity].
        destruct (Ho s e eq_refl) as [Hs [He Hle]]. apply sl_ok; assumption.
      - destruct (n_lines_down_ok b n Hw) as [o [-> Ho]]. destruct o as [[s e]|]; [|eexists; reflexivity].
        destruct (Ho s e eq_refl) as [Hs [He Hle]]. apply sl_ok; assumption.
      - eexists; reflexivity.
      - destruct (Nat.eqb (pos b) 0); [eexists; reflexivity|]. apply sl_ok; [apply bd_0|exact Hw|lia].
      - destruct (Nat.eqb (pos b) (lb_len b)); [eexists; reflexivity|]. apply sl_ok; [exact Hw|apply bd_len|apply bd_le; exact Hw].
    Qed.

    (* ---------- edit_word (M-u / M-l / M-c) ---------- *)

    Theorem edit_word_total a : total_wf (edit_word U seg a).
    Proof.
      intros b Hw. unfold edit_word. unfold bind at 1. unfold get at 1. unfold bind at 1. unfold lift at 1.
      destruct (skip_whitespace_ok U b Hw) as [o [-> Ho]].
      destruct o as [start|]; [|eexists _, _, _; split; [reflexivity|exact Hw]].
      destruct (Ho start eq_refl) as [Hbs Hles]. unfold bind at 1. unfold lift at 1.
      destruct (next_word_pos_ok U b start AtAfterEnd WEmacs 1 Hbs) as [o2 [-> Ho2]].
      destruct o2 as [e|]; [|eexists _, _, _; split; [reflexivity|exact Hw]].
      destruct (Ho2 e eq_refl) as [Hbe Hlee].
      destruct (Nat.eqb start e) eqn:Ese; [eexists _, _, _; split; [reflexivity|exact Hw]|].
      apply Nat.eqb_neq in Ese.
      destruct (drain_bd b start e DForward Hbs Hbe Hlee) as [l [m [r [Hb [Hs [He Hd]]]]]].
      unfold bind at 1. rewrite Hd.
      assert (Hres : exists result, (match a with
                                     | Capitalize =>
                                       match seg m with
                                       | [] => Panic
                                       | ch :: _ => match slice_from m (blen ch) with
                                                    | Ok rest => Ok (to_upper U ch ++ to_lower U rest)
                                                    | Panic => Panic
                                                    end
                                       end
                                     | Lowercase => Ok (to_lower U m)
                                     | Uppercase => Ok (to_upper U m)
                                     end) = Ok result).
      { destruct a; [|eexists; reflexivity|eexists; reflexivity].
        assert (Hm : m <> []) by (intros ->; cbn [blen] in He; lia).
        destruct (seg m) as [|ch t] eqn:Es; [exfalso; exact (seg_nonnil' m Hm Es)|].
        assert (Hmm : m = ch ++ concat t) by (rewrite <- (seg_concat m), Es; reflexivity).
        assert (Hsf : slice_from m (blen ch) = Ok (concat t)) by (unfold slice_from; rewrite Hmm, bsplit_app; reflexivity).
        rewrite Hsf. eexists; reflexivity. }
      destruct Hres as [result Hres]. unfold bind at 1. unfold lift. rewrite Hres. unfold bind at 1.
      rewrite Hs. rewrite (insert_str_ok (set_buf b (l ++ r)) l r result eq_refl). cbn [put_pos ret].
      eexists _, _, _. split; [reflexivity|]. exists (l ++ result), r. cbn.
      split; [rewrite <- app_assoc; reflexivity|symmetry; apply blen_app].
    Qed.

    (* ---------- transpose_chars ---------- *)

    Lemma move_backward1_lt b :
      wf b -> pos b <> 0 ->
      exists a b' ev, move_backward seg 1 b = Ok (a, b', ev) /\ wf b' /\ pos b' < lb_len b'.
    Proof.
      intros [l [r [Hb Hp]]] Hne. unfold move_backward, bind, get, lift, prev_pos, slice_to.
      replace (Nat.eqb (pos b) 0) with false by (symmetry; apply Nat.eqb_neq; exact Hne).
      rewrite (wf_bsplit b l r Hb Hp).
      assert (Hl : l <> []) by (intros ->; cbn in Hp; lia).
      destruct (rev (gindices seg l)) as [|[i g] t] eqn:Er.
      { exfalso. apply (f_equal (@rev _)) in Er. rewrite rev_involutive in Er. unfold gindices in Er.
        pose proof (seg_nonnil' l Hl). destruct (seg l); [congruence|discriminate]. }
      cbn [firstn last_opt put_pos ret].
      assert (Hin : In (i, g) (gindices seg l)) by (apply in_rev; rewrite Er; left; reflexivity).
      destruct (gi_in _ _ _ Hin) as [a [c [Hl' [-> Hg]]]].
      eexists _, _, _. split; [reflexivity|]. split.
      - exists a, (g ++ c ++ r). cbn. split; [rewrite Hb, Hl', <- !app_assoc; reflexivity|reflexivity].
      - cbn. unfold lb_len. cbn. rewrite Hb, Hl', !blen_app.
        destruct g as [|x g]; [congruence|]. cbn [blen]. pose proof (clen_pos x). lia.
    Qed.

    Lemma delete1_some b :
      wf b -> pos b < lb_len b -> exists s b' ev, delete seg 1 b = Ok (Some s, b', ev) /\ wf b'.
    Proof.
      intros [l [r [Hb Hp]]] Hlt.
      assert (Hr : r <> []) by (intros ->; unfold lb_len in Hlt; rewrite Hb, app_nil_r in Hlt; lia).
      pose proof (delete_spec seg seg_concat b 0 l r Hb Hp Hr) as Hd. cbv zeta in Hd.
      eexists _, _, _. split; [exact Hd|]. eexists l, _. cbn. split; [reflexivity|exact Hp].
    Qed.

    Theorem transpose_chars_total : total_wf (transpose_chars seg).
    Proof.
      change (hoare wf (transpose_chars seg) (fun _ => wf)). unfold transpose_chars.
      apply (h_bind wf get (fun b0 b => b = b0 /\ wf b0)); [apply h_get; auto|].
      intros b0. destruct (Nat.eqb (pos b0) 0 || Nat.ltb (length (seg (buf b0))) 2) eqn:Ec;
        [apply h_ret; intros b [-> Hw]; exact Hw|].
      apply Bool.orb_false_iff in Ec. destruct Ec as [Hne _]. apply Nat.eqb_neq in Hne.
      apply (h_bind _ _ (fun _ b => wf b /\ pos b < lb_len b)).
      - intros b [-> Hw]. destruct (Nat.eqb (pos b0) (lb_len b0)) eqn:E.
        + destruct (move_backward1_lt b0 Hw Hne) as [a [b' [ev [Hm [Hw' Hlt]]]]].
          unfold bind. rewrite Hm. cbn [ret]. eexists _, _, _. split; [reflexivity|split; assumption].
        + apply Nat.eqb_neq in E. eexists _, _, _. split; [reflexivity|]. split; [exact Hw|].
          pose proof (bd_le _ _ Hw). unfold lb_len in *. lia.
      - intros _. apply (h_bind _ _ (fun r b => wf b /\ r <> None)).
        + intros b [Hw Hlt]. destruct (delete1_some b Hw Hlt) as [s [b' [ev [Hd Hw']]]].
          eexists _, _, _. split; [exact Hd|]. split; [exact Hw'|discriminate].
        + intros [chars|].
          * apply (h_conseq _ wf _ _ (fun _ => wf)); [|intros b [Hw _]; exact Hw|auto].
            apply total_bind; [apply move_backward_total; exact seg_concat|]. intros _.
            apply total_bind; [apply yank_total|]. intros _.
            apply total_bind; [apply move_forward_total; exact seg_concat|]. intros _. apply total_ret.
          * intros b' [_ Hn]. congruence.
    Qed.

    (* ---------- transpose_words ---------- *)

    Lemma set_pos_self b : set_pos' b (pos b) = b.
    Proof. destruct b; reflexivity. Qed.

    Lemma mnw_spec a w n b :
      wf b -> exists r q, move_to_next_word U seg a w n b = Ok (r, set_pos' b q, []) /\ bd (buf b) q /\ pos b <= q.
    Proof.
      intros Hw. unfold move_to_next_word, bind, get, lift.
      destruct (next_word_pos_ok U b (pos b) a w n Hw) as [o [-> Ho]]. destruct o as [q|].
      - destruct (Ho q eq_refl) as [Hbd Hle]. cbn [put_pos ret app]. eexists _, q. split; [reflexivity|split; assumption].
      - cbn [ret app]. exists false, (pos b). rewrite set_pos_self. split; [reflexivity|split; [exact Hw|lia]].
    Qed.
    Lemma mpw_spec w n b :
      wf b -> exists r q, move_to_prev_word U seg w n b = Ok (r, set_pos' b q, []) /\ bd (buf b) q /\ q <= pos b.
    Proof.
      intros Hw. unfold move_to_prev_word, bind, get, lift.
      destruct (prev_word_pos_ok U b (pos b) w n Hw) as [o [-> Ho]]. destruct o as [q|].
      - destruct (Ho q eq_refl) as [Hbd Hle]. cbn [put_pos ret app]. eexists _, q. split; [reflexivity|split; assumption].
      - cbn [ret app]. exists false, (pos b). rewrite set_pos_self. split; [reflexivity|split; [exact Hw|lia]].
    Qed.

    Lemma bd3 s a b c : bd s a -> bd s b -> bd s c -> a <= b -> b <= c ->
      exists l m1 m2 r, s = l ++ m1 ++ m2 ++ r /\ a = blen l /\ b = blen l + blen m1 /\ c = blen l + blen m1 + blen m2.
    Proof.
      intros Ha Hb Hc Hab Hbc. destruct (bd2 s a b Ha Hb Hab) as [l [m1 [r' [Hs [-> ->]]]]].
      assert (Hs' : s = (l ++ m1) ++ r') by (rewrite Hs, app_assoc; reflexivity).
      rewrite Hs' in Hc. destruct (bd_split _ _ _ Hc) as [[_ Hle]|[_ Hbd]].
      - rewrite blen_app in Hle. exists l, m1, [], r'. cbn [app blen]. repeat split; [exact Hs|lia].
      - destruct Hbd as [m2 [r [-> Hm2]]]. rewrite blen_app in Hm2. exists l, m1, m2, r. repeat split; [exact Hs|lia].
    Qed.
    Lemma bd4 s a b c d : bd s a -> bd s b -> bd s c -> bd s d -> a <= b -> b <= c -> c <= d ->
      exists l m1 m2 m3 r, s = l ++ m1 ++ m2 ++ m3 ++ r /\ a = blen l /\ b = blen l + blen m1
                           /\ c = blen l + blen m1 + blen m2 /\ d = blen l + blen m1 + blen m2 + blen m3.
    Proof.
      intros Ha Hb Hc Hd Hab Hbc Hcd. destruct (bd3 s a b c Ha Hb Hc Hab Hbc) as [l [m1 [m2 [r' [Hs [-> [-> ->]]]]]]].
      assert (Hs' : s = (l ++ m1 ++ m2) ++ r') by (rewrite Hs, <- !app_assoc; reflexivity).
      rewrite Hs' in Hd. destruct (bd_split _ _ _ Hd) as [[_ Hle]|[_ Hbd]].
      - rewrite !blen_app in Hle. exists l, m1, m2, [], r'. cbn [app blen]. repeat split; [exact Hs|lia].
      - destruct Hbd as [m3 [r [-> Hm3]]]. rewrite !blen_app in Hm3. exists l, m1, m2, m3, r. repeat split; [exact Hs|lia].
    Qed.

    Theorem transpose_words_total n : total_wf (transpose_words U seg n).
    Proof.
      intros b0 Hw0. unfold transpose_words.
      eapply bind_step; [reflexivity|]. cbv beta.
      destruct (mnw_spec AtAfterEnd WEmacs n b0 Hw0) as [r1 [p1 [H1 [Hb1 Hle1]]]].
      eapply bind_step; [exact H1|]. cbv beta. eapply bind_step; [reflexivity|]. cbv beta zeta.
      destruct (mpw_spec WEmacs 1 (set_pos' b0 p1) Hb1) as [r2 [p2 [H2 [Hb2 Hle2]]]].
      eapply bind_step; [exact H2|]. cbv beta. eapply bind_step; [reflexivity|]. cbv beta zeta.
      destruct (mpw_spec WEmacs n (set_pos' (set_pos' b0 p1) p2) Hb2) as [r3 [p3 [H3 [Hb3 Hle3]]]].
      eapply bind_step; [exact H3|]. cbv beta. eapply bind_step; [reflexivity|]. cbv beta zeta.
      destruct (mnw_spec AtAfterEnd WEmacs 1 (set_pos' (set_pos' (set_pos' b0 p1) p2) p3) Hb3) as [r4 [p4 [H4 [Hb4 Hle4]]]].
      eapply bind_step; [exact H4|]. cbv beta. eapply bind_step; [reflexivity|]. cbv beta zeta.
      cbn [pos buf set_pos'] in *.
      destruct (Nat.eqb p3 p2 || Nat.ltb p2 p4) eqn:Ec.
      { eexists _, _, _. split; [reflexivity|]. exact Hw0. }
      apply Bool.orb_false_iff in Ec. destruct Ec as [_ Ec]. apply Nat.ltb_ge in Ec.
      destruct (bd4 (buf b0) p3 p4 p2 p1 Hb3 Hb4 Hb2 Hb1 Hle4 Ec Hle2) as [A [W1 [B [W2 [C [Hs [-> [-> [-> ->]]]]]]]]].
      assert (Hsl : slice (buf b0) (blen A) (blen A + blen W1) = Ok W1) by (rewrite Hs; apply slice_app).
      eapply bind_step; [unfold lift; rewrite Hsl; reflexivity|]. cbv beta.
      assert (Hs2 : buf b0 = (A ++ W1 ++ B) ++ W2 ++ C) by (rewrite Hs, <- !app_assoc; reflexivity).
      replace (blen A + blen W1 + blen B) with (blen (A ++ W1 ++ B)) by (rewrite !blen_app; lia).
      eapply bind_step; [apply drain_ok; exact Hs2|]. cbv beta.
      eapply bind_step; [apply (insert_str_ok _ (A ++ W1 ++ B) C W1); reflexivity|]. cbv beta.
      eapply bind_step; [apply (drain_ok _ A W1 (B ++ W1 ++ C)); cbn; rewrite <- !app_assoc; reflexivity|]. cbv beta.
      eapply bind_step; [apply (insert_str_ok _ A (B ++ W1 ++ C) W2); reflexivity|]. cbv beta.
      eexists _, _, _. split; [reflexivity|]. exists (A ++ W2 ++ B ++ W1), C. cbn.
      split; [rewrite <- !app_assoc; reflexivity|]. rewrite !blen_app. lia.
    Qed.

    (* ---------- kill(movement) ---------- *)

    Lemma total_emit e : total_wf (emit e).
    Proof. intros b Hw. eexists _, _, _. split; [reflexivity|exact Hw]. Qed.

    Lemma kill_lines_total (f : lb -> res (option (nat * nat))) :
      (forall b, wf b -> exists o, f b = Ok o /\ forall s e, o = Some (s, e) -> bd (buf b) s /\ bd (buf b) e /\ s <= e) ->
      total_wf (bind get (fun b => bind (lift (f b)) (fun r =>
                match r with Some (s, e) => bind (delete_range s e) (fun _ => ret true) | None => ret false end))).
    Proof.
      intros Hf b Hw. eapply bind_step; [reflexivity|]. cbv beta. destruct (Hf b Hw) as [o [Ho Hq]].
      eapply bind_step; [unfold lift; rewrite Ho; reflexivity|]. cbv beta. destruct o as [[s e]|].
      - destruct (Hq s e eq_refl) as [Hs [He Hle]].
        destruct (delete_range_total s e b (conj Hs (conj He Hle))) as [a [b' [ev [Hd Hw']]]].
        eapply bind_step; [exact Hd|]. eexists _, _, _. split; [reflexivity|exact Hw'].
      - eexists _, _, _. split; [reflexivity|exact Hw].
    Qed.

    Theorem kill_total m : total_wf (kill U seg m).
    Proof.
      unfold kill.
      apply total_bind; [destruct (notifies m); [apply total_emit|apply total_ret]|]. intros _.
      apply total_bind.
      2:{ intros killed. apply total_bind; [destruct (notifies m); [apply total_emit|apply total_ret]|].
          intros _. apply total_ret. }
      destruct m as [| | |n w|n a w|n cs| |n|n|n|n| | |].
      - apply total_bind; [apply move_home_total|]. intros _. apply kill_line_total. exact seg_concat.
      - apply discard_line_total. exact seg_concat.
      - apply kill_line_total. exact seg_concat.
      - apply delete_prev_word_total.
      - apply delete_word_total.
      - apply delete_to_total.
      - intros b Hw. eapply bind_step; [reflexivity|]. cbv beta.
        destruct (vi_first_print_pos_ok U b Hw) as [o [Ho Hq]].
        eapply bind_step; [unfold lift; rewrite Ho; reflexivity|]. cbv beta.
        destruct o as [q|]; [|eexists _, _, _; split; [reflexivity|exact Hw]].
        pose proof (Hq q eq_refl) as Hbq.
        destruct (Nat.ltb q (pos b)) eqn:E1.
        { apply Nat.ltb_lt in E1. destruct (drain_wf b q (pos b) DBackward Hbq Hw ltac:(lia)) as [x [b' [Hd [Hb' _]]]].
          eapply bind_step; [exact Hd|]. eexists _, _, _. split; [reflexivity|exact Hb']. }
        destruct (Nat.ltb (pos b) q) eqn:E2.
        { apply Nat.ltb_lt in E2. destruct (drain_wf b (pos b) q DForward Hw Hbq ltac:(lia)) as [x [b' [Hd [Hb' [Hp' _]]]]].
          eapply bind_step; [exact Hd|]. eexists _, _, _. split; [reflexivity|]. unfold wf. rewrite Hp'. exact Hb'. }
        eexists _, _, _. split; [reflexivity|exact Hw].
      - apply backspace_total. exact seg_concat.
      - apply total_bind; [apply delete_total; exact seg_concat|]. intros r. apply total_ret.
      - apply kill_lines_total. intros b Hw. apply n_lines_up_ok. exact Hw.
      - apply kill_lines_total. intros b Hw. apply n_lines_down_ok. exact Hw.
      - apply total_bind; [apply move_buffer_start_total|]. intros _. apply kill_buffer_total.
      - apply discard_buffer_total.
      - apply kill_buffer_total.
    Qed.

    (* ---------- indent / dedent ---------- *)

    Fixpoint join_lf (ls : list str) : str :=
      match ls with
      | [] => []
      | x :: t => x ++ match t with [] => [] | _ => LF :: join_lf t end
      end.
    Definition tailj (t : list str) : str := match t with [] => [] | _ => LF :: join_lf t end.
    Lemma join_lf_cons x t : join_lf (x :: t) = x ++ tailj t.
    Proof. reflexivity. Qed.

    Lemma split_lf_join s : forall cur, join_lf (split_lf s cur) = rev cur ++ s /\ split_lf s cur <> [].
    Proof.
      induction s as [|c t IH]; intros cur; cbn [split_lf].
      - split; [cbn; rewrite !app_nil_r; reflexivity|discriminate].
      - destruct (c =? LF)%N eqn:E.
        + apply N.eqb_eq in E. subst c. destruct (IH []) as [Hj Hn]. split; [|discriminate].
          rewrite join_lf_cons. unfold tailj. destruct (split_lf t []) eqn:Es; [congruence|]. rewrite Hj. reflexivity.
        + destruct (IH (c :: cur)) as [Hj Hn]. split; [|exact Hn]. rewrite Hj. cbn [rev]. rewrite <- app_assoc. reflexivity.
    Qed.

    Lemma blen_repeat_sp k : blen (repeat 32%N k) = k.
    Proof. induction k as [|k IH]; [reflexivity|]. cbn [repeat blen]. rewrite IH. reflexivity. Qed.

    (* the cursor after [dl] was cut out right after [pre] *)
    Lemma cut_pos pre dl R P :
      bd (pre ++ dl ++ R) P ->
      bd (pre ++ R) (if Nat.leb (blen pre) P then if Nat.ltb (P - blen pre) (blen dl) then blen pre else P - blen dl else P).
    Proof.
      intros HP. destruct (Nat.leb (blen pre) P) eqn:E1.
      - apply Nat.leb_le in E1. destruct (Nat.ltb (P - blen pre) (blen dl)) eqn:E2; [apply bd_mid|].
        apply Nat.ltb_ge in E2. rewrite app_assoc in HP. destruct (bd_split _ _ _ HP) as [[_ Hle]|[Hge Hb]].
        + rewrite blen_app in Hle. replace (P - blen dl) with (blen pre) by lia. apply bd_mid.
        + rewrite blen_app in Hge, Hb. replace (P - blen dl) with (blen pre + (P - (blen pre + blen dl))) by lia.
          apply bd_app_r. exact Hb.
      - apply Nat.leb_gt in E1. destruct (bd_split _ _ _ HP) as [[Hb _]|[Hge _]]; [apply bd_app_l; exact Hb|lia].
    Qed.

    Lemma dedent_lines_ok amount : forall lines index b pre post,
      wf b -> buf b = pre ++ join_lf lines ++ post -> index = blen pre -> lines <> [] ->
      exists r b' ev, dedent_lines U lines amount index b = Ok (r, b', ev) /\ wf b'.
    Proof.
      induction lines as [|line t IH]; intros index b pre post Hw Hb Hi Hne; [congruence|]. clear Hne. subst index.
      cbn [dedent_lines]. cbv zeta.
      destruct (boundary_down_bd line (S (Nat.min (leading_ws_bytes U line) amount)) (Nat.min (leading_ws_bytes U line) amount))
        as [dl [line' [Hline Hdn]]].
      set (dn := boundary_down line (S (Nat.min (leading_ws_bytes U line) amount)) (Nat.min (leading_ws_bytes U line) amount)) in *.
      clearbody dn. subst dn.
      rewrite join_lf_cons, Hline, <- !app_assoc in Hb.
      assert (Hk : forall b1, wf b1 -> buf b1 = pre ++ line' ++ tailj t ++ post ->
                   exists r b' ev, dedent_lines U t amount (blen pre + blen line + 1 - blen dl) b1 = Ok (r, b', ev) /\ wf b').
      { intros b1 Hw1 Hb1. destruct t as [|x t'].
        - cbn [dedent_lines ret]. eexists _, _, _. split; [reflexivity|exact Hw1].
        - apply (IH _ b1 (pre ++ line' ++ [LF]) post Hw1).
          + rewrite Hb1. unfold tailj. rewrite <- !app_assoc. reflexivity.
          + rewrite Hline, !blen_app. cbn [blen]. change (clen LF) with 1. lia.
          + discriminate. }
      eapply bind_step; [apply (drain_ok b pre dl _ DForward Hb)|]. cbv beta.
      eapply bind_step; [reflexivity|]. cbv beta. cbn [pos set_buf].
      pose proof (cut_pos pre dl (line' ++ tailj t ++ post) (pos b)) as Hcut. rewrite <- Hb in Hcut. specialize (Hcut Hw).
      destruct (Nat.leb (blen pre) (pos b)).
      - destruct (Nat.ltb (pos b - blen pre) (blen dl)); (eapply bind_step; [reflexivity|]); apply Hk; [exact Hcut|reflexivity|exact Hcut|reflexivity].
      - eapply bind_step; [reflexivity|]. apply Hk; [exact Hcut|reflexivity].
    Qed.

    Lemma indent_chunks_ok amount index : forall fuel off b pre R,
      buf b = pre ++ R -> index = blen pre -> amount - off < fuel ->
      exists b' ev, indent_chunks amount off fuel index b = Ok (tt, b', ev)
                    /\ buf b' = pre ++ repeat 32%N (amount - off) ++ R /\ pos b' = pos b.
    Proof.
      induction fuel as [|f IH]; intros off b pre R Hb Hi Hf; [lia|]. cbn [indent_chunks].
      destruct (Nat.ltb off amount) eqn:E.
      - apply Nat.ltb_lt in E. subst index.
        set (sp := repeat 32%N (Nat.min (amount - off) indent_max)).
        destruct (IH (off + indent_max) (set_buf b (pre ++ sp ++ R)) pre (sp ++ R) eq_refl eq_refl) as [b' [ev [H1 [Hb' Hp']]]].
        { unfold indent_max. lia. }
        unfold bind. rewrite (insert_str_ok b pre R sp Hb). rewrite H1.
        eexists _, _. split; [reflexivity|]. split; [|exact Hp'].
        rewrite Hb'. f_equal. rewrite app_assoc. f_equal. unfold sp. rewrite <- repeat_app. f_equal. unfold indent_max. lia.
      - apply Nat.ltb_ge in E. eexists _, _. split; [reflexivity|]. split; [|reflexivity].
        replace (amount - off) with 0 by lia. exact Hb.
    Qed.

    Lemma indent_lines_ok amount : forall lines index b pre post,
      wf b -> buf b = pre ++ join_lf lines ++ post -> index = blen pre -> lines <> [] ->
      exists r b' ev, indent_lines lines amount index b = Ok (r, b', ev) /\ wf b'.
    Proof.
      induction lines as [|line t IH]; intros index b pre post Hw Hb Hi Hne; [congruence|]. clear Hne. subst index.
      cbn [indent_lines]. rewrite join_lf_cons, <- !app_assoc in Hb.
      destruct (indent_chunks_ok amount (blen pre) (S amount) 0 b pre _ Hb eq_refl ltac:(lia)) as [b1 [ev1 [H1 [Hb1 Hp1]]]].
      rewrite Nat.sub_0_r in Hb1.
      assert (Hk : forall b2, wf b2 -> buf b2 = pre ++ repeat 32%N amount ++ line ++ tailj t ++ post ->
                   exists r b' ev, indent_lines t amount (blen pre + amount + blen line + 1) b2 = Ok (r, b', ev) /\ wf b').
      { intros b2 Hw2 Hb2. destruct t as [|x t'].
        - cbn [indent_lines ret]. eexists _, _, _. split; [reflexivity|exact Hw2].
        - apply (IH _ b2 (pre ++ repeat 32%N amount ++ line ++ [LF]) post Hw2).
          + rewrite Hb2. unfold tailj. rewrite <- !app_assoc. reflexivity.
          + rewrite !blen_app, blen_repeat_sp. cbn [blen]. change (clen LF) with 1. lia.
          + discriminate. }
      eapply bind_step; [exact H1|]. cbv beta. eapply bind_step; [reflexivity|]. cbv beta. rewrite Hp1.
      destruct (Nat.leb (blen pre) (pos b)) eqn:E.
      - apply Nat.leb_le in E. eapply bind_step; [reflexivity|]. apply Hk; [|exact Hb1].
        unfold wf. cbn [buf pos set_pos']. rewrite Hb1. unfold wf in Hw. rewrite Hb in Hw.
        destruct (bd_split _ _ _ Hw) as [[_ Hle]|[_ Hbd]].
        + replace (pos b + amount) with (blen (pre ++ repeat 32%N amount)) by (rewrite blen_app, blen_repeat_sp; lia).
          rewrite app_assoc. apply bd_mid.
        + replace (pos b + amount) with (blen (pre ++ repeat 32%N amount) + (pos b - blen pre)) by (rewrite blen_app, blen_repeat_sp; lia).
          rewrite app_assoc. apply bd_app_r. exact Hbd.
      - apply Nat.leb_gt in E. eapply bind_step; [reflexivity|]. apply Hk; [|exact Hb1].
        unfold wf. rewrite Hb1, Hp1. unfold wf in Hw. rewrite Hb in Hw.
        destruct (bd_split _ _ _ Hw) as [[Hbd _]|[Hge _]]; [apply bd_app_l; exact Hbd|lia].
    Qed.

    Theorem indent_total m amount dedent : total_wf (indent U seg m amount dedent).
    Proof.
      intros b Hw. unfold indent. eapply bind_step; [reflexivity|]. cbv beta.
      assert (Hpr : exists o, match m with
                     | MWholeLine | MBeginningOfLine | MViFirstPrint | MEndOfLine
                     | MBackwardChar _ | MForwardChar _ | MViCharSearch _ _ => Ok (Some (pos b, pos b))
                     | MEndOfBuffer => Ok (Some (pos b, lb_len b))
                     | MWholeBuffer => Ok (Some (0, lb_len b))
                     | MBeginningOfBuffer => Ok (Some (0, pos b))
                     | MBackwardWord n w =>
                       match prev_word_pos U seg b (pos b) w n with
                       | Ok (Some p) => Ok (Some (p, pos b)) | Ok None => Ok None | Panic => Panic end
                     | MForwardWord n a w =>
                       match next_word_pos U seg b (pos b) a w n with
                       | Ok (Some p) => Ok (Some (pos b, p)) | Ok None => Ok None | Panic => Panic end
                     | MLineUp n => n_lines_up b n
                     | MLineDown n => n_lines_down b n
                     end = Ok o /\ forall s e, o = Some (s, e) -> bd (buf b) s /\ bd (buf b) e /\ s <= e).
      { pose proof (bd_le _ _ Hw) as Hple. fold (lb_len b) in Hple.
        assert (Hpp : forall s e, Some (pos b, pos b) = Some (s, e) -> bd (buf b) s /\ bd (buf b) e /\ s <= e).
        { intros s e H. inversion H; subst. repeat split; try exact Hw. lia. }
        destruct m as [| | |n w|n a w|n cs| |n|n|n|n| | |]; try (eexists; split; [reflexivity|exact Hpp]).
        - destruct (prev_word_pos_ok U b (pos b) w n Hw) as [o [-> Ho]]. destruct o as [q|].
          + eexists. split; [reflexivity|]. intros s e H. inversion H; subst. destruct (Ho s eq_refl). repeat split; assumption.
          + eexists. split; [reflexivity|]. discriminate.
        - destruct (next_word_pos_ok U b (pos b) a w n Hw) as [o [-> Ho]]. destruct o as [q|].
          + eexists. split; [reflexivity|]. intros s e H. inversion H; subst. destruct (Ho e eq_refl). repeat split; assumption.
          + eexists. split; [reflexivity|]. discriminate.
        - apply n_lines_up_ok. exact Hw.
        - apply n_lines_down_ok. exact Hw.
        - eexists. split; [reflexivity|]. intros s e H. inversion H; subst. repeat split; [apply bd_0|apply bd_len|lia].
        - eexists. split; [reflexivity|]. intros s e H. inversion H; subst. repeat split; [apply bd_0|exact Hw|lia].
        - eexists. split; [reflexivity|]. intros s e H. inversion H; subst. repeat split; [exact Hw|apply bd_len|exact Hple]. }
      destruct Hpr as [o [Ho Hq]].
      eapply bind_step; [unfold lift; rewrite Ho; reflexivity|]. cbv beta.
      assert (Hse : exists s0 e0, (match o with Some p => p | None => (pos b, pos b) end) = (s0, e0)
                                  /\ bd (buf b) s0 /\ bd (buf b) e0 /\ s0 <= e0).
      { destruct o as [[s e]|]; [exists s, e; split; [reflexivity|apply Hq; reflexivity]|].
        exists (pos b), (pos b). repeat split; try exact Hw. lia. }
      destruct Hse as [s0 [e0 [-> [Hs0 [He0 Hle0]]]]].
      destruct (bd2 _ _ _ Hs0 He0 Hle0) as [l [mid [r [Hb [-> ->]]]]].
      assert (Hsl : slice_to (buf b) (blen l) = Ok l) by (unfold slice_to; rewrite Hb, bsplit_app; reflexivity).
      eapply bind_step; [unfold lift; rewrite Hsl; reflexivity|]. cbv beta zeta.
      assert (Hsr : slice_from (buf b) (blen l + blen mid) = Ok r).
      { unfold slice_from. rewrite Hb, app_assoc, <- blen_app, bsplit_app. reflexivity. }
      eapply bind_step; [unfold lift; rewrite Hsr; reflexivity|]. cbv beta zeta.
      (* start: after the last line break of l; end: the last line break of r, or the end *)
      assert (Hst : exists l1 l2, l = l1 ++ l2 /\ match rfind_char LF l with Some p => p + 1 | None => 0 end = blen l1).
      { destruct (rfind_char LF l) as [k|] eqn:E.
        - destruct (rfind_char_spec _ _ _ E) as [a [c [-> ->]]]. exists (a ++ [LF]), c.
          split; [rewrite <- app_assoc; reflexivity|rewrite blen_app; reflexivity].
        - exists [], l. split; reflexivity. }
      destruct Hst as [l1 [l2 [Hl ->]]].
      assert (Hen : exists r1 r2, r = r1 ++ r2 /\ match rfind_char LF r with Some p => blen l + blen mid + p | None => lb_len b end
                                                   = blen l + blen mid + blen r1).
      { destruct (rfind_char LF r) as [k|] eqn:E.
        - destruct (rfind_char_spec _ _ _ E) as [a [c [-> ->]]]. exists a, (LF :: c). split; reflexivity.
        - exists r, []. split; [rewrite app_nil_r; reflexivity|]. unfold lb_len. rewrite Hb, !blen_app. lia. }
      destruct Hen as [r1 [r2 [Hr ->]]].
      set (text := l2 ++ mid ++ r1).
      assert (Hb' : buf b = l1 ++ text ++ r2) by (unfold text; rewrite Hb, Hl, Hr, <- !app_assoc; reflexivity).
      assert (Hsl2 : slice (buf b) (blen l1) (blen l + blen mid + blen r1) = Ok text).
      { replace (blen l + blen mid + blen r1) with (blen l1 + blen text) by (unfold text; rewrite Hl, !blen_app; lia).
        rewrite Hb'. apply slice_app. }
      eapply bind_step; [unfold lift; rewrite Hsl2; reflexivity|]. cbv beta.
      destruct (split_lf_join text []) as [Hj Hn]. cbn [rev app] in Hj.
      assert (Hbj : buf b = l1 ++ join_lf (split_lf text []) ++ r2) by (rewrite Hj; exact Hb').
      destruct dedent.
      - destruct (dedent_lines_ok amount _ (blen l1) b l1 r2 Hw Hbj eq_refl Hn) as [x [b' [ev [Hd Hw']]]].
        eapply bind_step; [exact Hd|]. eexists _, _, _. split; [reflexivity|exact Hw'].
      - destruct (indent_lines_ok amount _ (blen l1) b l1 r2 Hw Hbj eq_refl Hn) as [x [b' [ev [Hd Hw']]]].
        eapply bind_step; [exact Hd|]. eexists _, _, _. split; [reflexivity|exact Hw'].
    Qed.

    (* ---------- move_to_line_up / move_to_line_down (any width function) ---------- *)

    Variable width : str -> nat.

    (* a line start: 0 or just after a line break; a line end: the end or at a line break *)
    Definition line_start (s : str) (p : nat) : Prop := p = 0 \/ exists x y, s = x ++ LF :: y /\ p = blen x + 1.
    Definition line_end (s : str) (p : nat) : Prop := p = blen s \/ exists x y, s = x ++ LF :: y /\ p = blen x.

    Lemma line_start_bd s p : line_start s p -> bd s p.
    Proof.
      intros [->|[x [y [-> ->]]]]; [apply bd_0|].
      replace (blen x + 1) with (blen (x ++ [LF])) by (rewrite blen_app; reflexivity).
      replace (x ++ LF :: y) with ((x ++ [LF]) ++ y) by (rewrite <- app_assoc; reflexivity). apply bd_mid.
    Qed.
    Lemma line_end_bd s p : line_end s p -> bd s p.
    Proof. intros [->|[x [y [-> ->]]]]; [apply bd_len|apply bd_mid]. Qed.

    Lemma rfind_line_start s x y :
      s = x ++ y -> line_start s (match rfind_char LF x with Some k => k + 1 | None => 0 end)
                    /\ match rfind_char LF x with Some k => k + 1 | None => 0 end <= blen x.
    Proof.
      intros Hs. destruct (rfind_char LF x) as [k|] eqn:E; [|split; [left; reflexivity|lia]].
      destruct (rfind_char_spec _ _ _ E) as [a [c [-> ->]]]. split.
      - right. exists a, (c ++ y). split; [rewrite Hs, <- app_assoc; reflexivity|reflexivity].
      - rewrite blen_app. cbn [blen]. change (clen LF) with 1. lia.
    Qed.
    Lemma find_line_end s x y :
      s = x ++ y -> line_end s (match find_char LF y with Some v => blen x + v | None => blen s end)
                    /\ blen x <= match find_char LF y with Some v => blen x + v | None => blen s end.
    Proof.
      intros Hs. destruct (find_char LF y) as [k|] eqn:E.
      - destruct (find_char_spec _ _ _ E) as [a [c [-> [-> _]]]]. split; [|lia].
        right. exists (x ++ a), c. split; [rewrite Hs, <- app_assoc; reflexivity|symmetry; apply blen_app].
      - split; [left; reflexivity|]. rewrite Hs, blen_app. lia.
    Qed.

    Lemma line_up_loop_ok s : forall k ds de,
      line_start s ds -> bd s de -> ds <= de ->
      exists ds' de', line_up_loop s k ds de = Ok (ds', de') /\ bd s ds' /\ bd s de' /\ ds' <= de'.
    Proof.
      induction k as [|k IH]; intros ds de Hds Hde Hle; cbn [line_up_loop].
      { exists ds, de. split; [reflexivity|]. split; [apply line_start_bd; exact Hds|split; [exact Hde|exact Hle]]. }
      destruct (Nat.eqb ds 0) eqn:E.
      { exists ds, de. split; [reflexivity|]. split; [apply line_start_bd; exact Hds|split; [exact Hde|exact Hle]]. }
      apply Nat.eqb_neq in E. destruct Hds as [->|[x [y [Hs ->]]]]; [congruence|].
      replace (blen x + 1 - 1) with (blen x) by lia.
      assert (Hsl : slice_to s (blen x) = Ok x) by (unfold slice_to; rewrite Hs, bsplit_app; reflexivity).
      rewrite Hsl. destruct (rfind_line_start s x (LF :: y) Hs) as [Hls Hle'].
      apply IH; [exact Hls|rewrite Hs; apply bd_mid|exact Hle'].
    Qed.

    Lemma line_down_loop_ok s : forall k ds de,
      bd s ds -> line_end s de -> ds <= de ->
      exists ds' de', line_down_loop s (blen s) k ds de = Ok (ds', de') /\ bd s ds' /\ bd s de' /\ ds' <= de'.
    Proof.
      induction k as [|k IH]; intros ds de Hds Hde Hle; cbn [line_down_loop].
      { exists ds, de. split; [reflexivity|]. split; [exact Hds|split; [apply line_end_bd; exact Hde|exact Hle]]. }
      destruct (Nat.eqb de (blen s)) eqn:E.
      { exists ds, de. split; [reflexivity|]. split; [exact Hds|split; [apply line_end_bd; exact Hde|exact Hle]]. }
      apply Nat.eqb_neq in E. destruct Hde as [->|[x [y [Hs ->]]]]; [congruence|].
      assert (Hs' : s = (x ++ [LF]) ++ y) by (rewrite Hs, <- app_assoc; reflexivity).
      assert (Hl1 : blen x + 1 = blen (x ++ [LF])) by (rewrite blen_app; reflexivity).
      assert (Hsl : slice_from s (blen x + 1) = Ok y) by (unfold slice_from; rewrite Hl1, Hs', bsplit_app; reflexivity).
      rewrite Hsl. destruct (find_line_end s (x ++ [LF]) y Hs') as [Hle1 Hle2]. rewrite <- Hl1 in Hle1, Hle2.
      apply IH; [rewrite Hl1, Hs'; apply bd_mid|exact Hle1|exact Hle2].
    Qed.

    Lemma dest_pos_bd s ds de dest col :
      s = ds ++ dest ++ de ->
      bd s (match nth_error (gindices seg dest) col with Some (idx, _) => blen ds + idx | None => blen ds + blen dest end).
    Proof.
      intros Hs. destruct (nth_error (gindices seg dest) col) as [[idx g]|] eqn:E.
      - apply nth_error_In in E. rewrite Hs. apply bd_app_r, bd_app_l. apply (gi_bd _ _ _ E).
      - rewrite Hs, app_assoc, <- blen_app. apply bd_mid.
    Qed.

    Theorem move_to_line_up_total n pc : total_wf (move_to_line_up seg width n pc).
    Proof.
      intros b Hw. pose proof Hw as [l [r [Hb Hp]]]. unfold move_to_line_up.
      eapply bind_step; [reflexivity|]. cbv beta.
      assert (Hsl : slice_to (buf b) (pos b) = Ok l) by (unfold slice_to; rewrite (wf_bsplit b l r Hb Hp); reflexivity).
      eapply bind_step; [unfold lift; rewrite Hsl; reflexivity|]. cbv beta.
      destruct (rfind_char LF l) as [off|] eqn:E; [|eexists _, _, _; split; [reflexivity|exact Hw]].
      destruct (rfind_char_spec _ _ _ E) as [a [c [Hl ->]]].
      assert (Hb2 : buf b = (a ++ [LF]) ++ c ++ r) by (rewrite Hb, Hl, <- !app_assoc; reflexivity).
      assert (Hcur : slice (buf b) (blen a + 1) (pos b) = Ok c).
      { replace (blen a + 1) with (blen (a ++ [LF])) by (rewrite blen_app; reflexivity).
        replace (pos b) with (blen (a ++ [LF]) + blen c) by (rewrite Hp, Hl, !blen_app; cbn [blen]; lia).
        rewrite Hb2. apply slice_app. }
      eapply bind_step; [unfold lift; rewrite Hcur; reflexivity|]. cbv beta zeta.
      assert (Hb3 : buf b = a ++ LF :: c ++ r) by (rewrite Hb, Hl, <- app_assoc; reflexivity).
      assert (Hl2 : slice_to (buf b) (blen a) = Ok a) by (unfold slice_to; rewrite Hb3, bsplit_app; reflexivity).
      eapply bind_step; [unfold lift; rewrite Hl2; reflexivity|]. cbv beta zeta.
      destruct (rfind_line_start (buf b) a (LF :: c ++ r) Hb3) as [Hls Hle].
      destruct (line_up_loop_ok (buf b) (n - 1) _ (blen a) Hls ltac:(rewrite Hb3; apply bd_mid) Hle)
        as [ds [de [Hloop [Hds [Hde Hle2]]]]].
      eapply bind_step; [unfold lift; rewrite Hloop; reflexivity|]. cbv beta iota.
      destruct (bd2 _ _ _ Hds Hde Hle2) as [x [dest [y [Hb4 [-> ->]]]]].
      assert (Hdest : slice (buf b) (blen x) (blen x + blen dest) = Ok dest) by (rewrite Hb4; apply slice_app).
      eapply bind_step; [unfold lift; rewrite Hdest; reflexivity|]. cbv beta.
      eapply bind_step; [reflexivity|]. eexists _, _, _. split; [reflexivity|].
      apply (dest_pos_bd (buf b) x y dest). exact Hb4.
    Qed.

    Theorem move_to_line_down_total n pc : total_wf (move_to_line_down seg width n pc).
    Proof.
      intros b Hw. pose proof Hw as [l [r [Hb Hp]]]. unfold move_to_line_down.
      eapply bind_step; [reflexivity|]. cbv beta.
      assert (Hsr : slice_from (buf b) (pos b) = Ok r) by (unfold slice_from; rewrite (wf_bsplit b l r Hb Hp); reflexivity).
      eapply bind_step; [unfold lift; rewrite Hsr; reflexivity|]. cbv beta.
      destruct (find_char LF r) as [off|] eqn:E; [|eexists _, _, _; split; [reflexivity|exact Hw]].
      destruct (find_char_spec _ _ _ E) as [a [c [Hr [-> _]]]].
      assert (Hsl : slice_to (buf b) (pos b) = Ok l) by (unfold slice_to; rewrite (wf_bsplit b l r Hb Hp); reflexivity).
      eapply bind_step; [unfold lift; rewrite Hsl; reflexivity|]. cbv beta zeta.
      destruct (rfind_line_start (buf b) l r Hb) as [Hls Hle].
      destruct (bd2 _ _ _ (line_start_bd _ _ Hls) Hw ltac:(rewrite Hp; exact Hle)) as [x [cur [y [Hb2 [Hx Hpc]]]]].
      assert (Hcur : slice (buf b) (match rfind_char LF l with Some k => k + 1 | None => 0 end) (pos b) = Ok cur).
      { rewrite Hx, Hpc, Hb2. apply slice_app. }
      eapply bind_step; [unfold lift; rewrite Hcur; reflexivity|]. cbv beta zeta.
      assert (Hb3 : buf b = ((l ++ a) ++ [LF]) ++ c) by (rewrite Hb, Hr, <- !app_assoc; reflexivity).
      assert (Hds0 : pos b + blen a + 1 = blen ((l ++ a) ++ [LF])) by (rewrite !blen_app, Hp; reflexivity).
      assert (Hr2 : slice_from (buf b) (pos b + blen a + 1) = Ok c).
      { unfold slice_from. rewrite Hds0, Hb3, bsplit_app. reflexivity. }
      eapply bind_step; [unfold lift; rewrite Hr2; reflexivity|]. cbv beta zeta.
      destruct (find_line_end (buf b) ((l ++ a) ++ [LF]) c Hb3) as [Hle1 Hle2]. rewrite <- Hds0 in Hle1, Hle2.
      destruct (line_down_loop_ok (buf b) (n - 1) (pos b + blen a + 1) _ ltac:(rewrite Hds0, Hb3; apply bd_mid) Hle1 Hle2)
        as [ds [de [Hloop [Hds [Hde Hle3]]]]].
      unfold lb_len.
      eapply bind_step; [unfold lift; rewrite Hloop; reflexivity|]. cbv beta iota.
      destruct (bd2 _ _ _ Hds Hde Hle3) as [x' [dest [y' [Hb4 [-> ->]]]]].
      assert (Hdest : slice (buf b) (blen x') (blen x' + blen dest) = Ok dest) by (rewrite Hb4; apply slice_app).
      eapply bind_step; [unfold lift; rewrite Hdest; reflexivity|]. cbv beta.
      eapply bind_step; [reflexivity|]. eexists _, _, _. split; [reflexivity|].
      apply (dest_pos_bd (buf b) x' y' dest). exact Hb4.
    Qed.

    (* ---------- every operation of the stream, in one statement ---------- *)

    Definition op_pre (o : lbop) (b : lb) : Prop :=
      match o with
      | OpReplace a e _ | OpDeleteRange a e => bd (buf b) a /\ bd (buf b) e /\ a <= e
      | OpInsertStr i _ => bd (buf b) i /\ pos b <= i
      | OpUpdate s p => bd s p
      | OpSetPos p => bd (buf b) p
      | _ => True
      end.

    Lemma total_mapM {A B} (f : A -> B) (m : M A) P : hoare P m (fun _ => wf) -> hoare P (mapM f m) (fun _ => wf).
    Proof. intros H. unfold mapM. apply (h_bind P m (fun _ => wf)); [exact H|]. intros a. apply h_ret. auto. Qed.

    Theorem lb_all_total_wf (o : lbop) b :
      wf b -> op_pre o b -> exists a b' ev, lb_apply U seg o b = Ok (a, b', ev) /\ wf b'.
    Proof.
      intros Hw Hpre.
      assert (Hcore : is_core o = true -> exists a b' ev, lb_apply U seg o b = Ok (a, b', ev) /\ wf b').
      { intros Hc. exact (lb_core_total_wf seg seg_concat U o Hc b Hw). }
      destruct o as [c n|s n|k s|n|n| | | | | |n|n| | | | | |w n|w n|a w n|cs n|a w n|cs n|a|n|a e s|idx s|a e|m|m|m amount d|s p|p|n];
        try (apply Hcore; reflexivity); cbn [lb_apply].
      - exact (total_mapM _ _ wf (yank_pop_total k s) b Hw).
      - exact (total_mapM _ _ wf transpose_chars_total b Hw).
      - exact (total_mapM _ _ wf (move_to_prev_word_total w n) b Hw).
      - exact (total_mapM _ _ wf (delete_prev_word_total w n) b Hw).
      - exact (total_mapM _ _ wf (move_to_next_word_total a w n) b Hw).
      - exact (total_mapM _ _ wf (move_to_total cs n) b Hw).
      - exact (total_mapM _ _ wf (delete_word_total a w n) b Hw).
      - exact (total_mapM _ _ wf (delete_to_total cs n) b Hw).
      - exact (total_mapM _ _ wf (edit_word_total a) b Hw).
      - exact (total_mapM _ _ wf (transpose_words_total n) b Hw).
      - apply (total_mapM _ _ _ (replace_total a e s)). exact Hpre.
      - destruct Hpre as [Hi Hle]. apply (total_mapM _ _ _ (insert_str_total idx s)). repeat split; assumption.
      - apply (total_mapM _ _ _ (delete_range_total a e)). exact Hpre.
      - unfold pureM. eapply bind_step; [reflexivity|]. cbv beta. destruct (copy_total b m Hw) as [r Hr].
        unfold lift. rewrite Hr. eexists _, _, _. split; [reflexivity|exact Hw].
      - exact (total_mapM _ _ wf (kill_total m) b Hw).
      - exact (total_mapM _ _ wf (indent_total m amount d) b Hw).
      - exact (total_mapM _ _ wf (update_total s p Hpre) b Hw).
      - apply (total_mapM _ _ _ (set_pos_total p)). exact Hpre.
      - unfold pureM. eapply bind_step; [reflexivity|]. cbv beta. destruct Hw as [l [r [Hb Hp]]].
        destruct (next_pos_ok seg seg_concat b n l r Hb Hp) as [x [Hx _]].
        unfold lift. rewrite Hx. eexists _, _, _. split; [reflexivity|exists l, r; split; assumption].
    Qed.

    (* a whole sequence of operations that need no raw offsets: never a panic, the cursor always on a boundary *)
    Definition user_op (o : lbop) : bool :=
      match o with
      | OpReplace _ _ _ | OpDeleteRange _ _ | OpInsertStr _ _ | OpUpdate _ _ | OpSetPos _ => false
      | _ => true
      end.

    Theorem lb_run_never_panics : forall ops b,
      wf b -> forallb user_op ops = true ->
      Forall (fun x => exists r b' ev, x = Some (r, b', ev) /\ wf b') (lb_run U seg ops b).
    Proof.
      induction ops as [|o ops IH]; intros b Hw Hu; cbn [lb_run]; [constructor|].
      cbn [forallb] in Hu. apply andb_prop in Hu. destruct Hu as [Ho Hu].
      assert (Hpre : op_pre o b) by (destruct o; try exact I; discriminate).
      destruct (lb_all_total_wf o b Hw Hpre) as [a [b' [ev [-> Hw']]]].
      constructor; [eexists _, _, _; split; [reflexivity|exact Hw']|]. apply IH; assumption.
    Qed.
  End Ops.
End All.

(* update with a fixed capacity: the text kept is the LONGEST prefix of the new text that ends on a character
   boundary and fits; without truncation it is the whole text; the cursor is the requested one, clipped *)
Lemma boundary_down_max s : forall k m, m < k ->
  bd s (boundary_down s k m) /\ boundary_down s k m <= m
  /\ forall q, bd s q -> q <= m -> q <= boundary_down s k m.
Proof.
  induction k as [|k IH]; intros m Hm; [lia|]. cbn [boundary_down].
  destruct (is_boundary s m) eqn:E.
  - unfold is_boundary in E. destruct (bsplit s m) as [[l r]|] eqn:Eb; [|discriminate].
    destruct (bsplit_some _ _ _ _ Eb) as [-> <-]. split; [apply bd_mid|]. split; [lia|]. intros q _ Hq. exact Hq.
  - assert (Hm0 : m <> 0) by (intros ->; unfold is_boundary in E; destruct s; discriminate).
    destruct (IH (m - 1) ltac:(lia)) as [H1 [H2 H3]]. split; [exact H1|]. split; [lia|].
    intros q Hq Hle. apply H3; [exact Hq|].
    assert (q <> m); [|lia]. intros ->. destruct (bd_bsplit _ _ Hq) as [l [r [Hb _]]].
    unfold is_boundary in E. rewrite Hb in E. discriminate.
Qed.

Theorem update_spec s p b r b' ev :
  bd s p -> update s p b = Ok (r, b', ev) ->
  exists t rest, s = t ++ rest /\ buf b' = t /\ pos b' = Nat.min (blen t) p /\ cap b' = cap b /\ grow b' = grow b
    /\ (must_truncate b (blen s) = false -> rest = [])
    /\ (must_truncate b (blen s) = true -> blen t <= cap b /\ forall q, bd s q -> q <= cap b -> q <= blen t).
Proof.
  intros Hp. unfold update.
  replace (Nat.ltb (blen s) p) with false by (symmetry; apply Nat.ltb_ge; apply bd_le; exact Hp).
  unfold bind at 1. unfold get at 1.
  assert (Hb0 : buf b = [] ++ buf b ++ []) by (rewrite app_nil_r; reflexivity).
  pose proof (drain_ok b [] (buf b) [] DForward Hb0) as Hd. cbn [blen plus app] in Hd. fold (lb_len b) in Hd.
  unfold bind at 1. rewrite Hd. destruct (must_truncate b (blen s)) eqn:Em.
  - destruct (boundary_down_max s (S (cap b)) (cap b) ltac:(lia)) as [Hmx [Hle Hmax]].
    set (mx := boundary_down s (S (cap b)) (cap b)) in *.
    destruct (slice_to_bd _ _ Hmx) as [t [rest [Hs [Hmxe Hsl]]]].
    unfold bind at 1. unfold lift. rewrite Hsl. unfold bind at 1.
    assert (Hi : insert_str 0 t (set_buf b []) = Ok (Nat.eqb 0 (lb_len (set_buf b [])), set_buf (set_buf b []) ([] ++ t ++ []), [EInsertStr 0 t])).
    { apply (insert_str_ok (set_buf b []) [] [] t). reflexivity. }
    rewrite Hi. cbn [put_pos app]. intros H. inversion H; subst r b' ev. clear H.
    exists t, rest. cbn [buf pos cap grow set_pos' set_buf]. rewrite app_nil_r, <- Hmxe.
    repeat split; try assumption; try discriminate.
  - unfold bind at 1.
    assert (Hi : insert_str 0 s (set_buf b []) = Ok (Nat.eqb 0 (lb_len (set_buf b [])), set_buf (set_buf b []) ([] ++ s ++ []), [EInsertStr 0 s])).
    { apply (insert_str_ok (set_buf b []) [] [] s). reflexivity. }
    rewrite Hi. cbn [put_pos app]. intros H. inversion H; subst r b' ev. clear H.
    exists s, []. cbn [buf pos cap grow set_pos' set_buf]. rewrite !app_nil_r.
    repeat split; try discriminate. symmetry. apply Nat.min_r. apply bd_le. exact Hp.
Qed.

(* the model's own UAX #29 segmentation satisfies both hypotheses *)
Theorem lb_all_total_wf_useg (U : UData) (o : lbop) b :
  wf b -> op_pre o b -> exists a b' ev, lb_apply U (useg U) o b = Ok (a, b', ev) /\ wf b'.
Proof.
  apply lb_all_total_wf; [apply useg_concat|].
  intros s g Hin. pose proof (useg_nonempty U s) as Hf. rewrite Forall_forall in Hf. apply Hf. exact Hin.
Qed.
