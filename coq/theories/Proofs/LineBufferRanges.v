(* C04: character motions and deletes cover exactly whole clusters. *)
From RL Require Import UData Uax29 LineBuffer LineBufferOps LineBufferProofs LineBufferTotal.

Lemma last_firstn_index gs : forall i0 n i s,
  last_opt (firstn (S n) (index_from i0 gs)) = Some (i, s) ->
  i + blen s = i0 + blen (concat (firstn (S n) gs)).
Proof.
  induction gs as [|g gs IH]; intros i0 n i s H; [discriminate|].
  cbn [index_from firstn] in H.
  destruct n as [|n'].
  - cbn in H. inversion H; subst. cbn [firstn concat]. rewrite app_nil_r. reflexivity.
  - destruct gs as [|g2 gs'].
    + cbn in H. inversion H; subst. cbn [firstn concat]. rewrite app_nil_r. reflexivity.
    + change (firstn (S n') (index_from (i0 + blen g) (g2 :: gs')))
        with ((i0 + blen g, g2) :: firstn n' (index_from (i0 + blen g + blen g2) gs')) in H.
      cbn [last_opt] in H.
      assert (H' : last_opt (firstn (S n') (index_from (i0 + blen g) (g2 :: gs'))) = Some (i, s)) by exact H.
      apply IH in H'. rewrite H'. change (firstn (S (S n')) (g :: g2 :: gs')) with (g :: firstn (S n') (g2 :: gs')).
      cbn [concat]. rewrite blen_app. lia.
Qed.

Lemma last_firstn_some {A} (l : list A) n : l <> [] -> exists x, last_opt (firstn (S n) l) = Some x.
Proof.
  revert n. induction l as [|a l IH]; intros n H; [congruence|]. cbn [firstn].
  destruct n as [|n]; [exists a; reflexivity|].
  destruct l as [|b l]; [exists a; reflexivity|].
  destruct (IH n) as [x Hx]; [discriminate|]. exists x. cbn [firstn last_opt] in *. exact Hx.
Qed.

Section Ranges.
  Variable seg : str -> list str.
  Hypothesis seg_concat : forall s, concat (seg s) = s.

  Lemma seg_nonnil r : r <> [] -> seg r <> [].
  Proof. intros H E. apply H. rewrite <- (seg_concat r), E. reflexivity. Qed.

  (* forward by n >= 1 clusters from a boundary: exactly the first min(n, remaining) clusters *)
  Theorem next_pos_spec b n l r :
    buf b = l ++ r -> pos b = blen l -> r <> [] ->
    next_pos seg b (S n) = Ok (Some (blen l + blen (concat (firstn (S n) (seg r))))).
  Proof.
    intros Hb Hp Hr. unfold next_pos, slice_from.
    replace (Nat.eqb (pos b) (lb_len b)) with false.
    2:{ symmetry. apply Nat.eqb_neq. unfold lb_len. rewrite Hb, blen_app, Hp.
        destruct r as [|c r]; [congruence|]. cbn [blen]. pose proof (clen_pos c). lia. }
    rewrite (wf_bsplit b l r Hb Hp). unfold gindices.
    assert (Hne : index_from 0 (seg r) <> []).
    { pose proof (seg_nonnil r Hr). destruct (seg r); [congruence|discriminate]. }
    destruct (last_firstn_some _ n Hne) as [[i s] Hx]. rewrite Hx.
    apply last_firstn_index in Hx. rewrite Hp. f_equal. f_equal. lia.
  Qed.

  (* ... and deleting them: the text removed is exactly those clusters, nothing else changes *)
  Theorem delete_spec b n l r :
    buf b = l ++ r -> pos b = blen l -> r <> [] ->
    let m := concat (firstn (S n) (seg r)) in
    let r' := concat (skipn (S n) (seg r)) in
    delete seg (S n) b = Ok (Some m, set_buf b (l ++ r'), [EDelete (blen l) m DForward]).
  Proof.
    intros Hb Hp Hr m r'. unfold delete, bind, get, lift. rewrite (next_pos_spec b n l r Hb Hp Hr). rewrite Hp.
    assert (Hsplit : r = m ++ r').
    { unfold m, r'. rewrite <- concat_app, firstn_skipn. symmetry. apply seg_concat. }
    rewrite Hsplit in Hb. fold m. rewrite (drain_ok b l m r' DForward Hb). reflexivity.
  Qed.
End Ranges.

(* F6 / K_word_count: with a count, a word motion is NOT the iterated single motion *)
Theorem word_count_refuted :
  exists (b : lb),
    let U := ex_U in
    let seg := useg U in
    fst (fst (match move_to_next_word U seg AtStart WVi 2 b with Ok x => x | Panic => (false, b, []) end))
    = true /\
    pos (snd (fst (match move_to_next_word U seg AtStart WVi 2 b with Ok x => x | Panic => (false, b, []) end)))
    <> pos (snd (fst (match bind (move_to_next_word U seg AtStart WVi 1)
                                 (fun _ => move_to_next_word U seg AtStart WVi 1) b
                      with Ok x => x | Panic => (false, b, []) end))).
Proof.
  (* "a b,c", cursor 0: `2w` lands on c (4), `w w` lands on the comma (3) *)
  exists (mkLb [97; 32; 98; 44; 99]%N 0 4096 false). vm_compute. split; [reflexivity|discriminate].
Qed.
