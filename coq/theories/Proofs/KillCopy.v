(* C04: a kill removes exactly the text that a copy with the same movement returns -- for EVERY movement
   (characters, words with any count and definition, character searches, line and buffer ends, whole line /
   buffer, line ranges), every buffer and cursor on a character boundary. *)
From RL Require Import UData Uax29 LineBuffer LineBufferOps LineBufferProofs LineBufferTotal LineBufferRanges LineBufferAll.

Section KillCopy.
  Variable seg : str -> list str.
  Hypothesis seg_concat : forall s, concat (seg s) = s.
  Hypothesis seg_nonempty : forall s g, In g (seg s) -> g <> [].
  Variable U : UData.

  (* what "kill removed exactly t" means: t lay in the text, it is gone, nothing else changed, the cursor is where it was *)
  Definition removed (b : lb) (t : str) (b' : lb) : Prop :=
    exists l r, buf b = l ++ t ++ r /\ buf b' = l ++ r /\ pos b' = blen l /\ cap b' = cap b /\ grow b' = grow b.

  (* the shape every case reduces to: a drain of [a, e) with the cursor ending at a *)
  Lemma removed_drain b a e d b1 :
    bd (buf b) a -> bd (buf b) e -> a <= e -> buf b1 = buf b -> cap b1 = cap b -> grow b1 = grow b ->
    exists t b2, slice (buf b) a e = Ok t /\ drain a e d b1 = Ok (t, b2, [EDelete a t d])
                 /\ removed b t (set_pos' b2 a) /\ buf b2 = buf (set_pos' b2 a).
  Proof.
    intros Ha He Hle Hb1 Hc Hg. destruct (bd2 _ _ _ Ha He Hle) as [l [m [r [Hb [-> ->]]]]].
    exists m, (set_buf b1 (l ++ r)). split; [rewrite Hb; apply slice_app|].
    split; [apply drain_ok; rewrite Hb1; exact Hb|]. split; [|reflexivity].
    exists l, r. cbn. repeat split; assumption.
  Qed.

  (* copy's slice between two ordered boundaries *)
  Lemma copy_sl b a e t :
    bd (buf b) a -> bd (buf b) e -> a <= e ->
    match slice (buf b) a e with Ok s => Ok (Some s) | Panic => Panic end = Ok (Some t) -> slice (buf b) a e = Ok t.
  Proof.
    intros Ha He Hle. destruct (slice_bd _ _ _ Ha He Hle) as [l [m [r [_ [_ [_ ->]]]]]]. intros H. inversion H. reflexivity.
  Qed.

  Definition killed (b : lb) (t : str) (r : bool) (b' : lb) : Prop := r = true /\ removed b t b'.

  (* the frame of kill(): start / stop markers around the core *)
  Lemma kill_frame m (core : M bool) b t :
    (exists r b' ev, core b = Ok (r, b', ev) /\ killed b t r b') ->
    exists r b' ev, bind (if notifies m then emit EStartKill else ret tt)
                         (fun _ => bind core (fun k => bind (if notifies m then emit EStopKill else ret tt) (fun _ => ret k))) b
                    = Ok (r, b', ev) /\ killed b t r b'.
  Proof.
    intros [r [b' [ev [Hc Hk]]]].
    destruct (notifies m);
      (eapply bind_step; [reflexivity|]; cbv beta;
       eapply bind_step; [exact Hc|]; cbv beta;
       eapply bind_step; [reflexivity|]; cbv beta;
       eexists _, _, _; split; [reflexivity|exact Hk]).
  Qed.

  (* a drain of [a, e) whose text is t, with the cursor then (or already) at a *)
  Lemma core_drain_put b a e d t :
    bd (buf b) a -> bd (buf b) e -> a <= e -> slice (buf b) a e = Ok t ->
    exists r b' ev, bind (drain a e d) (fun _ => bind (put_pos a) (fun _ => ret true)) b = Ok (r, b', ev) /\ killed b t r b'.
  Proof.
    intros Ha He Hle Hs. destruct (removed_drain b a e d b Ha He Hle eq_refl eq_refl eq_refl) as [t' [b2 [Hs' [Hd [Hr _]]]]].
    rewrite Hs in Hs'. inversion Hs'; subst t'.
    eapply bind_step; [exact Hd|]. cbv beta. eapply bind_step; [reflexivity|]. cbv beta.
    eexists _, _, _. split; [reflexivity|]. split; [reflexivity|exact Hr].
  Qed.
  Lemma core_drain_at b e d t :
    wf b -> bd (buf b) e -> pos b <= e -> slice (buf b) (pos b) e = Ok t ->
    exists r b' ev, bind (drain (pos b) e d) (fun _ => ret true) b = Ok (r, b', ev) /\ killed b t r b'.
  Proof.
    intros Ha He Hle Hs. destruct (removed_drain b (pos b) e d b Ha He Hle eq_refl eq_refl eq_refl) as [t' [b2 [Hs' [Hd [Hr Hb2]]]]].
    rewrite Hs in Hs'. inversion Hs'; subst t'.
    eapply bind_step; [exact Hd|]. cbv beta. eexists _, _, _. split; [reflexivity|]. split; [reflexivity|].
    destruct Hr as [l [r [H1 [H2 [H3 [H4 H5]]]]]]. exists l, r. cbn in *.
    assert (Hp : pos b2 = pos b).
    { unfold drain in Hd. destruct (str_drain (buf b) (pos b) e) as [[x y]|]; [|discriminate]. inversion Hd; subst. reflexivity. }
    repeat split; try assumption. rewrite Hp. exact H3.
  Qed.

  Lemma killed_same_buf b b1 t r b' :
    buf b1 = buf b -> cap b1 = cap b -> grow b1 = grow b -> killed b1 t r b' -> killed b t r b'.
  Proof.
    intros Hb Hc Hg [Hr [l [r0 [H1 [H2 [H3 [H4 H5]]]]]]]. split; [exact Hr|]. exists l, r0.
    rewrite <- Hb, <- Hc, <- Hg. repeat split; assumption.
  Qed.

  Lemma rfind_char_last c l k :
    rfind_char c l = Some k -> exists a b, l = a ++ c :: b /\ k = blen a /\ ~ In c b.
  Proof.
    revert k. induction l as [|x l IH]; intros k H; [discriminate|]. cbn [rfind_char] in H.
    destruct (rfind_char c l) as [k'|] eqn:E.
    - inversion H; subst. destruct (IH _ eq_refl) as [a [b [-> [-> Hn]]]]. exists (x :: a), b. repeat split; auto.
    - destruct (x =? c)%N eqn:Ex; [|discriminate]. apply N.eqb_eq in Ex. subst. inversion H; subst.
      exists [], l. repeat split; auto. clear -E. induction l as [|y l IHl]; [intros []|]. cbn [rfind_char] in E.
      destruct (rfind_char c l); [discriminate|]. destruct (y =? c)%N eqn:Ey; [discriminate|].
      intros [Hy|Hy]; [subst; rewrite N.eqb_refl in Ey; discriminate|apply IHl; auto].
  Qed.
  Lemma rfind_char_none c l : rfind_char c l = None -> ~ In c l.
  Proof.
    induction l as [|y l IHl]; [intros _ []|]. cbn [rfind_char]. destruct (rfind_char c l); [discriminate|].
    destruct (y =? c)%N eqn:Ey; [discriminate|]. intros _ [Hy|Hy]; [subst; rewrite N.eqb_refl in Ey; discriminate|apply IHl; auto].
  Qed.
  Lemma find_char_notin c m r : ~ In c m -> find_char c (m ++ r) = match find_char c r with Some k => Some (blen m + k) | None => None end.
  Proof.
    induction m as [|x m IH]; intros Hn; cbn [app find_char blen]; [destruct (find_char c r); reflexivity|].
    destruct (x =? c)%N eqn:E; [apply N.eqb_eq in E; subst; exfalso; apply Hn; left; reflexivity|].
    rewrite IH by (intros H; apply Hn; right; exact H). destruct (find_char c r); [f_equal; lia|reflexivity].
  Qed.

  Lemma set_pos_self' b : set_pos' b (pos b) = b.
  Proof. destruct b; reflexivity. Qed.

  (* kill_line when something lies between the cursor and the end of its line *)
  Lemma kill_line_spec b e t :
    wf b -> end_of_line b = Ok e -> bd (buf b) e -> pos b < e -> slice (buf b) (pos b) e = Ok t ->
    exists r b' ev, kill_line seg b = Ok (r, b', ev) /\ killed b t r b'.
  Proof.
    intros Hw He Hbe Hlt Hs. unfold kill_line. eapply bind_step; [reflexivity|]. cbv beta.
    pose proof (bd_le _ _ Hbe) as Hle. fold (lb_len b) in Hle.
    replace (negb (Nat.eqb (lb_len b) 0) && Nat.ltb (pos b) (lb_len b)) with true.
    2:{ symmetry. apply andb_true_intro. split; [apply negb_true_iff, Nat.eqb_neq; lia|apply Nat.ltb_lt; lia]. }
    eapply bind_step; [unfold lift; rewrite He; reflexivity|]. cbv beta.
    replace (Nat.eqb (pos b) e) with false by (symmetry; apply Nat.eqb_neq; lia).
    destruct (core_drain_at b e DForward t Hw Hbe ltac:(lia) Hs) as [r [b' [ev [Hd Hk]]]].
    unfold bind in Hd. destruct (drain (pos b) e DForward b) as [[[x bx] ex]|] eqn:E; [|discriminate].
    cbn [ret] in Hd. inversion Hd; subst. unfold bind. rewrite E. cbn [ret].
    eexists _, _, _. split; [reflexivity|exact Hk].
  Qed.

  Lemma kill_buffer_spec b t :
    wf b -> pos b < lb_len b -> slice (buf b) (pos b) (lb_len b) = Ok t ->
    exists r b' ev, kill_buffer b = Ok (r, b', ev) /\ killed b t r b'.
  Proof.
    intros Hw Hlt Hs. unfold kill_buffer. eapply bind_step; [reflexivity|]. cbv beta.
    replace (negb (Nat.eqb (lb_len b) 0) && Nat.ltb (pos b) (lb_len b)) with true.
    2:{ symmetry. apply andb_true_intro. split; [apply negb_true_iff, Nat.eqb_neq; lia|apply Nat.ltb_lt; lia]. }
    apply (core_drain_at b (lb_len b) DForward t Hw (bd_len _) ltac:(lia) Hs).
  Qed.

  (* line start and line end around a cursor, with the facts both copy and kill compute from *)
  Lemma line_around b l r :
    buf b = l ++ r -> pos b = blen l ->
    exists l' m' m2 r',
      l = l' ++ m' /\ r = m2 ++ r' /\ ~ In LF m' /\ ~ In LF m2 /\ (r' = [] \/ exists r'', r' = LF :: r'')
      /\ start_of_line b = Ok (blen l') /\ end_of_line b = Ok (blen l + blen m2).
  Proof.
    intros Hb Hp. destruct (end_of_line_ok b l r Hb Hp) as [m2 [r' [He [Hr [Hnl Hr']]]]].
    unfold start_of_line, slice_to. rewrite (wf_bsplit b l r Hb Hp).
    destruct (rfind_char LF l) as [k|] eqn:E.
    - destruct (rfind_char_last _ _ _ E) as [a0 [c0 [Hl [-> Hn]]]].
      exists (a0 ++ [LF]), c0, m2, r'.
      split; [rewrite Hl, <- app_assoc; reflexivity|]. split; [exact Hr|]. split; [exact Hn|]. split; [exact Hnl|].
      split; [exact Hr'|]. split; [rewrite blen_app; reflexivity|exact He].
    - exists [], l, m2, r'.
      split; [reflexivity|]. split; [exact Hr|]. split; [apply rfind_char_none; exact E|]. split; [exact Hnl|].
      split; [exact Hr'|]. split; [reflexivity|exact He].
  Qed.

  Lemma end_of_line_from_start b l' m' m2 r' :
    buf b = l' ++ (m' ++ m2) ++ r' -> ~ In LF m' -> ~ In LF m2 -> (r' = [] \/ exists r'', r' = LF :: r'') ->
    end_of_line (set_pos' b (blen l')) = Ok (blen l' + blen m' + blen m2).
  Proof.
    intros Hb Hn1 Hn2 Hr'. unfold end_of_line, slice_from. cbn [buf pos set_pos' lb_len]. rewrite Hb, bsplit_app.
    assert (Hn : ~ In LF (m' ++ m2)) by (intros H; apply in_app_or in H; tauto).
    rewrite (find_char_notin LF (m' ++ m2) r' Hn). f_equal.
    destruct Hr' as [->|[r'' ->]]; cbn [find_char].
    - unfold lb_len. cbn [buf set_pos']. rewrite ?Hb, ?blen_app. cbn [blen]. rewrite ?blen_app. lia.
    - rewrite N.eqb_refl. rewrite ?blen_app. lia.
  Qed.

  Theorem kill_is_copy m b t :
    wf b -> copy U seg b m = Ok (Some t) ->
    exists r b' ev, kill U seg m b = Ok (r, b', ev) /\ killed b t r b'.
  Proof.
    intros Hw Hc. pose proof Hw as [l [r [Hb Hp]]]. unfold kill. apply kill_frame. unfold copy in Hc.
    destruct (Nat.eqb (lb_len b) 0) eqn:El; [discriminate|]. apply Nat.eqb_neq in El.
    destruct (line_around b l r Hb Hp) as [l' [m' [m2 [r' [Hl [Hr [Hn1 [Hn2 [Hr' [Hs He]]]]]]]]]].
    assert (Hbs : bd (buf b) (blen l')) by (rewrite Hb, Hl, <- app_assoc; apply bd_mid).
    assert (Hbe : bd (buf b) (blen l + blen m2)) by (rewrite Hb, Hr, app_assoc, <- blen_app; apply bd_mid).
    assert (Hsle : blen l' <= pos b) by (rewrite Hp, Hl, blen_app; lia).
    destruct m as [| | |n w|n a w|n cs| |n|n|n|n| | |].
    - (* WholeLine *)
      rewrite Hs, He in Hc.
      destruct (Nat.eqb (blen l') (blen l + blen m2)) eqn:Ese; [discriminate|]. apply Nat.eqb_neq in Ese.
      apply (copy_sl b _ _ t Hbs Hbe ltac:(lia)) in Hc.
      set (b1 := set_pos' b (blen l')).
      assert (Hmh : exists x, move_home b = Ok (x, b1, [])).
      { unfold move_home, bind, get, lift. rewrite Hs. destruct (Nat.ltb (blen l') (pos b)) eqn:E.
        - eexists. reflexivity.
        - apply Nat.ltb_ge in E. assert (Hx : blen l' = pos b) by lia.
          unfold b1. rewrite Hx, set_pos_self'. eexists. reflexivity. }
      destruct Hmh as [x Hmh]. eapply bind_step; [exact Hmh|]. cbv beta.
      assert (Hb1 : buf b = l' ++ (m' ++ m2) ++ r') by (rewrite Hb, Hl, Hr, <- !app_assoc; reflexivity).
      pose proof (end_of_line_from_start b l' m' m2 r' Hb1 Hn1 Hn2 Hr') as He1. fold b1 in He1.
      replace (blen l' + blen m' + blen m2) with (blen l + blen m2) in He1 by (rewrite Hl, blen_app; lia).
      destruct (kill_line_spec b1 (blen l + blen m2) t Hbs He1 Hbe ltac:(cbn; lia) Hc) as [r0 [b' [ev [Hk Hkd]]]].
      eexists _, _, _. split; [exact Hk|]. eapply killed_same_buf; [| | |exact Hkd]; reflexivity.
    - (* BeginningOfLine *)
      rewrite Hs in Hc. destruct (Nat.eqb (pos b) (blen l')) eqn:E; [discriminate|]. apply Nat.eqb_neq in E.
      apply (copy_sl b _ _ t Hbs Hw Hsle) in Hc.
      unfold discard_line. eapply bind_step; [reflexivity|]. cbv beta.
      replace (Nat.ltb 0 (pos b) && negb (Nat.eqb (lb_len b) 0)) with true.
      2:{ symmetry. apply andb_true_intro. split; [apply Nat.ltb_lt; lia|apply negb_true_iff, Nat.eqb_neq; lia]. }
      eapply bind_step; [unfold lift; rewrite Hs; reflexivity|]. cbv beta.
      replace (Nat.eqb (pos b) (blen l')) with false by (symmetry; apply Nat.eqb_neq; lia).
      apply (core_drain_put b (blen l') (pos b) DBackward t Hbs Hw Hsle Hc).
    - (* EndOfLine *)
      rewrite He in Hc. destruct (Nat.eqb (pos b) (blen l + blen m2)) eqn:E; [discriminate|]. apply Nat.eqb_neq in E.
      apply (copy_sl b _ _ t Hw Hbe ltac:(lia)) in Hc.
      apply (kill_line_spec b (blen l + blen m2) t Hw He Hbe ltac:(lia) Hc).
    - (* BackwardWord *)
      destruct (prev_word_pos_ok seg seg_concat seg_nonempty U b (pos b) w n Hw) as [o [Ho Hq]]. rewrite Ho in Hc.
      destruct o as [q|]; [|discriminate]. destruct (Hq q eq_refl) as [Hbq Hle].
      apply (copy_sl b _ _ t Hbq Hw Hle) in Hc.
      unfold delete_prev_word. eapply bind_step; [reflexivity|]. cbv beta.
      eapply bind_step; [unfold lift; rewrite Ho; reflexivity|]. cbv beta.
      apply (core_drain_put b q (pos b) DBackward t Hbq Hw Hle Hc).
    - (* ForwardWord *)
      destruct (next_word_pos_ok seg seg_concat seg_nonempty U b (pos b) a w n Hw) as [o [Ho Hq]]. rewrite Ho in Hc.
      destruct o as [q|]; [|discriminate]. destruct (Hq q eq_refl) as [Hbq Hle].
      apply (copy_sl b _ _ t Hw Hbq Hle) in Hc.
      unfold delete_word. eapply bind_step; [reflexivity|]. cbv beta.
      eapply bind_step; [unfold lift; rewrite Ho; reflexivity|]. cbv beta.
      apply (core_drain_at b q DForward t Hw Hbq Hle Hc).
    - (* ViCharSearch *)
      unfold delete_to. eapply bind_step; [reflexivity|]. cbv beta.
      destruct cs as [c|c|c|c].
      + destruct (search_char_pos_ok seg seg_concat b (CsForward c) n Hw) as [o [Ho Hq]]. rewrite Ho in Hc.
        destruct o as [q|]; [|discriminate]. destruct (Hq q eq_refl) as [Hbq [Hle Hbq2]].
        apply (copy_sl b _ _ t Hw Hbq2 ltac:(lia)) in Hc.
        eapply bind_step; [unfold lift; rewrite Ho; reflexivity|]. cbv beta.
        apply (core_drain_at b (q + clen c) DForward t Hw Hbq2 ltac:(lia) Hc).
      + destruct (search_char_pos_ok seg seg_concat b (CsForward c) n Hw) as [o [Ho Hq]]. rewrite Ho in Hc.
        destruct o as [q|]; [|discriminate]. destruct (Hq q eq_refl) as [Hbq [Hle Hbq2]].
        apply (copy_sl b _ _ t Hw Hbq Hle) in Hc.
        eapply bind_step; [unfold lift; rewrite Ho; reflexivity|]. cbv beta.
        apply (core_drain_at b q DForward t Hw Hbq Hle Hc).
      + destruct (search_char_pos_ok seg seg_concat b (CsBackward c) n Hw) as [o [Ho Hq]]. rewrite Ho in Hc.
        destruct o as [q|]; [|discriminate]. destruct (Hq q eq_refl) as [Hbq Hle].
        apply (copy_sl b _ _ t Hbq Hw Hle) in Hc.
        eapply bind_step; [unfold lift; rewrite Ho; reflexivity|]. cbv beta.
        eapply bind_step; [reflexivity|]. cbv beta.
        destruct (removed_drain b q (pos b) DBackward (set_pos' b q) Hbq Hw Hle eq_refl eq_refl eq_refl) as [t' [b2 [Hs' [Hd [Hrm Hb2]]]]].
        rewrite Hc in Hs'. inversion Hs'; subst t'.
        eapply bind_step; [exact Hd|]. cbv beta. eexists _, _, _. split; [reflexivity|]. split; [reflexivity|].
        assert (Hp2 : pos b2 = q).
        { unfold drain in Hd. cbn [buf set_pos'] in Hd. destruct (str_drain (buf b) q (pos b)) as [[x y]|]; [|discriminate].
          inversion Hd; subst. reflexivity. }
        destruct Hrm as [l0 [r0 [H1 [H2 [H3 [H4 H5]]]]]]. exists l0, r0. cbn in *. repeat split; try assumption. rewrite Hp2. exact H3.
      + destruct (search_char_pos_ok seg seg_concat b (CsBackwardAfter c) n Hw) as [o [Ho Hq]]. rewrite Ho in Hc.
        destruct o as [q|]; [|discriminate]. destruct (Hq q eq_refl) as [Hbq Hle].
        apply (copy_sl b _ _ t Hbq Hw Hle) in Hc.
        eapply bind_step; [unfold lift; rewrite Ho; reflexivity|]. cbv beta.
        eapply bind_step; [reflexivity|]. cbv beta.
        destruct (removed_drain b q (pos b) DBackward (set_pos' b q) Hbq Hw Hle eq_refl eq_refl eq_refl) as [t' [b2 [Hs' [Hd [Hrm Hb2]]]]].
        rewrite Hc in Hs'. inversion Hs'; subst t'.
        eapply bind_step; [exact Hd|]. cbv beta. eexists _, _, _. split; [reflexivity|]. split; [reflexivity|].
        assert (Hp2 : pos b2 = q).
        { unfold drain in Hd. cbn [buf set_pos'] in Hd. destruct (str_drain (buf b) q (pos b)) as [[x y]|]; [|discriminate].
          inversion Hd; subst. reflexivity. }
        destruct Hrm as [l0 [r0 [H1 [H2 [H3 [H4 H5]]]]]]. exists l0, r0. cbn in *. repeat split; try assumption. rewrite Hp2. exact H3.
    - (* ViFirstPrint *)
      destruct (vi_first_print_pos_ok seg seg_concat seg_nonempty U b Hw) as [o [Ho Hq]]. rewrite Ho in Hc.
      destruct o as [q|]; [|discriminate]. pose proof (Hq q eq_refl) as Hbq.
      eapply bind_step; [reflexivity|]. cbv beta. eapply bind_step; [unfold lift; rewrite Ho; reflexivity|]. cbv beta.
      destruct (Nat.ltb q (pos b)) eqn:E1.
      + apply Nat.ltb_lt in E1. apply (copy_sl b _ _ t Hbq Hw ltac:(lia)) in Hc.
        replace (Nat.ltb q (pos b)) with true by (symmetry; apply Nat.ltb_lt; exact E1).
        apply (core_drain_put b q (pos b) DBackward t Hbq Hw ltac:(lia) Hc).
      + destruct (Nat.ltb (pos b) q) eqn:E2; [|discriminate].
        apply Nat.ltb_lt in E2. apply (copy_sl b _ _ t Hw Hbq ltac:(lia)) in Hc.
        replace (Nat.ltb q (pos b)) with false by (symmetry; apply Nat.ltb_ge; lia).
        replace (Nat.ltb (pos b) q) with true by (symmetry; apply Nat.ltb_lt; exact E2).
        apply (core_drain_at b q DForward t Hw Hbq ltac:(lia) Hc).
    - (* BackwardChar *)
      destruct (prev_pos_ok seg seg_concat b n l r Hb Hp) as [o [Ho Hq]]. rewrite Ho in Hc.
      destruct o as [q|]; [|discriminate]. destruct (Hq q eq_refl) as [l0 [m0 [Hl0 ->]]].
      assert (Hbq : bd (buf b) (blen l0)) by (rewrite Hb, Hl0, <- app_assoc; apply bd_mid).
      assert (Hle : blen l0 <= pos b) by (rewrite Hp, Hl0, blen_app; lia).
      apply (copy_sl b _ _ t Hbq Hw Hle) in Hc.
      unfold backspace. eapply bind_step; [reflexivity|]. cbv beta.
      eapply bind_step; [unfold lift; rewrite Ho; reflexivity|]. cbv beta.
      apply (core_drain_put b (blen l0) (pos b) DBackward t Hbq Hw Hle Hc).
    - (* ForwardChar *)
      destruct (next_pos_ok seg seg_concat b n l r Hb Hp) as [o [Ho Hq]]. rewrite Ho in Hc.
      destruct o as [q|]; [|discriminate]. destruct (Hq q eq_refl) as [m0 [r0 [Hr0 ->]]].
      assert (Hbq : bd (buf b) (blen l + blen m0)) by (rewrite Hb, Hr0, app_assoc, <- blen_app; apply bd_mid).
      apply (copy_sl b _ _ t Hw Hbq ltac:(lia)) in Hc.
      destruct (core_drain_at b (blen l + blen m0) DForward t Hw Hbq ltac:(lia) Hc) as [r1 [b' [ev [Hd Hk]]]].
      unfold bind in Hd. destruct (drain (pos b) (blen l + blen m0) DForward b) as [[[x bx] ex]|] eqn:E; [|discriminate].
      cbn [ret] in Hd. inversion Hd; subst.
      unfold delete, bind, get, lift. rewrite Ho, E. cbn [ret]. eexists _, _, _. split; [reflexivity|exact Hk].
    - (* LineUp *)
      destruct (n_lines_up_ok b n Hw) as [o [Ho Hq]]. rewrite Ho in Hc. destruct o as [[s e]|]; [|discriminate].
      destruct (Hq s e eq_refl) as [Hbs' [Hbe' Hle']]. apply (copy_sl b _ _ t Hbs' Hbe' Hle') in Hc.
      eapply bind_step; [reflexivity|]. cbv beta. eapply bind_step; [unfold lift; rewrite Ho; reflexivity|]. cbv beta.
      unfold delete_range, set_pos. 
      assert (Hdr : exists r1 b' ev, bind (bind get (fun b0 => if Nat.ltb (lb_len b0) s then fail else put_pos s))
                                        (fun _ => bind (drain s e DForward) (fun _ => ret tt)) b = Ok (r1, b', ev)
                                   /\ removed b t b').
      { eapply bind_step; [unfold bind, get; replace (Nat.ltb (lb_len b) s) with false by (symmetry; apply Nat.ltb_ge, bd_le; exact Hbs'); reflexivity|].
        cbv beta.
        destruct (removed_drain b s e DForward (set_pos' b s) Hbs' Hbe' Hle' eq_refl eq_refl eq_refl) as [t' [b2 [Hs' [Hd [Hrm Hb2]]]]].
        rewrite Hc in Hs'. inversion Hs'; subst t'.
        eapply bind_step; [exact Hd|]. cbv beta. eexists _, _, _. split; [reflexivity|].
        assert (Hp2 : pos b2 = s).
        { unfold drain in Hd. cbn [buf set_pos'] in Hd. destruct (str_drain (buf b) s e) as [[x y]|]; [|discriminate].
          inversion Hd; subst. reflexivity. }
        destruct Hrm as [l0 [r0 [H1 [H2 [H3 [H4 H5]]]]]]. exists l0, r0. cbn in *. repeat split; try assumption. rewrite Hp2. exact H3. }
      destruct Hdr as [r1 [b' [ev [Hdr Hrm]]]]. eapply bind_step; [exact Hdr|]. cbv beta.
      eexists _, _, _. split; [reflexivity|]. split; [reflexivity|exact Hrm].
    - (* LineDown *)
      destruct (n_lines_down_ok b n Hw) as [o [Ho Hq]]. rewrite Ho in Hc. destruct o as [[s e]|]; [|discriminate].
      destruct (Hq s e eq_refl) as [Hbs' [Hbe' Hle']]. apply (copy_sl b _ _ t Hbs' Hbe' Hle') in Hc.
      eapply bind_step; [reflexivity|]. cbv beta. eapply bind_step; [unfold lift; rewrite Ho; reflexivity|]. cbv beta.
      unfold delete_range, set_pos. 
      assert (Hdr : exists r1 b' ev, bind (bind get (fun b0 => if Nat.ltb (lb_len b0) s then fail else put_pos s))
                                        (fun _ => bind (drain s e DForward) (fun _ => ret tt)) b = Ok (r1, b', ev)
                                   /\ removed b t b').
      { eapply bind_step; [unfold bind, get; replace (Nat.ltb (lb_len b) s) with false by (symmetry; apply Nat.ltb_ge, bd_le; exact Hbs'); reflexivity|].
        cbv beta.
        destruct (removed_drain b s e DForward (set_pos' b s) Hbs' Hbe' Hle' eq_refl eq_refl eq_refl) as [t' [b2 [Hs' [Hd [Hrm Hb2]]]]].
        rewrite Hc in Hs'. inversion Hs'; subst t'.
        eapply bind_step; [exact Hd|]. cbv beta. eexists _, _, _. split; [reflexivity|].
        assert (Hp2 : pos b2 = s).
        { unfold drain in Hd. cbn [buf set_pos'] in Hd. destruct (str_drain (buf b) s e) as [[x y]|]; [|discriminate].
          inversion Hd; subst. reflexivity. }
        destruct Hrm as [l0 [r0 [H1 [H2 [H3 [H4 H5]]]]]]. exists l0, r0. cbn in *. repeat split; try assumption. rewrite Hp2. exact H3. }
      destruct Hdr as [r1 [b' [ev [Hdr Hrm]]]]. eapply bind_step; [exact Hdr|]. cbv beta.
      eexists _, _, _. split; [reflexivity|]. split; [reflexivity|exact Hrm].
    - (* WholeBuffer *)
      inversion Hc; subst t. clear Hc.
      set (b1 := set_pos' b 0).
      assert (Hmb : exists x, move_buffer_start b = Ok (x, b1, [])).
      { unfold move_buffer_start, bind, get. destruct (Nat.ltb 0 (pos b)) eqn:E; [eexists; reflexivity|].
        apply Nat.ltb_ge in E. assert (Hx : pos b = 0) by lia. unfold b1. rewrite <- Hx, set_pos_self'. eexists. reflexivity. }
      destruct Hmb as [x Hmb]. eapply bind_step; [exact Hmb|]. cbv beta.
      assert (Hsl : slice (buf b1) (pos b1) (lb_len b1) = Ok (buf b)).
      { cbn. pose proof (slice_app [] (buf b) []) as H. cbn [blen plus app] in H. rewrite app_nil_r in H. exact H. }
      destruct (kill_buffer_spec b1 (buf b) (bd_0 _) ltac:(cbn; unfold lb_len in *; lia) Hsl) as [r0 [b' [ev [Hk Hkd]]]].
      eexists _, _, _. split; [exact Hk|]. eapply killed_same_buf; [| | |exact Hkd]; reflexivity.
    - (* BeginningOfBuffer *)
      destruct (Nat.eqb (pos b) 0) eqn:E; [discriminate|]. apply Nat.eqb_neq in E.
      apply (copy_sl b _ _ t (bd_0 _) Hw ltac:(lia)) in Hc.
      unfold discard_buffer. eapply bind_step; [reflexivity|]. cbv beta.
      replace (Nat.ltb 0 (pos b) && negb (Nat.eqb (lb_len b) 0)) with true.
      2:{ symmetry. apply andb_true_intro. split; [apply Nat.ltb_lt; lia|apply negb_true_iff, Nat.eqb_neq; lia]. }
      apply (core_drain_put b 0 (pos b) DBackward t (bd_0 _) Hw ltac:(lia) Hc).
    - (* EndOfBuffer *)
      destruct (Nat.eqb (pos b) (lb_len b)) eqn:E; [discriminate|]. apply Nat.eqb_neq in E.
      pose proof (bd_le _ _ Hw) as Hple. fold (lb_len b) in Hple.
      apply (copy_sl b _ _ t Hw (bd_len _) Hple) in Hc.
      apply (kill_buffer_spec b t Hw ltac:(lia) Hc).
  Qed.
End KillCopy.
