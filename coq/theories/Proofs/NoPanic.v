(* C17 at the level of editor commands: executing ANY command from a state satisfying the
   invariant J (cursor on a character boundary, undo stack a valid edit script, kill ring
   consistent, saved line valid) never reaches a Panic of the model -- no slice off a
   character boundary, no arithmetic underflow, no unwrap of None, no unreachable!() -- and
   re-establishes J. *)
From RL Require Import UData Uax29 LineBuffer LineBufferOps LineBufferProofs LineBufferTotal LineBufferAll
     LineBufferGrow Undo KillRing History Render Keys Editor EditorRun EditorProofs UndoProofs UndoEditor KillRingProofs HistoryProofs.

Definition kr_inv (k : killring) : Prop := kr_ok k /\ (kr_last k = KAKill -> kr_slots k <> []).
Definition saved_ok (s : est) : Prop := bd (fst (e_saved s)) (snd (e_saved s)).
Definition J (s : est) : Prop := wf (e_line s) /\ I s /\ kr_inv (e_kr s) /\ saved_ok s /\ grow (e_line s) = true.

(* what a yank-pop relies on: the ring remembers a yank whose text ends at the cursor *)
Definition yank_ok (s : est) : Prop :=
  match kr_last (e_kr s) with
  | KAYank size => size <= pos (e_line s) /\ bd (buf (e_line s)) (pos (e_line s) - size)
  | _ => True
  end.

Definition npr {A} (s : est) (r : eres A) : Prop :=
  match r with EPanic => False | EOk _ s' => J s' | _ => True end.
Definition np {A} (m : E A) : Prop := forall s, J s -> npr s (m s).

(* steps that touch neither the line, the undo stack, the kill ring nor the saved line, and cannot panic *)
Definition core_eq (s s' : est) : Prop :=
  e_line s' = e_line s /\ e_changes s' = e_changes s /\ e_kr s' = e_kr s /\ e_saved s' = e_saved s.
Definition quiet {A} (m : E A) : Prop :=
  forall s, match m s with EPanic => False | EOk _ s' => core_eq s s' | _ => True end.

Lemma core_eq_J s s' : core_eq s s' -> J s -> J s'.
Proof.
  intros [L [C [K S]]] [Hw [Hi [Hk [Hs Hg]]]]. unfold J, I, saved_ok in *. rewrite L, C, K, S. split; [exact Hw|split; [exact Hi|split; [exact Hk|split; [exact Hs|exact Hg]]]].
Qed.
Lemma np_of_quiet {A} (m : E A) : quiet m -> np m.
Proof. intros H s HJ. specialize (H s). unfold npr. destruct (m s); auto. eapply core_eq_J; eauto. Qed.

Lemma np_bind {A B} (m : E A) (f : A -> E B) : np m -> (forall a, np (f a)) -> np (ebind m f).
Proof.
  intros Hm Hf s HJ. specialize (Hm s HJ). unfold ebind, npr in *. destruct (m s) as [a s1| | |]; auto.
  apply Hf. exact Hm.
Qed.
Lemma quiet_bind {A B} (m : E A) (f : A -> E B) : quiet m -> (forall a, quiet (f a)) -> quiet (ebind m f).
Proof.
  intros Hm Hf s. specialize (Hm s). unfold ebind. destruct (m s) as [a s1| | |]; auto.
  specialize (Hf a s1). destruct (f a s1) as [b s2| | |]; auto.
  destruct Hm as [L1 [C1 [K1 S1]]]. destruct Hf as [L2 [C2 [K2 S2]]]. repeat split; congruence.
Qed.
Lemma q_ret {A} (a : A) : quiet (eret a). Proof. intros s. cbn. repeat split. Qed.
Lemma q_get : quiet eget. Proof. intros s. cbn. repeat split. Qed.
Lemma q_fail {A} e : quiet (@efail A e). Proof. intros s. exact Logic.I. Qed.
Lemma q_fuel {A} : quiet (@efuel A). Proof. intros s. exact Logic.I. Qed.
Lemma q_write b : quiet (write b). Proof. intros s. cbn. repeat split. Qed.
Lemma q_set_layout l : quiet (set_layout l). Proof. intros s. cbn. repeat split. Qed.
Lemma q_set_hint h : quiet (set_hint h). Proof. intros s. cbn. repeat split. Qed.
Lemma q_set_hidx k : quiet (set_hidx k). Proof. intros s. cbn. repeat split. Qed.
Lemma q_observe o : quiet (observe o). Proof. intros s. cbn. repeat split. Qed.
Lemma q_set_input_mode m : quiet (set_input_mode m). Proof. intros s. cbn. repeat split. Qed.
Lemma q_set_num_args z : quiet (set_num_args z). Proof. intros s. cbn. repeat split. Qed.
Lemma q_set_last_cmd c : quiet (set_last_cmd c). Proof. intros s. cbn. repeat split. Qed.
Lemma q_set_last_cs c : quiet (set_last_cs c). Proof. intros s. cbn. repeat split. Qed.
Lemma q_set_inp i : quiet (set_inp i). Proof. intros s. cbn. repeat split. Qed.

Ltac q_auto :=
  repeat (first [ apply q_ret | apply q_get | apply q_fail | apply q_fuel | apply q_write
                | apply q_set_layout | apply q_set_hint | apply q_set_hidx
                | apply q_observe | apply q_set_input_mode | apply q_set_num_args | apply q_set_last_cmd
                | apply q_set_last_cs | apply q_set_inp
                | match goal with |- quiet (ebind _ _) => apply quiet_bind; [|intros] end ] ||
          match goal with
          | |- quiet (if ?c then _ else _) => destruct c
          | |- quiet (match ?x with _ => _ end) => destruct x
          | |- quiet (let '(_, _) := ?x in _) => destruct x
          | |- quiet (let _ := _ in _) => cbv zeta
          end).

(* the kill ring as a listener: any notification sequence leaves it consistent *)
Lemma kr_kill_inv k text m : kr_inv k -> exists k', kr_kill k text m = Ok k' /\ kr_inv k'.
Proof.
  intros [Hok Hk]. destruct (kr_last k) eqn:El.
  - pose proof Hok as [Hc [Hl [He [Hn [He2 Hn2]]]]]. specialize (Hk eq_refl). specialize (Hn Hk). specialize (Hn2 Hk).
    destruct (nth_error (kr_slots k) (kr_index k)) as [s|] eqn:En.
    2:{ apply nth_error_None in En. lia. }
    destruct (kr_kill_more k text m s El Hc En) as [k' [H1 [H2 [H3 [H4 [H5 [H6 _]]]]]]].
    pose proof (kr_kill_more_newest k text m s k' El Hc En H1) as H7.
    assert (Hne : kr_slots k' <> []).
    { intros Hx. rewrite Hx in H6. cbn in H6. destruct (kr_slots k); [congruence|discriminate]. }
    exists k'. split; [exact H1|]. split; [|intros _; exact Hne].
    unfold kr_ok. rewrite H4, H5, H6, H7.
    split; [exact Hc|]. split; [exact Hl|]. split; [intros Hx; contradiction|]. split; [intros _; exact Hn|].
    split; [intros Hx; contradiction|intros _; exact Hn2].
  - destruct (kr_kill_new k text m Hok) as [k' [H1 [H2 [H3 [H4 _]]]]]; [congruence|].
    exists k'. split; [exact H1|]. split; [exact H4|]. intros _ Hx. unfold cur_slot in H2. rewrite Hx in H2.
    destruct (kr_index k'); discriminate.
  - destruct (kr_kill_new k text m Hok) as [k' [H1 [H2 [H3 [H4 _]]]]]; [congruence|].
    exists k'. split; [exact H1|]. split; [exact H4|]. intros _ Hx. unfold cur_slot in H2. rewrite Hx in H2.
    destruct (kr_index k'); discriminate.
Qed.

Lemma kr_notify_all_inv es : forall k, kr_inv k -> exists k', kr_notify_all k es = Ok k' /\ kr_inv k'.
Proof.
  induction es as [|e es IH]; intros k Hk; cbn [kr_notify_all]; [exists k; split; [reflexivity|exact Hk]|].
  assert (H1 : exists k1, kr_notify k e = Ok k1 /\ kr_inv k1).
  { destruct e; cbn [kr_notify]; try (exists k; split; [reflexivity|exact Hk]).
    - destruct (kr_killing k); [apply kr_kill_inv; exact Hk|exists k; split; [reflexivity|exact Hk]].
    - eexists. split; [reflexivity|]. exact Hk.
    - eexists. split; [reflexivity|]. exact Hk. }
  destruct H1 as [k1 [-> Hk1]]. apply IH. exact Hk1.
Qed.

Section NoPanic.
  Variable U : UData.
  Variable cfg : config.
  Let seg := useg U.

  Lemma seg_concat' : forall s, concat (seg s) = s. Proof. apply useg_concat. Qed.
  Lemma seg_nonempty' : forall s g, In g (seg s) -> g <> [].
  Proof. intros s g Hin. pose proof (useg_nonempty U s) as Hf. rewrite Forall_forall in Hf. apply Hf. exact Hin. Qed.

  (* ---------- display-only steps ---------- *)
  Lemma q_update_hint : quiet (update_hint cfg). Proof. unfold update_hint. q_auto. Qed.
  Lemma q_refresh p ps d i : quiet (refresh U cfg p ps d i). Proof. unfold refresh. q_auto. Qed.
  Lemma q_refresh_line : quiet (refresh_line U cfg).
  Proof. unfold refresh_line. q_auto; try apply q_update_hint; apply q_refresh. Qed.
  Lemma q_refresh_line_with_msg m : quiet (refresh_line_with_msg U cfg m).
  Proof. unfold refresh_line_with_msg. q_auto; apply q_refresh. Qed.
  Lemma q_move_cursor : quiet (move_cursor U cfg). Proof. unfold move_cursor. q_auto. Qed.
  Lemma q_move_cursor_to_end : quiet move_cursor_to_end. Proof. unfold move_cursor_to_end. q_auto. Qed.
  Lemma q_beep : quiet (beep cfg). Proof. unfold beep. q_auto. Qed.

  Ltac q_side :=
    first [ apply q_refresh_line | apply q_refresh_line_with_msg | apply q_refresh | apply q_update_hint
          | apply q_move_cursor | apply q_move_cursor_to_end | apply q_beep ].
  Ltac q_all := q_auto; try q_side.

  (* ---------- the three ways a line-buffer operation runs inside the editor ---------- *)

  Lemma np_lb_changes_at {A} (m : M A) s :
    J s -> (exists a b' ev, m (e_line s) = Ok (a, b', ev) /\ wf b') -> good m -> kg m -> npr s (lb_changes U m s).
  Proof.
    intros HJ [a [b' [ev [Hm Hw']]]] Hg Hkg. pose proof (proj1 (Hkg _ _ _ _ Hm)) as Hgb. pose proof HJ as [Hw [Hi [Hk [Hs Hgr]]]].
    pose proof (pres_lb_changes U m Hg s) as Hpres. unfold lb_changes in *. unfold ebind at 1 in Hpres. unfold ebind at 1.
    cbn [eget] in *. rewrite Hm in *. cbn [ebind set_line upd_line set_changes eret] in *.
    unfold npr. split; [exact Hw'|]. split; [eapply Hpres; [exact Hi|reflexivity]|]. split; [exact Hk|split; [exact Hs|cbn; rewrite Hgb; exact Hgr]].
  Qed.
  Lemma np_lb_changes {A} (m : M A) : total_wf m -> good m -> kg m -> np (lb_changes U m).
  Proof. intros Ht Hg Hkg s HJ. apply np_lb_changes_at; [exact HJ|apply Ht; apply HJ|exact Hg|exact Hkg]. Qed.

  Lemma np_lb_quiet_at {A} (m : M A) s :
    J s -> (exists a b' ev, m (e_line s) = Ok (a, b', ev) /\ wf b') -> pure m -> kg m -> npr s (lb_quiet m s).
  Proof.
    intros HJ [a [b' [ev [Hm Hw']]]] Hp Hkg. pose proof (proj1 (Hkg _ _ _ _ Hm)) as Hgb. pose proof HJ as [Hw [Hi [Hk [Hs Hgr]]]].
    unfold lb_quiet. unfold ebind at 1. cbn [eget]. rewrite Hm. cbn [ebind set_line upd_line eret]. unfold eret.
    destruct (Hp _ _ _ _ Hm) as [Hb _].
    unfold npr, J, I, saved_ok in *. cbn [e_line e_kr e_saved e_changes]. rewrite Hb.
    split; [exact Hw'|]. split; [exact Hi|]. split; [exact Hk|split; [exact Hs|rewrite Hgb; exact Hgr]].
  Qed.
  Lemma np_lb_quiet {A} (m : M A) : total_wf m -> pure m -> kg m -> np (lb_quiet m).
  Proof. intros Ht Hp Hkg s HJ. apply np_lb_quiet_at; [exact HJ|apply Ht; apply HJ|exact Hp|exact Hkg]. Qed.

  Lemma np_lb_kill {A} (m : M A) : total_wf m -> good m -> kg m -> np (lb_kill U m).
  Proof.
    intros Ht Hg Hkg s HJ. pose proof HJ as [Hw [Hi [Hk [Hs Hgr]]]].
    destruct (Ht _ Hw) as [a [b' [ev [Hm Hw']]]]. pose proof (proj1 (Hkg _ _ _ _ Hm)) as Hgb.
    pose proof (pres_lb_kill U m Hg s) as Hpres. unfold lb_kill in *. unfold ebind at 1 in Hpres. unfold ebind at 1.
    cbn [eget] in *. rewrite Hm in *. destruct (kr_notify_all_inv ev _ Hk) as [k' [Hn Hk']]. rewrite Hn in *.
    cbn [ebind set_line upd_line set_changes set_kr eret] in *.
    unfold npr. split; [exact Hw'|]. split; [eapply Hpres; [exact Hi|reflexivity]|]. split; [exact Hk'|split; [exact Hs|cbn; rewrite Hgb; exact Hgr]].
  Qed.

  Lemma np_changes_begin : np changes_begin.
  Proof.
    intros s HJ. pose proof HJ as [Hw [Hi [Hk [Hs Hgr]]]]. pose proof (pres_changes_begin s) as Hp.
    unfold changes_begin in *. unfold ebind at 1 in Hp. unfold ebind at 1. cbn [eget] in *.
    destruct (cs_begin (e_changes s)) as [c mark]. cbn [ebind set_changes eret] in *.
    unfold npr. split; [exact Hw|]. split; [eapply Hp; [exact Hi|reflexivity]|]. split; [exact Hk|split; [exact Hs|exact Hgr]].
  Qed.
  Lemma np_changes_end : np changes_end.
  Proof.
    intros s HJ. pose proof HJ as [Hw [Hi [Hk [Hs Hgr]]]]. pose proof (pres_changes_end s) as Hp.
    unfold changes_end in *. unfold ebind at 1 in Hp. unfold ebind at 1. cbn [eget] in *.
    destruct (cs_end (e_changes s)) as [c t]. cbn [ebind set_changes eret] in *.
    unfold npr. split; [exact Hw|]. split; [eapply Hp; [exact Hi|reflexivity]|]. split; [exact Hk|split; [exact Hs|exact Hgr]].
  Qed.

  (* a fact about the line survives steps that keep the line *)
  Lemma np_keep {A} (m : E A) (P : lb -> Prop) :
    np m -> keeps_line m ->
    forall s, J s -> P (e_line s) -> match m s with EPanic => False | EOk _ s' => J s' /\ P (e_line s') | _ => True end.
  Proof.
    intros Hn Hk s HJ HP. specialize (Hn s HJ). unfold npr in Hn. destruct (m s) as [a s'| | |] eqn:E; auto.
    split; [exact Hn|]. rewrite (Hk _ _ _ E). exact HP.
  Qed.

  Lemma np_at_bind {A B} (m : E A) (f : A -> E B) s :
    match m s with EPanic => False | EOk a s' => npr s' (f a s') | _ => True end -> npr s (ebind m f s).
  Proof. unfold ebind, npr. destruct (m s); auto. Qed.

  Ltac np_q := apply np_of_quiet; q_all; fail.

  Lemma pure_move_backward n : pure (move_backward seg n).
  Proof.
    unfold LineBuffer.move_backward. apply pure_bind; [apply pure_get|]. intros b0. apply pure_bind; [apply pure_lift|].
    intros r. destruct r; [apply pure_bind; [apply pure_put|intros; apply pure_ret]|apply pure_ret].
  Qed.

  Lemma pure_move_end : pure move_end.
  Proof.
    unfold LineBuffer.move_end. apply pure_bind; [apply pure_get|]. intros b0. apply pure_bind; [apply pure_lift|].
    intros e. destruct (Nat.eqb (pos b0) e); [apply pure_ret|apply pure_bind; [apply pure_put|intros; apply pure_ret]].
  Qed.

  Lemma pure_move_forward n : pure (move_forward seg n).
  Proof.
    unfold LineBuffer.move_forward. apply pure_bind; [apply pure_get|]. intros b0. apply pure_bind; [apply pure_lift|].
    intros r. destruct r; [apply pure_bind; [apply pure_put|intros; apply pure_ret]|apply pure_ret].
  Qed.

  Lemma np_moved m : total_wf m -> pure m -> kg m -> np (moved U cfg m).
  Proof.
    intros Ht Hp Hkg. unfold moved. apply np_bind; [apply np_lb_quiet; assumption|]. intros r. destruct r; np_q.
  Qed.

  Lemma np_edit_insert ch n : np (edit_insert U cfg ch n).
  Proof.
    unfold edit_insert. apply np_bind; [apply np_lb_changes; [apply insert_total|apply good_insert|apply kg_insert]|].
    intros r. np_q.
  Qed.

  Lemma np_edit_yank text a n : np (edit_yank U cfg text a n).
  Proof.
    unfold edit_yank. apply np_bind.
    { destruct a; [|np_q]. apply np_bind; [|intros; np_q].
      apply np_lb_quiet; [apply move_forward_total; apply seg_concat'|apply pure_move_forward|apply kg_move_forward]. }
    intros _. apply np_bind; [apply np_lb_changes; [apply yank_total|apply good_yank|apply kg_yank]|]. intros r.
    destruct r; [|np_q]. apply np_bind; [|intros; np_q].
    destruct (is_emacs cfg); [np_q|]. apply np_bind; [|intros; np_q].
    apply np_lb_quiet; [apply move_backward_total; apply seg_concat'|apply pure_move_backward|apply kg_move_backward].
  Qed.

  Lemma np_edit_kill m : np (edit_kill U cfg m).
  Proof.
    unfold edit_kill. apply np_bind; [apply np_lb_kill; [apply kill_total; [apply seg_concat'|apply seg_nonempty']|apply good_kill|apply kg_kill]|].
    intros r. destruct r; np_q.
  Qed.

  Lemma np_edit_insert_text text : np (edit_insert_text U cfg text).
  Proof.
    unfold edit_insert_text. destruct text as [|c t]; [np_q|].
    intros s HJ. unfold ebind at 1. cbn [eget]. apply np_at_bind.
    pose proof (np_lb_changes_at (insert_str (pos (e_line s)) (c :: t)) s HJ) as H.
    assert (Hpre : exists a b' ev, insert_str (pos (e_line s)) (c :: t) (e_line s) = Ok (a, b', ev) /\ wf b').
    { apply (insert_str_total (pos (e_line s)) (c :: t)). destruct HJ as [Hw _]. repeat split; [exact Hw|exact Hw|lia]. }
    specialize (H Hpre (good_insert_str _ _) (kg_insert_str _ _)). unfold npr in H.
    destruct (lb_changes U (insert_str (pos (e_line s)) (c :: t)) s) as [a s'| | |]; auto.
    apply (np_of_quiet _ q_refresh_line). exact H.
  Qed.

  Lemma np_grouped m : total_wf m -> good m -> kg m -> np (grouped U cfg m).
  Proof.
    intros Ht Hg Hkg. unfold grouped. apply np_bind; [apply np_changes_begin|]. intros _.
    apply np_bind; [apply np_lb_changes; assumption|]. intros r.
    apply np_bind; [apply np_changes_end|]. intros _. destruct r; np_q.
  Qed.

  Lemma np_edit_replace_char ch n : np (edit_replace_char U cfg ch n).
  Proof.
    unfold edit_replace_char. apply np_bind; [apply np_changes_begin|]. intros _.
    apply np_bind; [apply np_lb_changes; [apply delete_total; apply seg_concat'|apply good_delete|apply kg_delete]|]. intros r.
    apply np_bind.
    - destruct r; [|np_q].
      apply np_bind; [apply np_lb_changes; [apply insert_total|apply good_insert|apply kg_insert]|]. intros _.
      apply np_bind; [apply np_lb_quiet; [apply move_backward_total; apply seg_concat'|apply pure_move_backward|apply kg_move_backward]|].
      intros _. np_q.
    - intros ok. apply np_bind; [apply np_changes_end|]. intros _. destruct ok; np_q.
  Qed.

  Lemma np_edit_overwrite_char ch : np (edit_overwrite_char U cfg ch).
  Proof.
    intros s HJ. unfold edit_overwrite_char. unfold ebind at 1. cbn [eget].
    pose proof HJ as [Hw _]. pose proof Hw as [l [r [Hb Hp]]].
    destruct (next_pos_ok seg seg_concat' (e_line s) 1 l r Hb Hp) as [o [Ho Hq]]. unfold Editor.seg. fold seg. rewrite Ho.
    destruct o as [e|]; [|cbn; exact HJ].
    destruct (Hq e eq_refl) as [m' [r' [Hr He]]].
    apply np_at_bind.
    pose proof (np_lb_changes_at (replace (pos (e_line s)) e [ch]) s HJ) as H.
    assert (Hpre : exists a b' ev, replace (pos (e_line s)) e [ch] (e_line s) = Ok (a, b', ev) /\ wf b').
    { apply (replace_total (pos (e_line s)) e [ch]). split; [exact Hw|]. split; [|lia].
      rewrite Hb, Hr, He, app_assoc, <- blen_app. apply bd_mid. }
    specialize (H Hpre (good_replace _ _ _) (kg_replace _ _ _)). unfold npr in H.
    destruct (lb_changes U (replace (pos (e_line s)) e [ch]) s) as [a s'| | |]; auto.
    apply (np_of_quiet _ q_refresh_line). exact H.
  Qed.

  Lemma np_complete_hint_line : np (complete_hint_line U cfg).
  Proof.
    unfold complete_hint_line. intros s HJ. unfold ebind at 1. cbn [eget]. destruct (e_hint s) as [text|]; [|cbn; exact HJ].
    revert s HJ. change (np (edo _ <- lb_quiet move_end; edo r <- lb_changes U (yank text 1);
                             (match r with None => beep cfg | Some _ => eret tt end) ;;; refresh_line U cfg)).
    apply np_bind; [apply np_lb_quiet; [apply move_end_total|apply pure_move_end|apply kg_move_end]|]. intros _.
    apply np_bind; [apply np_lb_changes; [apply yank_total|apply good_yank|apply kg_yank]|]. intros r.
    apply np_bind; [destruct r; np_q|]. intros _. np_q.
  Qed.

  Ltac pure_a :=
    repeat (first [ apply pure_ret | apply pure_get | apply pure_put | apply pure_fail | apply pure_lift
                  | (apply pure_bind; [|intros]) ] ||
            match goal with
            | |- pure (if ?c then _ else _) => destruct c
            | |- pure (match ?x with _ => _ end) => destruct x
            | |- pure (let '(_, _) := ?x in _) => destruct x
            | |- pure (let _ := _ in _) => cbv zeta
            end).

  Lemma np_line_up n : np (edit_move_line_up U cfg n).
  Proof.
    unfold edit_move_line_up. intros s HJ. unfold ebind at 1. cbn [eget]. revert s HJ.
    match goal with |- forall s, J s -> npr s (?m s) => change (forall s, J s -> (fun s0 => npr s0 (m s0)) s) end.
    intros s HJ. cbv beta. apply np_at_bind.
    pose proof (np_lb_quiet (move_to_line_up seg (layout_w U) n (p_col (l_prompt_size (e_layout s))))) as H.
    specialize (H (move_to_line_up_total seg seg_concat' seg_nonempty' _ _ _)).
    assert (Hp : pure (move_to_line_up seg (layout_w U) n (p_col (l_prompt_size (e_layout s))))).
    { unfold LineBuffer.move_to_line_up. pure_a. }
    specialize (H Hp (kg_move_to_line_up _ _ _ _) s HJ). unfold npr in H. unfold Editor.seg. fold seg.
    destruct (lb_quiet (move_to_line_up seg (layout_w U) n (p_col (l_prompt_size (e_layout s)))) s) as [r s'| | |]; auto.
    destruct r; [|exact H]. apply np_at_bind. pose proof (np_of_quiet _ q_move_cursor s' H) as H2. unfold npr in H2.
    destruct (move_cursor U cfg s'); auto.
  Qed.
  Lemma np_line_down n : np (edit_move_line_down U cfg n).
  Proof.
    unfold edit_move_line_down. intros s HJ. unfold ebind at 1. cbn [eget]. apply np_at_bind.
    pose proof (np_lb_quiet (move_to_line_down seg (layout_w U) n (p_col (l_prompt_size (e_layout s))))) as H.
    specialize (H (move_to_line_down_total seg seg_concat' seg_nonempty' _ _ _)).
    assert (Hp : pure (move_to_line_down seg (layout_w U) n (p_col (l_prompt_size (e_layout s))))).
    { unfold LineBuffer.move_to_line_down. pure_a. }
    specialize (H Hp (kg_move_to_line_down _ _ _ _) s HJ). unfold npr in H. unfold Editor.seg. fold seg.
    destruct (lb_quiet (move_to_line_down seg (layout_w U) n (p_col (l_prompt_size (e_layout s)))) s) as [r s'| | |]; auto.
    destruct r; [|exact H]. apply np_at_bind. pose proof (np_of_quiet _ q_move_cursor s' H) as H2. unfold npr in H2.
    destruct (move_cursor U cfg s'); auto.
  Qed.

  Lemma np_backup : np backup.
  Proof.
    intros s [Hw [Hi [Hk [Hs Hgr]]]]. unfold backup, ebind, eget, set_saved, npr.
    split; [exact Hw|]. split; [exact Hi|]. split; [exact Hk|split; [exact Hw|exact Hgr]].
  Qed.

  Lemma np_restore : np (restore U).
  Proof.
    intros s HJ. unfold restore. unfold ebind at 1. cbn [eget].
    apply np_lb_changes_at; [exact HJ| |apply good_update|apply kg_update].
    destruct HJ as [Hw [_ [_ [Hs _]]]]. apply (update_total _ _ Hs). exact Hw.
  Qed.

  Lemma np_recall entry p :
    bd entry p ->
    np (edo _ <- changes_begin; lb_changes U (update entry p) ;;; edo _ <- changes_end; refresh_line U cfg).
  Proof.
    intros Hp. apply np_bind; [apply np_changes_begin|]. intros _.
    apply np_bind; [apply np_lb_changes; [exact (update_total _ _ Hp)|apply good_update|apply kg_update]|]. intros _.
    apply np_bind; [apply np_changes_end|]. intros _. np_q.
  Qed.

  Lemma np_get_bind {A} (f : est -> E A) : (forall s0, J s0 -> npr s0 (f s0 s0)) -> np (ebind eget f).
  Proof. intros H s HJ. unfold ebind, eget. apply H. exact HJ. Qed.
  Lemma np_apply {A} (m : E A) s : np m -> J s -> npr s (m s).
  Proof. intros H HJ. apply H. exact HJ. Qed.

  Lemma np_if {A} (c : bool) (m1 m2 : E A) : np m1 -> np m2 -> np (if c then m1 else m2).
  Proof. destruct c; auto. Qed.

  Lemma np_edit_history_next prev : np (edit_history_next U cfg prev).
  Proof.
    unfold edit_history_next. apply np_get_bind. intros s HJ. apply np_apply; [|exact HJ]. cbv zeta.
    apply np_if; [np_q|]. apply np_if; [np_q|]. apply np_if; [np_q|].
    apply np_bind; [apply np_if; [apply np_backup|np_q]|]. intros _.
    apply np_bind; [destruct prev; np_q|]. intros idx.
    apply np_if.
    - destruct (nth_error (e_hist s) idx) as [entry|]; [|np_q].
      apply np_bind; [np_q|]. intros _. apply np_recall. apply bd_len.
    - apply np_bind; [apply np_restore|]. intros _. np_q.
  Qed.

  Lemma np_edit_history first : np (edit_history U cfg first).
  Proof.
    unfold edit_history. apply np_get_bind. intros s HJ. apply np_apply; [|exact HJ]. cbv zeta.
    apply np_if; [np_q|]. apply np_if; [np_q|]. apply np_if; [np_q|].
    apply np_bind; [apply np_if; [apply np_backup|np_q]|]. intros _.
    apply np_if.
    - destruct (nth_error (e_hist s) 0) as [entry|]; [|np_q].
      apply np_bind; [np_q|]. intros _. apply np_recall. apply bd_len.
    - apply np_bind; [np_q|]. intros _. apply np_bind; [apply np_restore|]. intros _. np_q.
  Qed.

  Lemma np_edit_history_search d : np (edit_history_search U cfg d).
  Proof.
    unfold edit_history_search. apply np_get_bind. intros s HJ. apply np_apply; [|exact HJ]. cbv zeta.
    apply np_if; [apply np_of_quiet, q_beep|]. apply np_if; [apply np_of_quiet, q_beep|].
    apply np_bind; [np_q|]. intros _.
    destruct (h_starts_with (hist_of s) (line_before (e_line s))
                            match d with Reverse => e_hidx s - 1 | Forward => S (e_hidx s) end d) as [[[i p] entry]|] eqn:E;
      [|apply np_of_quiet, q_beep].
    apply np_bind; [np_q|]. intros _. apply np_recall.
    unfold h_starts_with in E. apply search_match_some in E. destruct E as [_ [_ [_ [Ht _]]]].
    destruct (prefix_b (line_before (e_line s)) entry) eqn:Ep; [|discriminate]. inversion Ht; subst p.
    apply prefix_b_spec in Ep. destruct Ep as [r ->]. apply bd_mid.
  Qed.

  Lemma np_validate : np (validate U cfg).
  Proof.
    unfold validate. destruct (c_has_helper cfg); [|np_q].
    apply np_bind; [apply np_changes_begin|]. intros _.
    apply np_get_bind. intros s HJ. apply np_apply; [|exact HJ]. cbv zeta.
    destruct (c_validate cfg (buf (e_line s))) as [msg|msg| |]; [| | |np_q];
      (apply np_bind; [apply np_changes_end|]; intros corrected; np_q).
  Qed.

  (* ---------- undo: whatever it returns has its cursor on a boundary ---------- *)

  Lemma change_undo_wf ch b b' : change_undo ch b = Ok b' -> wf b'.
  Proof.
    destruct ch as [| |idx text|idx text|idx old new]; cbn [change_undo]; try discriminate.
    - unfold delete_range, set_pos, bind, get, fail, put_pos, ret, drain, str_drain.
      destruct (Nat.ltb (lb_len b) idx); [discriminate|]. cbn [buf set_pos'].
      destruct (Nat.ltb (idx + blen text) idx); [discriminate|].
      destruct (bsplit (buf b) idx) as [[l r]|] eqn:E1; [|discriminate].
      destruct (bsplit r (idx + blen text - idx)) as [[m r']|]; [|discriminate].
      intros H. inversion H; subst b'. destruct (bsplit_some _ _ _ _ E1) as [_ Hl].
      exists l, r'. cbn. split; [reflexivity|symmetry; exact Hl].
    - unfold insert_str, str_insert. destruct (bsplit (buf b) idx) as [[l r]|] eqn:E1; [|discriminate].
      unfold set_pos, bind, get, fail, put_pos. cbn [lb_len buf set_buf].
      match goal with |- context [if ?c then _ else _] => destruct c end; [discriminate|].
      intros H. inversion H; subst b'. destruct (bsplit_some _ _ _ _ E1) as [_ Hl].
      exists (l ++ text), r. cbn. split; [rewrite <- app_assoc; reflexivity|rewrite blen_app, Hl; reflexivity].
    - unfold replace, replace_range. destruct (slice (buf b) idx (idx + blen new)); [|discriminate].
      unfold str_drain. destruct (Nat.ltb (idx + blen new) idx); [discriminate|].
      destruct (bsplit (buf b) idx) as [[l r]|] eqn:E1; [|discriminate].
      destruct (bsplit r (idx + blen new - idx)) as [[m r']|]; [|discriminate].
      destruct (bsplit_some _ _ _ _ E1) as [_ Hl]. unfold str_insert. rewrite <- Hl, bsplit_app.
      intros H. inversion H; subst b'. exists (l ++ old), r'. cbn.
      split; [rewrite <- app_assoc; reflexivity|symmetry; apply blen_app].
  Qed.

  Lemma cs_undo_loop_wf : forall undos b n count waiting undone u b' d,
    wf b -> cs_undo_loop undos b n count waiting undone = Ok (u, b', d) -> wf b'.
  Proof.
    induction undos as [|ch rest IH]; intros b n count waiting undone u b' d Hw H; cbn [cs_undo_loop] in H.
    { inversion H; subst. exact Hw. }
    assert (Hstep : forall b1 w1 u1, wf b1 ->
              (if (w1 <=? 0)%Z then if Nat.leb n (S count) then Ok (rest, b1, u1) else cs_undo_loop rest b1 n (S count) w1 u1
               else cs_undo_loop rest b1 n count w1 u1) = Ok (u, b', d) -> wf b').
    { intros b1 w1 u1 Hw1 H1. destruct (w1 <=? 0)%Z.
      - destruct (Nat.leb n (S count)); [inversion H1; subst; exact Hw1|eapply IH; eauto].
      - eapply IH; eauto. }
    destruct ch; try (eapply Hstep; [exact Hw|exact H]);
      match type of H with context [change_undo ?c b] => destruct (change_undo c b) as [b1|] eqn:E; [|discriminate] end;
      (eapply Hstep; [eapply change_undo_wf; exact E|exact H]).
  Qed.

  Lemma change_undo_grow ch b b' : change_undo ch b = Ok b' -> grow b' = grow b.
  Proof.
    destruct ch as [| |idx text|idx text|idx old new]; cbn [change_undo]; try discriminate.
    - destruct (delete_range idx (idx + blen text) b) as [[[x b1] ev]|] eqn:E; [|discriminate].
      intros H; inversion H; subst. apply (kg_delete_range _ _ _ _ _ _ E).
    - destruct (insert_str idx text b) as [[[x b1] ev]|] eqn:E; [|discriminate].
      destruct (set_pos (idx + blen text) b1) as [[[y b2] ev2]|] eqn:E2; [|discriminate].
      intros H; inversion H; subst. rewrite (proj1 (kg_set_pos _ _ _ _ _ E2)). apply (kg_insert_str _ _ _ _ _ _ E).
    - destruct (replace idx (idx + blen new) old b) as [[[x b1] ev]|] eqn:E; [|discriminate].
      intros H; inversion H; subst. apply (kg_replace _ _ _ _ _ _ _ E).
  Qed.

  Lemma cs_undo_loop_grow : forall undos b n count waiting undone u b' d,
    cs_undo_loop undos b n count waiting undone = Ok (u, b', d) -> grow b' = grow b.
  Proof.
    induction undos as [|ch rest IH]; intros b n count waiting undone u b' d H; cbn [cs_undo_loop] in H.
    { inversion H; subst. reflexivity. }
    assert (Hstep : forall b1 w1 u1, grow b1 = grow b ->
              (if (w1 <=? 0)%Z then if Nat.leb n (S count) then Ok (rest, b1, u1) else cs_undo_loop rest b1 n (S count) w1 u1
               else cs_undo_loop rest b1 n count w1 u1) = Ok (u, b', d) -> grow b' = grow b).
    { intros b1 w1 u1 Hg1 H1. rewrite <- Hg1. destruct (w1 <=? 0)%Z.
      - destruct (Nat.leb n (S count)); [inversion H1; subst; reflexivity|eapply IH; eauto].
      - eapply IH; eauto. }
    destruct ch; try (eapply Hstep; [reflexivity|exact H]);
      match type of H with context [change_undo ?c b] => destruct (change_undo c b) as [b1|] eqn:E; [|discriminate] end;
      (eapply Hstep; [eapply change_undo_grow; exact E|exact H]).
  Qed.

  Lemma np_undo n : np (edo s <- eget;
                        match cs_undo (e_changes s) (e_line s) n with
                        | Panic => epanic
                        | Ok (c', b', undone) =>
                          set_changes c' ;;; set_line b' ;;; (if undone then refresh_line U cfg else eret tt) ;;; eret Proceed
                        end).
  Proof.
    intros s HJ. pose proof HJ as [Hw [Hi [Hk [Hs Hgr]]]]. unfold ebind at 1. cbn [eget].
    destruct (undo_total (e_changes s) (e_line s) n Hi) as [c' [b' [d [Hu Hv]]]]. rewrite Hu.
    assert (Hw' : wf b').
    { unfold cs_undo in Hu. destruct (cs_undo_loop (cs_undos (e_changes s)) (e_line s) n 0 0%Z false) as [[[u b1] d1]|] eqn:E; [|discriminate].
      inversion Hu; subst. eapply cs_undo_loop_wf; [exact Hw|exact E]. }
    assert (Hg' : grow b' = true).
    { unfold cs_undo in Hu. destruct (cs_undo_loop (cs_undos (e_changes s)) (e_line s) n 0 0%Z false) as [[[u b1] d1]|] eqn:E; [|discriminate].
      inversion Hu; subst. rewrite (cs_undo_loop_grow _ _ _ _ _ _ _ _ _ E). exact Hgr. }
    apply np_at_bind. cbn [set_changes]. apply np_at_bind. cbn [set_line upd_line].
    match goal with |- npr ?s1 _ => assert (HJ1 : J s1) by (split; [exact Hw'|split; [exact Hv|split; [exact Hk|split; [exact Hs|exact Hg']]]]) end.
    apply np_apply; [|exact HJ1]. apply np_bind; [destruct d; np_q|]. intros _. np_q.
  Qed.

  (* ---------- kill ring steps ---------- *)

  Lemma np_set_kr k : kr_inv k -> np (set_kr k).
  Proof. intros Hk s [Hw [Hi [_ [Hs Hgr]]]]. cbn. split; [exact Hw|split; [exact Hi|split; [exact Hk|split; [exact Hs|exact Hgr]]]]. Qed.

  Lemma kr_yank_inv k : kr_inv k -> kr_inv (fst (kr_yank k)).
  Proof.
    intros Hinv. unfold kr_yank. destruct (nth_error (kr_slots k) (kr_index k)); cbn [fst]; [|exact Hinv].
    destruct Hinv as [Hok _]. split; [exact Hok|]. cbn. discriminate.
  Qed.

  Lemma kr_yank_pop_inv k : kr_inv k -> kr_inv (fst (kr_yank_pop k)).
  Proof.
    intros Hinv. unfold kr_yank_pop. destruct (kr_last k); cbn [fst]; try exact Hinv.
    destruct (kr_slots k) as [|s0 sl] eqn:Es; cbn [fst]; [exact Hinv|]. cbv zeta.
    match goal with |- context [nth_error ?l ?i] => destruct (nth_error l i) as [x|] eqn:En end; cbn [fst]; [|exact Hinv].
    split; [|cbn; discriminate]. destruct Hinv as [[Hc [Hl [He [Hn [He2 Hn2]]]]] _]. unfold kr_ok. cbn [kr_slots kr_cap kr_index kr_newest].
    rewrite Es in *. split; [exact Hc|]. split; [exact Hl|]. split; [discriminate|]. split; [intros _; apply nth_error_Some; rewrite En; discriminate|].
    split; [discriminate|exact Hn2].
  Qed.

  Lemma np_edit_yank_pop size text : np (edit_yank_pop U cfg size text).
  Proof.
    unfold edit_yank_pop. apply np_bind; [apply np_changes_begin|]. intros _.
    apply np_bind; [apply np_lb_changes; [apply yank_pop_total|apply good_yank_pop|apply kg_yank_pop]|]. intros r.
    apply np_bind; [destruct r; np_q|]. intros _. apply np_bind; [apply np_changes_end|]. intros _. np_q.
  Qed.

  (* ---------- every command ---------- *)

  Ltac seg_side := try apply seg_concat'; try apply seg_nonempty'.
  Ltac total_side :=
    first [ apply transpose_chars_total | apply edit_word_total | apply transpose_words_total | apply indent_total
          | apply move_home_total | apply move_end_total | apply move_backward_total | apply move_forward_total
          | apply move_buffer_start_total | apply move_buffer_end_total | apply move_to_prev_word_total
          | apply move_to_next_word_total | apply move_to_total ]; seg_side.
  Ltac good_side :=
    first [ apply good_edit_word | apply good_transpose_chars | apply good_transpose_words | apply good_indent ].
  Ltac kg_side :=
    first [ apply kg_edit_word | apply kg_transpose_chars | apply kg_transpose_words | apply kg_indent
          | apply kg_move_home | apply kg_move_end | apply kg_move_backward | apply kg_move_forward
          | apply kg_move_buffer_start | apply kg_move_buffer_end | apply kg_move_to_prev_word
          | apply kg_move_to_next_word | apply kg_move_to ].
  Ltac pure_side :=
    unfold LineBuffer.move_home, LineBuffer.move_end, LineBuffer.move_backward, LineBuffer.move_forward,
      LineBuffer.move_buffer_start, LineBuffer.move_buffer_end, LineBuffer.move_to_prev_word,
      LineBuffer.move_to_next_word, LineBuffer.move_to; pure_a.
  Ltac np_known :=
    first [ apply np_validate | apply np_edit_history | apply np_edit_history_next | apply np_edit_history_search
          | apply np_complete_hint_line | apply np_edit_yank | apply np_edit_kill | apply np_edit_insert_text
          | apply np_edit_insert | apply np_edit_replace_char | apply np_edit_overwrite_char | apply np_line_up
          | apply np_line_down | apply np_restore | apply np_undo | apply np_changes_end
          | (apply np_grouped; [total_side|good_side|kg_side])
          | (apply np_lb_changes; [total_side|good_side|kg_side])
          | (apply np_moved; [total_side|pure_side; fail|kg_side])
          | np_q ].
  Ltac np_all :=
    repeat (first [ np_known
                  | match goal with |- np (ebind eget _) => apply np_get_bind; intros ? ?; (apply np_apply; [|assumption]) end
                  | match goal with |- np (ebind _ _) => apply np_bind; [|intros] end ] ||
            match goal with
            | |- np (if ?c then _ else _) => destruct c
            | |- np (match ?x with _ => _ end) => destruct x
            | |- np (let '(_, _) := ?x in _) => destruct x
            | |- np (let _ := _ in _) => cbv zeta
            end).

  Lemma kr_reset_inv k : kr_inv k -> kr_inv (kr_reset k).
  Proof. intros [Hok _]. split; [exact Hok|]. cbn. discriminate. Qed.

  Lemma np_forget_yank : np (edo s2 <- eget; set_kr (kr_reset (e_kr s2))).
  Proof.
    apply np_get_bind. intros s HJ. apply np_apply; [|exact HJ]. apply np_set_kr. apply kr_reset_inv. apply HJ.
  Qed.

  Lemma kr_repeated_inv k n : kr_inv k -> kr_inv (kr_repeated k n).
  Proof.
    intros Hinv. unfold kr_repeated. destruct (kr_last k); try exact Hinv.
    destruct Hinv as [Hok _]. split; [exact Hok|]. cbn. discriminate.
  Qed.

  Lemma np_after_yank n : np (edo s2 <- eget; set_kr (if is_emacs cfg then kr_repeated (e_kr s2) n else kr_reset (e_kr s2))).
  Proof.
    apply np_get_bind. intros s HJ. apply np_apply; [|exact HJ]. apply np_set_kr.
    destruct (is_emacs cfg); [apply kr_repeated_inv|apply kr_reset_inv]; apply HJ.
  Qed.

  Lemma np_cmd_yank n a : np (edo s <- eget; let '(k', t) := kr_yank (e_kr s) in
                              set_kr k' ;;;
                              (match t with
                               | Some text =>
                                 edit_yank U cfg text a n ;;;
                                 (edo s2 <- eget; set_kr (if is_emacs cfg then kr_repeated (e_kr s2) n else kr_reset (e_kr s2)))
                               | None => eret tt
                               end) ;;; eret Proceed).
  Proof.
    apply np_get_bind. intros s HJ. apply np_apply; [|exact HJ].
    pose proof (kr_yank_inv (e_kr s) ltac:(apply HJ)) as Hk. destruct (kr_yank (e_kr s)) as [k' t]. cbn [fst] in Hk.
    apply np_bind; [apply np_set_kr; exact Hk|]. intros _. apply np_bind; [|intros _; np_q].
    destruct t; [|np_q]. apply np_bind; [apply np_edit_yank|]. intros _. apply np_after_yank.
  Qed.

  Lemma np_cmd_vi_yank_to m : np (edo s <- eget;
                                  match copy U seg (e_line s) m with
                                  | Panic => epanic
                                  | Ok (Some text) =>
                                    match kr_kill (e_kr s) text KAppend with
                                    | Ok k' => set_kr k' ;;; eret Proceed
                                    | Panic => epanic
                                    end
                                  | Ok None => eret Proceed
                                  end).
  Proof.
    apply np_get_bind. intros s HJ. apply np_apply; [|exact HJ]. pose proof HJ as [Hw [_ [Hk _]]].
    destruct (copy_total seg seg_concat' seg_nonempty' U (e_line s) m Hw) as [o Ho]. rewrite Ho.
    destruct o as [text|]; [|np_q].
    destruct (kr_kill_inv (e_kr s) text KAppend Hk) as [k' [Hkk Hk']]. rewrite Hkk.
    apply np_bind; [apply np_set_kr; exact Hk'|]. intros _. np_q.
  Qed.

  Lemma np_cmd_yank_pop : np (edo s <- eget; let '(k', r) := kr_yank_pop (e_kr s) in
                              set_kr k' ;;; (match r with Some (size, text) => edit_yank_pop U cfg size text | None => eret tt end) ;;; eret Proceed).
  Proof.
    apply np_get_bind. intros s HJ. apply np_apply; [|exact HJ].
    pose proof (kr_yank_pop_inv (e_kr s) ltac:(apply HJ)) as Hk. destruct (kr_yank_pop (e_kr s)) as [k' r]. cbn [fst] in Hk.
    apply np_bind; [apply np_set_kr; exact Hk|]. intros _.
    apply np_bind; [destruct r as [[size text]|]; [apply np_edit_yank_pop|np_q]|]. intros _. np_q.
  Qed.

  (* THE THEOREM: executing any command from a state satisfying J neither panics nor breaks J *)
  Theorem execute_never_panics c : np (execute U cfg c).
  Proof.
    intros s HJ. unfold execute. unfold ebind at 1. cbn [eget]. apply np_at_bind.
    assert (Hpre : np (match c with
                       | CEndOfFile | CAcceptLine | CAcceptOrInsertLine _ | CNewline =>
                         if match e_hint s with Some _ => true | None => false end || negb (is_default_prompt s)
                         then refresh_line_with_msg U cfg None else eret tt
                       | _ => eret tt
                       end)) by (destruct c; np_q).
    destruct c; try (specialize (Hpre s HJ); unfold npr in Hpre;
                     match goal with |- match ?x with _ => _ end => destruct x as [u s1| | |] end; auto;
                     try (apply np_apply; [|exact Hpre]; np_all); fail).
    - (* CViYankTo *)
      specialize (Hpre s HJ). unfold npr in Hpre.
      match goal with |- match ?x with _ => _ end => destruct x as [u s1| | |] end; auto.
      apply np_apply; [|exact Hpre]. apply np_cmd_vi_yank_to.
    - (* CYank *)
      specialize (Hpre s HJ). unfold npr in Hpre.
      match goal with |- match ?x with _ => _ end => destruct x as [u s1| | |] end; auto.
      apply np_apply; [|exact Hpre]. apply np_cmd_yank.
    - (* CYankPop *)
      specialize (Hpre s HJ). unfold npr in Hpre.
      match goal with |- match ?x with _ => _ end => destruct x as [u s1| | |] end; auto.
      apply np_apply; [|exact Hpre]. apply np_cmd_yank_pop.
  Qed.

  (* the state a read starts from satisfies J (the ring is the editor's, reset at the start of the read) *)
  Lemma initial_J prompt history kr inp :
    kr_inv kr -> J (initial_state U cfg prompt history (kr_reset kr) inp).
  Proof.
    intros [Hok Hk]. split; [exists [], []; split; reflexivity|]. split; [apply initial_I|].
    split; [split; [exact Hok|cbn; discriminate]|]. split; [exact (bd_0 [])|reflexivity].
  Qed.

  (* any sequence of commands: no panic, J throughout *)
  Theorem commands_never_panic cs : np (exec_all U cfg cs).
  Proof.
    induction cs as [|c rest IH]; cbn [exec_all]; [np_q|].
    apply np_bind; [apply execute_never_panics|intros _; exact IH].
  Qed.
End NoPanic.
