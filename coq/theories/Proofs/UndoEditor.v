(* C05 at the level of editor commands: executing ANY command keeps the undo stack a valid
   edit script from the empty line to the current text (UndoProofs.valid). *)
From RL Require Import UData LineBuffer LineBufferOps LineBufferProofs LineBufferTotal Undo KillRing Render Keys
     Editor EditorRun EditorProofs UndoProofs.

Definition I (s : est) : Prop := valid (cs_undos (e_changes s)) (buf (e_line s)).
Definition pres {A} (m : E A) : Prop := forall s a s', I s -> m s = EOk a s' -> I s'.
(* touches neither the line nor the undo stack *)
Definition keeps_lc {A} (m : E A) : Prop :=
  forall s a s', m s = EOk a s' -> e_line s' = e_line s /\ e_changes s' = e_changes s.

Lemma pres_of_lc {A} (m : E A) : keeps_lc m -> pres m.
Proof. intros H s a s' Hi E. destruct (H _ _ _ E) as [L C]. unfold I. rewrite L, C. exact Hi. Qed.
Lemma pres_bind {A B} (m : E A) (f : A -> E B) : pres m -> (forall a, pres (f a)) -> pres (ebind m f).
Proof.
  intros Hm Hf s b s2 Hi H. apply ebind_inv in H. destruct H as [a [s1 [H1 H2]]].
  eapply Hf; [|exact H2]. eapply Hm; eauto.
Qed.
Lemma lc_bind {A B} (m : E A) (f : A -> E B) : keeps_lc m -> (forall a, keeps_lc (f a)) -> keeps_lc (ebind m f).
Proof.
  intros Hm Hf s b s2 H. apply ebind_inv in H. destruct H as [a [s1 [H1 H2]]].
  destruct (Hm _ _ _ H1) as [L1 C1]. destruct (Hf _ _ _ _ H2) as [L2 C2]. split; congruence.
Qed.
Lemma lc_ret {A} (a : A) : keeps_lc (eret a). Proof. intros s a' s' H. inversion H; auto. Qed.
Lemma lc_get : keeps_lc eget. Proof. intros s a' s' H. inversion H; auto. Qed.
Lemma lc_fail {A} e : keeps_lc (@efail A e). Proof. intros s a' s' H. discriminate. Qed.
Lemma lc_panic {A} : keeps_lc (@epanic A). Proof. intros s a' s' H. discriminate. Qed.
Lemma lc_fuel {A} : keeps_lc (@efuel A). Proof. intros s a' s' H. discriminate. Qed.
Lemma lc_write b : keeps_lc (write b). Proof. intros s a' s' H. inversion H; auto. Qed.
Lemma lc_set_layout l : keeps_lc (set_layout l). Proof. intros s a' s' H. inversion H; auto. Qed.
Lemma lc_set_hint h : keeps_lc (set_hint h). Proof. intros s a' s' H. inversion H; auto. Qed.
Lemma lc_set_kr k : keeps_lc (set_kr k). Proof. intros s a' s' H. inversion H; auto. Qed.
Lemma lc_set_hidx k : keeps_lc (set_hidx k). Proof. intros s a' s' H. inversion H; auto. Qed.
Lemma lc_set_saved k : keeps_lc (set_saved k). Proof. intros s a' s' H. inversion H; auto. Qed.
Lemma lc_observe o : keeps_lc (observe o). Proof. intros s a' s' H. inversion H; auto. Qed.
Lemma lc_set_input_mode m : keeps_lc (set_input_mode m). Proof. intros s a' s' H. inversion H; auto. Qed.
Lemma lc_set_num_args z : keeps_lc (set_num_args z). Proof. intros s a' s' H. inversion H; auto. Qed.
Lemma lc_set_last_cmd c : keeps_lc (set_last_cmd c). Proof. intros s a' s' H. inversion H; auto. Qed.
Lemma lc_set_last_cs c : keeps_lc (set_last_cs c). Proof. intros s a' s' H. inversion H; auto. Qed.
Lemma lc_set_inp i : keeps_lc (set_inp i). Proof. intros s a' s' H. inversion H; auto. Qed.

Ltac lc_auto :=
  repeat (first [ apply lc_ret | apply lc_get | apply lc_fail | apply lc_panic | apply lc_fuel | apply lc_write
                | apply lc_set_layout | apply lc_set_hint | apply lc_set_kr | apply lc_set_hidx | apply lc_set_saved
                | apply lc_observe | apply lc_set_input_mode | apply lc_set_num_args | apply lc_set_last_cmd
                | apply lc_set_last_cs | apply lc_set_inp | (apply lc_bind; [|intros]) ] ||
          match goal with
          | |- keeps_lc (if ?c then _ else _) => destruct c
          | |- keeps_lc (match ?x with _ => _ end) => destruct x
          | |- keeps_lc (let '(_, _) := ?x in _) => destruct x
          | |- keeps_lc (let _ := _ in _) => cbv zeta
          end).

Section UndoEditor.
  Variable U : UData.
  Variable cfg : config.
  Let seg := useg U.

  Lemma lc_update_hint : keeps_lc (update_hint cfg). Proof. unfold update_hint. lc_auto. Qed.
  Lemma lc_refresh p ps d i : keeps_lc (refresh U cfg p ps d i). Proof. unfold refresh. lc_auto. Qed.
  Lemma lc_refresh_line : keeps_lc (refresh_line U cfg).
  Proof. unfold refresh_line. lc_auto; try apply lc_update_hint; apply lc_refresh. Qed.
  Lemma lc_refresh_line_with_msg m : keeps_lc (refresh_line_with_msg U cfg m).
  Proof. unfold refresh_line_with_msg. lc_auto; apply lc_refresh. Qed.
  Lemma lc_move_cursor : keeps_lc (move_cursor U cfg). Proof. unfold move_cursor. lc_auto. Qed.
  Lemma lc_move_cursor_to_end : keeps_lc move_cursor_to_end. Proof. unfold move_cursor_to_end. lc_auto. Qed.
  Lemma lc_beep : keeps_lc (beep cfg). Proof. unfold beep. lc_auto. Qed.
  Lemma lc_backup : keeps_lc backup. Proof. unfold backup. lc_auto. Qed.

  (* the three ways a line-buffer operation runs inside the editor *)
  Lemma pres_lb_changes {A} (m : M A) : good m -> pres (lb_changes U m).
  Proof.
    intros Hg s a s' Hi H. unfold lb_changes in H. apply ebind_inv in H. destruct H as [s0 [s0' [H0 H]]].
    inversion H0; subst s0 s0'. destruct (m (e_line s)) as [[[a' b'] ev]|] eqn:E; [|discriminate].
    apply ebind_inv in H. destruct H as [u [s1 [H1 H]]]. apply ebind_inv in H. destruct H as [u2 [s2 [H2 H]]].
    inversion H1; subst. inversion H2; subst. inversion H; subst. unfold I. cbn [e_changes e_line].
    eapply cs_notify_all_valid; [exact Hi|]. eapply Hg; exact E.
  Qed.
  Lemma pres_lb_kill {A} (m : M A) : good m -> pres (lb_kill U m).
  Proof.
    intros Hg s a s' Hi H. unfold lb_kill in H. apply ebind_inv in H. destruct H as [s0 [s0' [H0 H]]].
    inversion H0; subst s0 s0'. destruct (m (e_line s)) as [[[a' b'] ev]|] eqn:E; [|discriminate].
    destruct (kr_notify_all (e_kr s) ev) as [k'|]; [|discriminate].
    apply ebind_inv in H. destruct H as [u [s1 [H1 H]]]. apply ebind_inv in H. destruct H as [u2 [s2 [H2 H]]].
    apply ebind_inv in H. destruct H as [u3 [s3 [H3 H]]].
    inversion H1; subst. inversion H2; subst. inversion H3; subst. inversion H; subst. unfold I. cbn [e_changes e_line].
    eapply cs_notify_all_valid; [exact Hi|]. eapply Hg; exact E.
  Qed.
  Lemma pres_lb_quiet {A} (m : M A) : pure m -> pres (lb_quiet m).
  Proof.
    intros Hp s a s' Hi H. unfold lb_quiet in H. apply ebind_inv in H. destruct H as [s0 [s0' [H0 H]]].
    inversion H0; subst s0 s0'. destruct (m (e_line s)) as [[[a' b'] ev]|] eqn:E; [|discriminate].
    apply ebind_inv in H. destruct H as [u [s1 [H1 H]]]. inversion H1; subst. inversion H; subst.
    unfold I. cbn [e_changes e_line]. destruct (Hp _ _ _ _ E) as [-> _]. exact Hi.
  Qed.

  Lemma pres_changes_begin : pres changes_begin.
  Proof.
    intros s a s' Hi H. unfold changes_begin in H. apply ebind_inv in H. destruct H as [s0 [s0' [H0 H]]].
    inversion H0; subst s0 s0'. destruct (cs_begin (e_changes s)) as [c mark] eqn:E.
    apply ebind_inv in H. destruct H as [u [s1 [H1 H]]]. inversion H1; subst. inversion H; subst.
    unfold I. cbn [e_changes e_line]. replace c with (fst (cs_begin (e_changes s))) by (rewrite E; reflexivity).
    apply valid_begin. exact Hi.
  Qed.
  Lemma pres_changes_end : pres changes_end.
  Proof.
    intros s a s' Hi H. unfold changes_end in H. apply ebind_inv in H. destruct H as [s0 [s0' [H0 H]]].
    inversion H0; subst s0 s0'. destruct (cs_end (e_changes s)) as [c t] eqn:E.
    apply ebind_inv in H. destruct H as [u [s1 [H1 H]]]. inversion H1; subst. inversion H; subst.
    unfold I. cbn [e_changes e_line]. replace c with (fst (cs_end (e_changes s))) by (rewrite E; reflexivity).
    apply valid_end. exact Hi.
  Qed.

  Ltac pure_op :=
    unfold LineBuffer.move_home, LineBuffer.move_end, LineBuffer.move_backward, LineBuffer.move_forward,
      LineBuffer.move_buffer_start, LineBuffer.move_buffer_end, LineBuffer.move_to_prev_word,
      LineBuffer.move_to_next_word, LineBuffer.move_to, LineBuffer.move_to_line_up, LineBuffer.move_to_line_down,
      LineBuffer.set_pos;
    repeat (first [ apply pure_ret | apply pure_get | apply pure_put | apply pure_fail | apply pure_lift
                  | (apply pure_bind; [|intros]) ] ||
            match goal with
            | |- pure (if ?c then _ else _) => destruct c
            | |- pure (match ?x with _ => _ end) => destruct x
            | |- pure (let '(_, _) := ?x in _) => destruct x
            | |- pure (let _ := _ in _) => cbv zeta
            end).

  Ltac lc_side :=
    first [ apply lc_refresh_line | apply lc_refresh_line_with_msg | apply lc_refresh | apply lc_update_hint
          | apply lc_move_cursor | apply lc_move_cursor_to_end | apply lc_beep | apply lc_backup ].
  Ltac lc_all := lc_auto; try lc_side.

  (* structural decomposition: binds, branches; leaves: display-only steps, line-buffer runs, markers *)
  Ltac pres_step :=
    first [ apply pres_changes_begin | apply pres_changes_end
          | (apply pres_lb_quiet; pure_op; fail)
          | (apply pres_of_lc; lc_all; fail)
          | match goal with |- pres (ebind _ _) => apply pres_bind; [|intros] end ].
  Ltac pres_auto :=
    repeat (pres_step ||
            match goal with
            | |- pres (if ?c then _ else _) => destruct c
            | |- pres (match ?x with _ => _ end) => destruct x
            | |- pres (let '(_, _) := ?x in _) => destruct x
            | |- pres (let _ := _ in _) => cbv zeta
            end).

  Lemma pres_moved m : pure m -> pres (moved U cfg m).
  Proof. intros Hp. unfold moved. apply pres_bind; [apply pres_lb_quiet; exact Hp|]. intros r. pres_auto. Qed.

  Lemma pres_edit_insert ch n : pres (edit_insert U cfg ch n).
  Proof. unfold edit_insert. apply pres_bind; [apply pres_lb_changes, good_insert|]. intros r. pres_auto. Qed.

  Lemma pres_edit_yank text a n : pres (edit_yank U cfg text a n).
  Proof.
    unfold edit_yank. apply pres_bind; [pres_auto|]. intros _.
    apply pres_bind; [apply pres_lb_changes, good_yank|]. intros r. pres_auto.
  Qed.

  Lemma pres_edit_yank_pop size text : pres (edit_yank_pop U cfg size text).
  Proof.
    unfold edit_yank_pop. apply pres_bind; [apply pres_changes_begin|]. intros _.
    apply pres_bind; [apply pres_lb_changes, good_yank_pop|]. intros r. pres_auto.
  Qed.

  Lemma pres_edit_kill m : pres (edit_kill U cfg m).
  Proof. unfold edit_kill. apply pres_bind; [apply pres_lb_kill, good_kill|]. intros r. pres_auto. Qed.

  Lemma pres_edit_insert_text text : pres (edit_insert_text U cfg text).
  Proof.
    unfold edit_insert_text. destruct text; [pres_auto|].
    apply pres_bind; [pres_auto|]. intros s. apply pres_bind; [apply pres_lb_changes, good_insert_str|]. intros r. pres_auto.
  Qed.

  Lemma pres_edit_replace_char ch n : pres (edit_replace_char U cfg ch n).
  Proof.
    unfold edit_replace_char. apply pres_bind; [apply pres_changes_begin|]. intros _.
    apply pres_bind; [apply pres_lb_changes, good_delete|]. intros r.
    apply pres_bind.
    - destruct r; [|pres_auto].
      apply pres_bind; [apply pres_lb_changes, good_insert|]. intros _. pres_auto.
    - intros ok. pres_auto.
  Qed.

  Lemma pres_edit_overwrite_char ch : pres (edit_overwrite_char U cfg ch).
  Proof.
    unfold edit_overwrite_char. apply pres_bind; [pres_auto|]. intros s.
    match goal with |- pres (match ?x with _ => _ end) => destruct x as [[e|]|] end; try (pres_auto; fail).
    apply pres_bind; [apply pres_lb_changes; unfold replace; apply good_replace|]. intros _. pres_auto.
  Qed.

  Lemma pres_complete_hint_line : pres (complete_hint_line U cfg).
  Proof.
    unfold complete_hint_line. apply pres_bind; [pres_auto|]. intros s. destruct (e_hint s); [|pres_auto].
    apply pres_bind; [pres_auto|]. intros _.
    apply pres_bind; [apply pres_lb_changes, good_yank|]. intros r. pres_auto.
  Qed.

  Lemma pres_grouped m : good m -> pres (grouped U cfg m).
  Proof.
    intros Hg. unfold grouped. apply pres_bind; [apply pres_changes_begin|]. intros _.
    apply pres_bind; [apply pres_lb_changes, Hg|]. intros r. pres_auto.
  Qed.

  Lemma pres_line_up n : pres (edit_move_line_up U cfg n).
  Proof. unfold edit_move_line_up. pres_auto. Qed.
  Lemma pres_line_down n : pres (edit_move_line_down U cfg n).
  Proof. unfold edit_move_line_down. pres_auto. Qed.

  Lemma pres_restore : pres (restore U).
  Proof. unfold restore. apply pres_bind; [pres_auto|]. intros s. apply pres_lb_changes, good_update. Qed.

  Lemma pres_recall entry p : pres (edo _ <- changes_begin; lb_changes U (update entry p) ;;; edo _ <- changes_end; refresh_line U cfg).
  Proof.
    apply pres_bind; [apply pres_changes_begin|]. intros _.
    apply pres_bind; [apply pres_lb_changes, good_update|]. intros _. pres_auto.
  Qed.

  Lemma pres_edit_history_next prev : pres (edit_history_next U cfg prev).
  Proof.
    unfold edit_history_next. apply pres_bind; [pres_auto|]. intros s.
    destruct (Nat.eqb (hlen_e s) 0); [pres_auto|].
    destruct (Nat.eqb (e_hidx s) (hlen_e s) && negb prev); [pres_auto|].
    destruct (negb (Nat.eqb (e_hidx s) (hlen_e s)) && Nat.eqb (e_hidx s) 0 && prev); [pres_auto|].
    apply pres_bind; [pres_auto|]. intros _.
    apply pres_bind; [pres_auto|]. intros idx.
    destruct (Nat.ltb idx (hlen_e s)).
    - destruct (nth_error (e_hist s) idx); [|pres_auto].
      apply pres_bind; [pres_auto|]. intros _. apply pres_recall.
    - apply pres_bind; [apply pres_restore|]. intros _. pres_auto.
  Qed.

  Lemma pres_edit_history first : pres (edit_history U cfg first).
  Proof.
    unfold edit_history. apply pres_bind; [pres_auto|]. intros s.
    destruct (Nat.eqb (hlen_e s) 0); [pres_auto|].
    destruct (Nat.eqb (e_hidx s) (hlen_e s) && negb first); [pres_auto|].
    destruct (negb (Nat.eqb (e_hidx s) (hlen_e s)) && Nat.eqb (e_hidx s) 0 && first); [pres_auto|].
    apply pres_bind; [pres_auto|]. intros _.
    destruct first.
    - destruct (nth_error (e_hist s) 0); [|pres_auto].
      apply pres_bind; [pres_auto|]. intros _. apply pres_recall.
    - apply pres_bind; [pres_auto|]. intros _. apply pres_bind; [apply pres_restore|]. intros _. pres_auto.
  Qed.

  Lemma pres_edit_history_search d : pres (edit_history_search U cfg d).
  Proof.
    unfold edit_history_search. apply pres_bind; [pres_auto|]. intros s.
    destruct (Nat.eqb (hlen_e s) 0); [pres_auto|].
    match goal with |- pres (if ?c then _ else _) => destruct c; [pres_auto|] end.
    apply pres_bind; [pres_auto|]. intros _.
    match goal with |- pres (match ?x with _ => _ end) => destruct x as [[[i p] entry]|]; [|pres_auto] end.
    apply pres_bind; [pres_auto|]. intros _. apply pres_recall.
  Qed.

  Lemma pres_validate : pres (validate U cfg).
  Proof.
    unfold validate. destruct (c_has_helper cfg); [|pres_auto].
    apply pres_bind; [apply pres_changes_begin|]. intros _.
    apply pres_bind; [pres_auto|]. intros s.
    destruct (c_validate cfg (buf (e_line s))); pres_auto.
  Qed.

  Lemma undo_keeps_valid c b n c' b' d :
    valid (cs_undos c) (buf b) -> cs_undo c b n = Ok (c', b', d) -> valid (cs_undos c') (buf b').
  Proof.
    intros Hv H. destruct (undo_total c b n Hv) as [c2 [b2 [d2 [H2 Hv2]]]].
    rewrite H in H2. inversion H2; subst. exact Hv2.
  Qed.

  Ltac good_side :=
    first [ apply good_edit_word | apply good_transpose_chars | apply good_transpose_words | apply good_indent
          | apply good_insert | apply good_yank | apply good_update | apply good_kill ].
  Ltac pres_known :=
    first [ apply pres_validate | apply pres_edit_history | apply pres_edit_history_next | apply pres_edit_history_search
          | apply pres_complete_hint_line | apply pres_edit_yank | apply pres_edit_yank_pop | apply pres_edit_kill
          | apply pres_edit_insert_text | apply pres_edit_insert | apply pres_edit_replace_char
          | apply pres_edit_overwrite_char | apply pres_line_up | apply pres_line_down | apply pres_restore
          | (apply pres_grouped; good_side) | (apply pres_lb_changes; good_side) | (apply pres_moved; pure_op; fail) ].
  Ltac pres_all :=
    repeat (first [ pres_known | pres_step ] ||
            match goal with
            | |- pres (if ?c then _ else _) => destruct c
            | |- pres (match ?x with _ => _ end) => destruct x
            | |- pres (let '(_, _) := ?x in _) => destruct x
            | |- pres (let _ := _ in _) => cbv zeta
            end).

  (* THE INVARIANT: whatever the command, executing it leaves the undo stack a valid edit script
     from the empty line to the text now in the buffer *)
  Theorem execute_keeps_script c : pres (execute U cfg c).
  Proof.
    unfold execute. apply pres_bind; [pres_auto|]. intros s0.
    apply pres_bind; [pres_auto|]. intros _.
    destruct c; try (pres_all; fail).
    - (* CUndo *)
      intros st a st' Hi H.
      apply ebind_inv in H. destruct H as [s [s1 [Hg H]]]. inversion Hg; subst s s1.
      destruct (cs_undo (e_changes st) (e_line st) n) as [[[c' b'] undone]|] eqn:Eu; [|discriminate].
      apply ebind_inv in H. destruct H as [u1 [s1 [H1 H]]]. inversion H1; subst.
      apply ebind_inv in H. destruct H as [u2 [s2 [H2 H]]]. inversion H2; subst.
      assert (K : keeps_lc ((if undone then refresh_line U cfg else eret tt) ;;; eret Proceed)) by lc_all.
      destruct (K _ _ _ H) as [L C]. unfold I. rewrite L, C. cbn [e_changes e_line].
      eapply undo_keeps_valid; [exact Hi|exact Eu].
  Qed.

  (* ... and so does any sequence of commands *)
  Fixpoint exec_all (cs : list cmd) : E unit :=
    match cs with
    | [] => eret tt
    | c :: rest => execute U cfg c ;;; exec_all rest
    end.
  Theorem commands_keep_script cs : pres (exec_all cs).
  Proof.
    induction cs as [|c rest IH]; cbn [exec_all]; [apply pres_of_lc, lc_ret|].
    apply pres_bind; [apply execute_keeps_script|]. intros _. exact IH.
  Qed.

  (* the state a read starts from satisfies the invariant, and the optional initial text keeps it *)
  Lemma initial_I prompt history kr inp : I (initial_state U cfg prompt history kr inp).
  Proof. unfold I, initial_state. cbn. reflexivity. Qed.

  (* undo as an editor command: it never panics on a state satisfying the invariant, and with a count
     beyond the stack it empties the line *)
  Theorem undo_command_total s n :
    I s -> exists s', execute U cfg (CUndo n) s = EOk Proceed s' /\ I s'.
  Proof.
    intros Hi. destruct (undo_total (e_changes s) (e_line s) n Hi) as [c' [b' [d [Hu Hv]]]].
    unfold execute. unfold ebind at 1. cbn [eget]. unfold ebind at 1. cbn [eret]. unfold ebind at 1. cbn [eget].
    rewrite Hu. unfold ebind at 1, set_changes. unfold ebind at 1, set_line, upd_line.
    destruct d.
    - unfold refresh_line, update_hint, refresh, ebind, eget, set_hint, write, set_layout.
      destruct (c_has_helper cfg); cbn; eexists; (split; [reflexivity|exact Hv]).
    - cbn. eexists. split; [reflexivity|exact Hv].
  Qed.
End UndoEditor.
