(* C17: a whole read never panics -- for EVERY input stream (any characters, undecodable bytes, chunking, messages
   from other threads), BOTH modes, any key bindings -- when no helper is installed and the history is empty (the
   completion and search sub-loops are then never entered; with them the invariant J is not preserved in general:
   known finding K9). *)
From RL Require Import UData Uax29 LineBuffer LineBufferOps LineBufferProofs LineBufferTotal LineBufferAll LineBufferGrow
     Undo KillRing History Render Keys Editor EditorRun EditorProofs UndoProofs UndoEditor KillRingProofs RecallProofs
     NoPanic ReadNoPanic.

(* the pending numeric argument is only touched by the keymap *)
Definition kna {A} (m : E A) : Prop := forall s a s', m s = EOk a s' -> i_num_args s' = i_num_args s.
Lemma kna_bind {A B} (m : E A) (f : A -> E B) : kna m -> (forall a, kna (f a)) -> kna (ebind m f).
Proof.
  intros Hm Hf s b s2 H. apply ebind_inv in H. destruct H as [a [s1 [H1 H2]]].
  rewrite (Hf _ _ _ _ H2). eapply Hm; eauto.
Qed.
Ltac kna_leaf := intros ? ? ? ?H; first [discriminate | (inversion H; subst; reflexivity)].
Ltac kna_auto :=
  repeat (first [ match goal with |- kna (ebind _ _) => apply kna_bind; [|intros] end
                | (kna_leaf; fail) ] ||
          match goal with
          | |- kna (if ?c then _ else _) => destruct c
          | |- kna (match ?x with _ => _ end) => destruct x
          | |- kna (let '(_, _) := ?x in _) => destruct x
          | |- kna (let _ := _ in _) => cbv zeta
          end).

Section MainLoop.
  Variable U : UData.
  Variable cfg : config.

  Theorem execute_kna c : kna (execute U cfg c).
  Proof.
    unfold execute, complete_hint_line, edit_insert, edit_yank, edit_yank_pop, edit_kill, edit_insert_text,
      edit_replace_char, edit_overwrite_char, grouped, moved, edit_move_line_up, edit_move_line_down,
      edit_history_next, edit_history, edit_history_search, validate, restore, backup, beep,
      refresh_line, refresh_line_with_msg, refresh_prompt_and_line, refresh, update_hint, move_cursor,
      move_cursor_to_end, lb_changes, lb_quiet, lb_kill, changes_begin, changes_end.
    destruct c; kna_auto.
  Qed.
  Lemma edit_insert_kna ch n : kna (edit_insert U cfg ch n).
  Proof. unfold edit_insert, lb_changes, refresh_line, refresh, update_hint. kna_auto. Qed.
  Lemma edit_insert_kh ch n : keeps_hist (edit_insert U cfg ch n).
  Proof. unfold edit_insert, lb_changes, refresh_line, refresh, update_hint. kh_auto. Qed.

  Hypothesis no_helper : c_has_helper cfg = false.

  (* the loop invariant *)
  Definition P (s : est) : Prop := R cfg s /\ e_hist s = [].

  Definition rp {A} (m : E A) : Prop :=
    forall s, P s -> match m s with EPanic => False | EOk _ s' => P s' | _ => True end.

  Lemma rp_bind {A B} (m : E A) (f : A -> E B) : rp m -> (forall a, rp (f a)) -> rp (ebind m f).
  Proof.
    intros Hm Hf s HP. specialize (Hm s HP). unfold ebind. destruct (m s) as [a s1| | |]; auto. apply Hf. exact Hm.
  Qed.
  Lemma rp_of_kq {A} (m : E A) : kq cfg m -> keeps_hist m -> rp m.
  Proof.
    intros Hk Hh s [HR He]. specialize (Hk s HR). destruct (m s) as [a s'| | |] eqn:E; auto.
    destruct Hk as [HR' _]. split; [exact HR'|]. rewrite (Hh _ _ _ E). exact He.
  Qed.
  Lemma rp_of_np {A} (m : E A) : np m -> kna m -> keeps_hist m -> rp m.
  Proof.
    intros Hn Hk Hh s [[HJ HN] He]. specialize (Hn s HJ). unfold npr in Hn. destruct (m s) as [a s'| | |] eqn:E; auto.
    split; [split; [exact Hn|unfold Nv; rewrite (Hk _ _ _ E); exact HN]|]. rewrite (Hh _ _ _ E). exact He.
  Qed.
  Lemma rp_ret {A} (a : A) : rp (eret a).
  Proof. intros s HP. exact HP. Qed.
  Lemma rp_get_bind {A} (f : est -> E A) : (forall s0, P s0 -> rp (f s0)) -> rp (ebind eget f).
  Proof. intros H s HP. unfold ebind, eget. apply H; exact HP. Qed.

  Lemma q5_external_print m : quiet5 (external_print U cfg m).
  Proof. unfold external_print. q5_auto; apply q5_refresh_line. Qed.
  Lemma q5_drain_prints fuel : quiet5 (drain_prints U cfg fuel).
  Proof.
    induction fuel as [|f IH]; cbn [drain_prints]; [apply q5_ret|].
    apply quiet5_bind; [apply q5_get|]. intros s. destruct (peek_print (e_inp s)) as [[m i]|]; [|apply q5_ret].
    apply quiet5_bind; [apply q5_set_inp|]. intros _. apply quiet5_bind; [apply q5_external_print|]. intros _. exact IH.
  Qed.

  Lemma rp_reset c0 : rp (if should_reset_kill_ring c0 then (edo s <- eget; set_kr (kr_reset (e_kr s))) else eret tt).
  Proof.
    destruct (should_reset_kill_ring c0); [|apply rp_ret].
    apply rp_of_np; [apply np_forget_yank| |]; intros s a s' H; inversion H; reflexivity.
  Qed.

  Lemma rp_execute c : rp (execute U cfg c).
  Proof. apply rp_of_np; [apply execute_never_panics|apply execute_kna|apply execute_keeps_history]. Qed.

  Lemma rp_quoted_insert (k : E unit) : rp k -> rp (edo ch <- next_char; edit_insert U cfg ch 1 ;;; k).
  Proof.
    intros Hk. apply rp_bind; [apply rp_of_kq; [apply kq_of_q5, q5_next_char|apply kh_next_char]|]. intros ch.
    apply rp_bind; [|intros _; exact Hk].
    apply rp_of_np; [apply np_edit_insert|apply edit_insert_kna|apply edit_insert_kh].
  Qed.

  (* THE LOOP: from any state with the invariant, for every amount of fuel, no panic *)
  Theorem main_loop_rp fuel : rp (main_loop U cfg fuel).
  Proof.
    induction fuel as [|f IH]; cbn [main_loop]; [intros s _; exact Logic.I|].
    apply rp_get_bind. intros s00 _.
    apply rp_bind; [apply rp_of_kq; [apply kq_of_q5, q5_drain_prints|apply kh_drain_prints]|]. intros _.
    apply rp_bind; [apply rp_of_kq; [apply kq_next_cmd|apply kh_next_cmd]|]. intros c0.
    apply rp_bind; [apply rp_reset|]. intros _.
    apply rp_bind with (m := match c0 with
                             | CComplete => if c_has_helper cfg then complete_line U cfg f else eret (Some c0)
                             | _ => eret (Some c0)
                             end).
    { rewrite no_helper. destruct c0; apply rp_ret. }
    intros oc. destruct oc as [c1|]; [|exact IH].
    apply rp_bind with (m := match c1 with
                             | CReverseSearchHistory => incremental_search U cfg f
                             | _ => eret (Some c1)
                             end).
    { destruct c1; try apply rp_ret.
      (* the history is empty: the search returns at once *)
      intros s HP. unfold incremental_search, ebind, eget. destruct HP as [HR He]. unfold hlen_e. rewrite He. cbn.
      split; [exact HR|exact He]. }
    intros oc2. destruct oc2 as [c2|]; [|exact IH].
    destruct c2; try (apply rp_bind; [apply rp_execute|]; intros st; destruct st; [exact IH|apply rp_ret]).
    - apply rp_quoted_insert. exact IH.
    - exact IH.
  Qed.

  (* A WHOLE READ *)
  Theorem read_never_panics prompt initial kr inp :
    kr_inv kr -> fst (read_line U cfg prompt initial [] kr inp) <> OPanic.
  Proof.
    intros Hk. unfold read_line.
    set (s0 := initial_state U cfg prompt [] (kr_reset kr) inp).
    assert (HP0 : P s0).
    { split; [split; [apply initial_J; exact Hk|intros _; cbn; lia]|reflexivity]. }
    match goal with |- fst (match ?prog s0 with _ => _ end) <> _ => assert (Hrp : rp prog) end.
    { apply rp_bind.
      - destruct initial as [[l r]|]; [|apply rp_ret].
        apply rp_of_np; [apply np_lb_changes; [apply (update_total (l ++ r) (blen l)); apply bd_mid|apply good_update|apply kg_update]| |].
        + unfold lb_changes. kna_auto.
        + apply kh_lb_changes.
      - intros _. apply rp_bind; [apply rp_of_kq; [apply kq_of_q5, q5_refresh_line|apply kh_refresh_line]|]. intros _.
        apply rp_bind; [apply main_loop_rp|]. intros _.
        apply rp_of_np; [apply np_moved; [apply move_buffer_end_total|unfold LineBuffer.move_buffer_end; repeat (first [apply pure_ret | apply pure_get | apply pure_put | (apply pure_bind; [|intros])] || match goal with |- pure (if ?c then _ else _) => destruct c end)|apply kg_move_buffer_end]| |].
        + unfold moved, lb_quiet, move_cursor. kna_auto.
        + unfold moved, lb_quiet, move_cursor. kh_auto. }
    specialize (Hrp s0 HP0).
    match goal with |- fst (match ?x with _ => _ end) <> _ => destruct x as [u s1|e s1| |] end;
      try (destruct e); cbn; try discriminate. exfalso. exact Hrp.
  Qed.
End MainLoop.
